(* Proofs for the float half of C12 (Model/FloatInterval.v, Model/CtxFloat.v over Model/B64.v). *)
From Coq Require Import ZArith Bool Reals Lra Lia List.
From Flocq Require Import Core.Core IEEE754.BinarySingleNaN IEEE754.Binary IEEE754.Bits Relative.
Require Import Selen.Generated.Consts Selen.Model.B64 Selen.Model.FloatInterval Selen.Model.CtxFloat.
Require Import Selen.Proofs.B64Facts Selen.Proofs.UlpBits.
Open Scope R_scope.

(* ---- well-formed interval: finite bounds and step, min <= max, step > 0 (executable form) *)
Definition wf_b (i : fint) : bool :=
  fis_finite (imin i) && fis_finite (imax i) && fis_finite (istep i) &&
  fle (imin i) (imax i) && flt c_zero (istep i).
Definition wf (i : fint) : Prop :=
  fin (imin i) /\ fin (imax i) /\ fin (istep i) /\ R_ (imin i) <= R_ (imax i) /\ 0 < R_ (istep i).

Lemma fin_c_zero : fin c_zero. Proof. vm_compute; reflexivity. Qed.
Lemma R_c_zero : R_ c_zero = 0. Proof. set (x := c_zero). vm_compute in x. subst x. reflexivity. Qed.

Lemma wf_b_wf : forall i, wf_b i = true -> wf i.
Proof. intros i H. unfold wf_b in H. repeat rewrite andb_true_iff in H.
  destruct H as ((((A & B) & C) & D) & E). unfold wf, fin. repeat split; auto.
  - apply fle_fin; auto.
  - assert (E' := proj1 (flt_fin c_zero (istep i) fin_c_zero C) E). now rewrite R_c_zero in E'. Qed.

Definition inside (i : fint) (r : f64) : Prop := fin r /\ fle (imin i) r = true /\ fle r (imax i) = true.

Lemma wf_le : forall i, wf i -> fle (imin i) (imax i) = true.
Proof. intros i (A & B & _ & D & _). now apply fle_fin. Qed.
Lemma fle_refl_fin : forall a, fin a -> fle a a = true.
Proof. intros; apply fle_fin; auto; lra. Qed.
Lemma step_nz : forall i, wf i -> R_ (istep i) <> 0.
Proof. intros i (_ & _ & _ & _ & E). lra. Qed.

(* ================================================================ primitives stay inside *)

Lemma fi_to_step_inside : forall rnd i v,
  (forall x, nnan x -> nnan (rnd x)) -> wf i -> nnan v ->
  exists r, fi_to_step rnd i v = Some r /\ inside i r.
Proof. intros rnd i v Hr W Hv. assert (W' := W). destruct W' as (A & B & C & D & E).
  unfold fi_to_step. apply fclamp_inside; auto. now apply wf_le.
  apply fadd_nnan_r; auto. apply fmul_nnan; auto; [|now apply step_nz].
  apply Hr. apply fdiv_nnan; auto; [|now apply step_nz]. now apply fsub_nnan. Qed.

Lemma fi_round_inside : forall i v, wf i -> nnan v -> exists r, fi_round_to_step i v = Some r /\ inside i r.
Proof. intros; apply fi_to_step_inside; auto using fround_nnan. Qed.
Lemma fi_floor_inside : forall i v, wf i -> nnan v -> exists r, fi_floor_to_step i v = Some r /\ inside i r.
Proof. intros; apply fi_to_step_inside; auto using ffloor_nnan. Qed.
Lemma fi_ceil_inside : forall i v, wf i -> nnan v -> exists r, fi_ceil_to_step i v = Some r /\ inside i r.
Proof. intros; apply fi_to_step_inside; auto using fceil_nnan. Qed.

Lemma inside_min : forall i, wf i -> inside i (imin i).
Proof. intros i W. assert (W' := W). destruct W' as (A & B & C & D & E). repeat split; auto.
  now apply fle_refl_fin. now apply wf_le. Qed.

Lemma fis_inf_fin : forall x, fin x -> fis_inf x = false.
Proof. intros [ | | | ]; unfold fin; simpl; congruence. Qed.

Lemma fi_rough_mid_nnan : forall i, wf i -> nnan (fi_rough_mid i).
Proof. intros i W. destruct W as (A & B & C & D & E). unfold fi_rough_mid.
  rewrite (fis_inf_fin _ A), (fis_inf_fin _ B). simpl.
  apply fadd_nnan_r; auto.
  apply fdiv_nnan. apply fsub_nnan; auto using fin_nnan.
  unfold fi_mid_div_bits. apply fin_of_bits_two. unfold fi_mid_div_bits. rewrite R_of_bits_two; lra. Qed.

Lemma fi_mid_inside : forall i, wf i -> exists r, fi_mid i = Some r /\ inside i r.
Proof. intros i W. assert (W' := W). destruct W' as (A & B & C & D & E). unfold fi_mid.
  destruct (fi_is_empty i). { eexists; split; eauto using inside_min. }
  destruct (fi_is_fixed i). { eexists; split; eauto using inside_min. }
  destruct (fi_round_inside i (fi_rough_mid i) W (fi_rough_mid_nnan i W)) as (m & -> & Hm).
  destruct (fi_split_ok i m). { eauto. }
  apply fclamp_inside; auto. now apply wf_le. now apply fi_rough_mid_nnan. Qed.

Lemma fi_mid_prefix_inside : forall i, wf i -> exists r, fi_mid_prefix i = Some r /\ inside i r.
Proof. intros i W. unfold fi_mid_prefix.
  destruct (fi_is_empty i). { eexists; split; eauto using inside_min. }
  destruct (fi_is_fixed i). { eexists; split; eauto using inside_min. }
  apply fi_round_inside; auto. now apply fi_rough_mid_nnan. Qed.

(* ================================================================ remove_below / remove_above *)

Definition no_widen (i i' : fint) : Prop :=
  istep i' = istep i /\ fle (imin i) (imin i') = true /\ fle (imax i') (imax i) = true.

Lemma R_of_bits_one : R_ (of_bits 0x3ff0000000000000) = 1.
Proof. set (x := of_bits 0x3ff0000000000000). vm_compute in x. subst x. simpl. unfold F2R; simpl. lra. Qed.
Lemma fin_of_bits_one : fin (of_bits 0x3ff0000000000000).
Proof. vm_compute; reflexivity. Qed.

Lemma fle_ninf : forall a, fin a -> fle ninf a = true.
Proof. intros a H. unfold fle. now rewrite fcmp_ninf_fin. Qed.

Lemma minus_one_le : forall m x, fin m -> fin x -> fle m x = true -> fle (fsub m (of_bits fi_empty_sub_bits)) x = true.
Proof. intros m x Hm Hx L. unfold fi_empty_sub_bits.
  destruct (fsub_nonneg_le m _ Hm fin_of_bits_one) as [[F Le]| ->].
  rewrite R_of_bits_one; lra.
  apply fle_fin; auto. apply fle_fin in L; auto. lra.
  now apply fle_ninf. Qed.

Lemma make_empty_no_widen : forall i m, wf i -> inside i m ->
  no_widen i (fi_make_empty (mkfi m (imax i) (istep i))).
Proof. intros i m W (Fm & L1 & L2). destruct W as (A & B & C & D & E).
  unfold fi_make_empty, no_widen; simpl. repeat split; auto. now apply minus_one_le. Qed.

Lemma fi_remove_below_no_widen : forall i th, wf i -> nnan th ->
  exists i', fi_remove_below i th = Some i' /\ no_widen i i'.
Proof. intros i th W Hth. assert (W' := W). destruct W' as (A & B & C & D & E).
  assert (Li := wf_le i W).
  unfold fi_remove_below.
  destruct (fgt th (fadd (imax i) (fi_tol i))).
  { eexists; split; eauto. replace i with (mkfi (imin i) (imax i) (istep i)) at 2 by (destruct i; reflexivity).
    apply make_empty_no_widen; auto using inside_min. }
  destruct (fgt th (fadd (imin i) (fi_tol i))).
  { destruct (fi_ceil_inside i th W Hth) as (m & -> & Im).
    destruct (fgt m (fadd (imax i) (fi_tol i))).
    - eexists; split; eauto. now apply make_empty_no_widen.
    - eexists; split; eauto. destruct Im as (Fm & L1 & L2). unfold no_widen; simpl. repeat split; auto. now apply fle_refl_fin. }
  eexists; split; eauto. unfold no_widen. repeat split; auto using fle_refl_fin. Qed.

Lemma fi_remove_above_no_widen : forall i th, wf i -> nnan th ->
  exists i', fi_remove_above i th = Some i' /\ no_widen i i'.
Proof. intros i th W Hth. assert (W' := W). destruct W' as (A & B & C & D & E).
  assert (Li := wf_le i W).
  unfold fi_remove_above.
  destruct (flt th (fsub (imin i) (fi_tol i))).
  { eexists; split; eauto. replace i with (mkfi (imin i) (imax i) (istep i)) at 2 by (destruct i; reflexivity).
    apply make_empty_no_widen; auto using inside_min. }
  destruct (flt th (fsub (imax i) (fi_tol i))).
  { destruct (fi_floor_inside i th W Hth) as (m & -> & Im). destruct Im as (Fm & L1 & L2).
    destruct (flt m (fsub (imin i) (fi_tol i))).
    - eexists; split; eauto. unfold fi_make_empty, no_widen; simpl. repeat split; auto using fle_refl_fin.
      apply minus_one_le; auto.
    - eexists; split; eauto. unfold no_widen; simpl. repeat split; auto using fle_refl_fin. }
  eexists; split; eauto. unfold no_widen. repeat split; auto using fle_refl_fin. Qed.

(* ================================================================ try_set_min / try_set_max: order-only facts *)

Lemma ctx_tol_fin : forall i, wf i -> fin (ctx_tol i) /\ 0 <= R_ (ctx_tol i) /\ R_ (ctx_tol i) = RN (R_ (istep i) / 2).
Proof. intros i (A & B & C & D & E). unfold ctx_tol, ctx_tol_div_bits. now apply half_fin_nonneg. Qed.

Lemma not_fgt_fle : forall a b, nnan a -> fin b -> fgt a b = false -> fle a b = true.
Proof. intros a b Ha Hb H. destruct (nnan_cases a Ha) as [F|[->| ->]].
  - apply fle_fin; auto. now apply fgt_fin_f.
  - unfold fgt in H. rewrite fcmp_pinf_fin in H; auto; discriminate.
  - now apply fle_ninf. Qed.
Lemma fle_pinf : forall a, fin a -> fle a pinf = true.
Proof. intros a H. unfold fle. now rewrite fcmp_fin_pinf. Qed.
Lemma not_flt_fge : forall a b, nnan a -> fin b -> flt a b = false -> fle b a = true.
Proof. intros a b Ha Hb H. destruct (nnan_cases a Ha) as [F|[->| ->]].
  - apply fle_fin; auto. now apply flt_fin_f.
  - now apply fle_pinf.
  - unfold flt in H. rewrite fcmp_ninf_fin in H; auto; discriminate. Qed.

(* v > min + tol (float test) implies v > min (reals) *)
Lemma above_min_tol : forall i v, wf i -> fin v -> fgt v (fadd (imin i) (ctx_tol i)) = true -> R_ (imin i) < R_ v.
Proof. intros i v W Fv H. destruct (ctx_tol_fin i W) as (Ft & T0 & _). destruct W as (A & B & C & D & E).
  destruct (fadd_nonneg_ge (imin i) (ctx_tol i) A Ft T0) as [[F L]|Ei].
  - apply fgt_fin in H; auto. lra.
  - rewrite Ei in H. unfold fgt in H. rewrite fcmp_fin_pinf in H; auto; discriminate. Qed.
Lemma below_max_tol : forall i v, wf i -> fin v -> flt v (fsub (imax i) (ctx_tol i)) = true -> R_ v < R_ (imax i).
Proof. intros i v W Fv H. destruct (ctx_tol_fin i W) as (Ft & T0 & _). destruct W as (A & B & C & D & E).
  destruct (fsub_nonneg_le (imax i) (ctx_tol i) B Ft T0) as [[F L]|Ei].
  - apply flt_fin in H; auto. lra.
  - rewrite Ei in H. unfold flt in H. rewrite fcmp_fin_ninf in H; auto; discriminate. Qed.
(* min is never above max + tol; max never below min - tol *)
Lemma min_not_above_max_tol : forall i, wf i -> fgt (imin i) (fadd (imax i) (ctx_tol i)) = false.
Proof. intros i W. destruct (ctx_tol_fin i W) as (Ft & T0 & _). destruct W as (A & B & C & D & E).
  destruct (fadd_nonneg_ge (imax i) (ctx_tol i) B Ft T0) as [[F L]|Ei].
  - apply fgt_fin_f; auto. lra.
  - rewrite Ei. unfold fgt. now rewrite fcmp_fin_pinf. Qed.
Lemma max_not_below_min_tol : forall i, wf i -> flt (imax i) (fsub (imin i) (ctx_tol i)) = false.
Proof. intros i W. destruct (ctx_tol_fin i W) as (Ft & T0 & _). destruct W as (A & B & C & D & E).
  destruct (fsub_nonneg_le (imin i) (ctx_tol i) A Ft T0) as [[F L]|Ei].
  - apply flt_fin_f; auto. lra.
  - rewrite Ei. unfold flt. now rewrite fcmp_fin_ninf. Qed.

(* ---- (VarF, ValI): no rounding of the bound is involved; complete characterisation *)
Lemma tsmin_fv_spec : forall i v i' ev, wf i -> fin v -> tsmin_fv i v = Some (i', ev) ->
  no_widen i i' /\ imax i' = imax i /\ fin (imin i') /\
  fgt (imin i') (fadd (imax i') (ctx_tol i')) = false /\ (ev = true <-> i' <> i) /\
  (ev = true -> imin i' = v).
Proof. intros i v i' ev W Fv H. assert (W' := W). destruct W' as (A & B & C & D & E).
  unfold tsmin_fv in H.
  destruct (fgt v (fadd (imax i) (ctx_tol i))) eqn:T1; [discriminate|].
  destruct (fgt v (fadd (imin i) (ctx_tol i))) eqn:T2; inversion H; subst; clear H.
  - assert (L := above_min_tol i v W Fv T2).
    assert (Hne: mkfi v (imax i) (istep i) <> i).
    { intros Heq. apply (f_equal imin) in Heq; simpl in Heq. subst v. lra. }
    unfold no_widen; simpl. repeat split; auto using fle_refl_fin.
    apply fle_fin; auto; lra.
  - unfold no_widen. repeat split; auto using fle_refl_fin, min_not_above_max_tol; try congruence. Qed.

Lemma tsmax_fv_spec : forall i v i' ev, wf i -> fin v -> tsmax_fv i v = Some (i', ev) ->
  no_widen i i' /\ imin i' = imin i /\ fin (imax i') /\
  flt (imax i') (fsub (imin i') (ctx_tol i')) = false /\ (ev = true <-> i' <> i) /\
  (ev = true -> imax i' = v).
Proof. intros i v i' ev W Fv H. assert (W' := W). destruct W' as (A & B & C & D & E).
  unfold tsmax_fv in H.
  destruct (flt v (fsub (imin i) (ctx_tol i))) eqn:T1; [discriminate|].
  destruct (flt v (fsub (imax i) (ctx_tol i))) eqn:T2; inversion H; subst; clear H.
  - assert (L := below_max_tol i v W Fv T2).
    assert (Hne: mkfi (imin i) v (istep i) <> i).
    { intros Heq. apply (f_equal imax) in Heq; simpl in Heq. subst v. lra. }
    unfold no_widen; simpl. repeat split; auto using fle_refl_fin.
    apply fle_fin; auto; lra.
  - unfold no_widen. repeat split; auto using fle_refl_fin, max_not_below_min_tol; try congruence. Qed.

(* failing means nothing is left: v > max (resp. v < min) *)
Lemma tsmin_fv_fail : forall i v, wf i -> fin v -> tsmin_fv i v = None -> R_ (imax i) < R_ v.
Proof. intros i v W Fv H. unfold tsmin_fv in H.
  destruct (fgt v (fadd (imax i) (ctx_tol i))) eqn:T1.
  - destruct (ctx_tol_fin i W) as (Ft & T0 & _). destruct W as (A & B & C & D & E).
    destruct (fadd_nonneg_ge (imax i) (ctx_tol i) B Ft T0) as [[F L]|Ei].
    + apply fgt_fin in T1; auto. lra.
    + rewrite Ei in T1. unfold fgt in T1. rewrite fcmp_fin_pinf in T1; auto; discriminate.
  - destruct (fgt v (fadd (imin i) (ctx_tol i))); discriminate. Qed.
Lemma tsmax_fv_fail : forall i v, wf i -> fin v -> tsmax_fv i v = None -> R_ v < R_ (imin i).
Proof. intros i v W Fv H. unfold tsmax_fv in H.
  destruct (flt v (fsub (imin i) (ctx_tol i))) eqn:T1.
  - destruct (ctx_tol_fin i W) as (Ft & T0 & _). destruct W as (A & B & C & D & E).
    destruct (fsub_nonneg_le (imin i) (ctx_tol i) A Ft T0) as [[F L]|Ei].
    + apply flt_fin in T1; auto. lra.
    + rewrite Ei in T1. unfold flt in T1. rewrite fcmp_fin_ninf in T1; auto; discriminate.
  - destruct (flt v (fsub (imax i) (ctx_tol i))); discriminate. Qed.

(* ---- (VarF, ValF): facts that need no rounding analysis *)
Lemma tsmin_ff_order : forall i v i' ev, wf i -> fin v -> tsmin_ff i v = Some (i', ev) ->
  istep i' = istep i /\ imax i' = imax i /\ nnan (imin i') /\ fle (imin i') (imax i') = true /\ (ev = false -> i' = i).
Proof. intros i v i' ev W Fv H. assert (W' := W). destruct W' as (A & B & C & D & E).
  assert (Li := wf_le i W). unfold tsmin_ff in H.
  destruct (_ && _) in H. { inversion H; subst. auto using fin_nnan. }
  destruct (fgt v (fadd (imax i) (ctx_tol i))).
  { destruct (fgt _ _) in H; inversion H; subst. auto using fin_nnan. }
  destruct (fgt v (fadd (imin i) (ctx_tol i))).
  2:{ inversion H; subst. auto using fin_nnan. }
  set (nm0 := fmul (fceil (fdiv v (istep i))) (istep i)) in *.
  assert (N0: nnan nm0).
  { apply fmul_nnan; auto; [|now apply step_nz]. apply fceil_nnan. apply fdiv_nnan; auto using fin_nnan. now apply step_nz. }
  destruct (fgt nm0 (imax i)) eqn:T.
  - destruct (fgt (imax i) _) in H; inversion H; subst; simpl. repeat split; auto using fin_nnan, fle_refl_fin. discriminate.
  - destruct (fgt nm0 _) in H; inversion H; subst; simpl. repeat split; auto using not_fgt_fle. discriminate. Qed.

Lemma tsmax_ff_order : forall i v i' ev, wf i -> fin v -> tsmax_ff i v = Some (i', ev) ->
  istep i' = istep i /\ imin i' = imin i /\ nnan (imax i') /\ fle (imin i') (imax i') = true /\ (ev = false -> i' = i).
Proof. intros i v i' ev W Fv H. assert (W' := W). destruct W' as (A & B & C & D & E).
  assert (Li := wf_le i W). unfold tsmax_ff in H.
  destruct (_ && _) in H. { inversion H; subst. auto using fin_nnan. }
  destruct (flt v (imin i)).
  { destruct (fle _ _) in H. { inversion H; subst; simpl. repeat split; auto using fin_nnan, fle_refl_fin. discriminate. }
    destruct (fgt _ _) in H; inversion H; subst. auto using fin_nnan. }
  destruct (flt v (fsub (imax i) (ctx_tol i))).
  2:{ inversion H; subst. auto using fin_nnan. }
  set (nm0 := fmul (ffloor (fdiv v (istep i))) (istep i)) in *.
  assert (N0: nnan nm0).
  { apply fmul_nnan; auto; [|now apply step_nz]. apply ffloor_nnan. apply fdiv_nnan; auto using fin_nnan. now apply step_nz. }
  destruct (flt nm0 (imin i)) eqn:T.
  - destruct (flt (imin i) _) in H; inversion H; subst; simpl. repeat split; auto using fin_nnan, fle_refl_fin. discriminate.
  - destruct (flt nm0 _) in H; inversion H; subst; simpl. repeat split; auto using not_flt_fge. discriminate. Qed.

(* ================================================================ rounding analysis (real numbers) *)

Definition u53 : R := / 9007199254740992.
Lemma RN_err : forall x, exists eta, Rabs eta <= bpow radix2 (-1075) /\ Rabs (RN x - x) <= u53 * Rabs x + Rabs eta.
Proof. intros x. destruct (error_N_FLT radix2 (-1074) 53 ltac:(lia) (fun t => negb (Z.even t)) x) as (eps & eta & He & Hh & _ & E).
  exists eta. split.
  - replace (bpow radix2 (-1075)) with (/2 * bpow radix2 (-1074)). exact Hh.
    change (-1074)%Z with (-1075 + 1)%Z at 1. rewrite bpow_plus. simpl bpow at 2. change (IZR (Z.pow_pos 2 1)) with 2. field.
  - unfold RN. change (round radix2 fexp64 (round_mode mode_NE) x) with (round radix2 (FLT_exp (-1074) 53) (Znearest (fun t => negb (Z.even t))) x).
    rewrite E. replace (x * (1 + eps) + eta - x) with (x * eps + eta) by ring.
    eapply Rle_trans. apply Rabs_triang. apply Rplus_le_compat_r.
    rewrite Rabs_mult, Rmult_comm. apply Rmult_le_compat_r. apply Rabs_pos.
    replace u53 with (/2 * bpow radix2 (-53 + 1)). exact He.
    unfold u53. simpl. change (IZR (Z.pow_pos 2 52)) with 4503599627370496. lra. Qed.

Definition c100 : R := / 1267650600228229401496703205376.  (* 2^-100 *)
Lemma tiny160 : forall s, bpow radix2 (-60) <= s -> bpow radix2 (-160) <= c100 * s.
Proof. intros s Hs. change (-160)%Z with (-100 + -60)%Z. rewrite bpow_plus.
  apply Rmult_le_compat. apply bpow_ge_0. apply bpow_ge_0. 2: exact Hs.
  unfold c100. simpl. apply Req_le. f_equal. Qed.
Lemma eta_small : forall eta s, Rabs eta <= bpow radix2 (-1075) -> bpow radix2 (-60) <= s -> Rabs eta <= c100 * s.
Proof. intros eta s H Hs. eapply Rle_trans. exact H.
  apply Rle_trans with (bpow radix2 (-160)). apply bpow_le; lia. now apply tiny160. Qed.
Lemma eta_s_small : forall eta s, Rabs eta <= bpow radix2 (-1075) -> bpow radix2 (-60) <= s -> s <= bpow radix2 60 -> Rabs eta * s <= c100 * s.
Proof. intros eta s H Hs Hs2. apply Rle_trans with (bpow radix2 (-1075) * bpow radix2 60).
  apply Rmult_le_compat; auto. apply Rabs_pos. generalize (bpow_gt_0 radix2 (-60)); lra.
  rewrite <- bpow_plus. apply Rle_trans with (bpow radix2 (-160)). apply bpow_le; lia. now apply tiny160. Qed.

Definition p50 : R := 1125899906842624.       (* 2^50 *)
Definition m50 : R := / 1125899906842624.     (* 2^-50 *)

(* Real-number core of `steps = rnd(v/step); new = steps*step` *)
Lemma quant_real : forall v s k,
  bpow radix2 (-60) <= s -> s <= bpow radix2 60 -> Rabs v <= (p50 + 1) * s ->
  RN (v / s) - 1 < k < RN (v / s) + 1 ->
  let r := RN (k * s) in
  (RN (v / s) <= k -> v - 3/10 * s <= r) /\
  (k <= RN (v / s) -> r <= v + 3/10 * s) /\
  v - s * (1 + m50) - Rabs v * m50 <= r <= v + s * (1 + m50) + Rabs v * m50 /\
  Rabs (k * s) <= 2 * p50 * s /\ Rabs (RN (v / s)) <= 2 * p50.
Proof. intros v s k Hs1 Hs2 Hv Hk r.
  assert (S0: 0 < s). { generalize (bpow_gt_0 radix2 (-60)); lra. }
  set (x := v / s) in *. set (q := RN x) in *.
  destruct (RN_err x) as (e1 & He1 & Hq). fold q in Hq.
  destruct (RN_err (k * s)) as (e2 & He2 & Hr). fold r in Hr.
  assert (T1 := eta_small e1 s He1 Hs1). assert (T2 := eta_small e2 s He2 Hs1).
  set (V := Rabs v) in *. assert (V0: 0 <= V) by apply Rabs_pos.
  assert (Vv: - V <= v <= V). { unfold V. split. generalize (Rle_abs (- v)); rewrite Rabs_Ropp; lra. apply Rle_abs. }
  assert (Xs: x * s = v). { unfold x. field. lra. }
  assert (AXs: Rabs x * s = V). { unfold V. rewrite <- Xs. rewrite Rabs_mult, (Rabs_pos_eq s); lra. }
  (* |q*s - v| <= u*V + |e1|*s *)
  assert (Q: Rabs (q * s - v) <= u53 * V + Rabs e1 * s).
  { replace (q * s - v) with ((q - x) * s) by (rewrite <- Xs; ring).
    rewrite Rabs_mult, (Rabs_pos_eq s) by lra.
    replace (u53 * V + Rabs e1 * s) with ((u53 * Rabs x + Rabs e1) * s) by (rewrite <- AXs; ring).
    apply Rmult_le_compat_r; lra. }
  apply Rabs_le_inv in Q.
  assert (E1s: Rabs e1 * s <= c100 * s) by now apply eta_s_small.
  set (es := Rabs e1 * s) in *.
  assert (K1: q * s - s < k * s < q * s + s).
  { split. replace (q * s - s) with ((q - 1) * s) by ring. apply Rmult_lt_compat_r; lra.
    replace (q * s + s) with ((q + 1) * s) by ring. apply Rmult_lt_compat_r; lra. }
  assert (uV: u53 * V <= s / 8 + u53 * s). { unfold u53, p50 in *. lra. }
  set (z := k * s) in *.
  assert (Kq1: q <= k -> q * s <= z). { intros. unfold z. apply Rmult_le_compat_r; lra. }
  assert (Kq2: k <= q -> z <= q * s). { intros. unfold z. apply Rmult_le_compat_r; lra. }
  set (qs := q * s) in *.
  assert (Zb: Rabs z <= V + s / 4 + c100 * s + s). { apply Rabs_le. unfold u53, c100 in *. lra. }
  assert (R1: Rabs (r - z) <= u53 * (V + s / 4 + c100 * s + s) + c100 * s).
  { eapply Rle_trans. exact Hr. apply Rplus_le_compat. apply Rmult_le_compat_l. unfold u53; lra. exact Zb. exact T2. }
  apply Rabs_le_inv in R1.
  repeat split.
  - intros Hqk. assert (qs <= z) by auto.
    assert (A1: v - s / 8 - u53 * s - c100 * s <= qs) by lra.
    assert (A2: z - (u53 * (V + s / 4 + c100 * s + s) + c100 * s) <= r) by lra.
    clear - A1 A2 H uV V0 S0. unfold u53, c100, p50 in *. clearbody V qs z r. lra.
  - intros Hqk. assert (z <= qs) by auto.
    assert (A1: qs <= v + s / 8 + u53 * s + c100 * s) by lra.
    assert (A2: r <= z + (u53 * (V + s / 4 + c100 * s + s) + c100 * s)) by lra.
    clear - A1 A2 H uV V0 S0. unfold u53, c100, p50 in *. clearbody V qs z r. lra.
  - clear - Q K1 R1 E1s uV V0 S0 Vv. unfold u53, c100, p50, m50 in *. clearbody V qs es z r. lra.
  - clear - Q K1 R1 E1s uV V0 S0 Vv. unfold u53, c100, p50, m50 in *. clearbody V qs es z r. lra.
  - eapply Rle_trans. exact Zb. clear - Hv V0 S0. unfold u53, c100, p50, m50 in *. clearbody V. lra.
  - assert (AX: Rabs x <= p50 + 1).
    { apply Rmult_le_reg_r with s; auto. rewrite AXs. exact Hv. }
    assert (Rabs (q - x) <= u53 * (p50 + 1) + c100 * s).
    { eapply Rle_trans. exact Hq. apply Rplus_le_compat; auto. apply Rmult_le_compat_l; auto. unfold u53; lra. }
    assert (S60: s <= 1152921504606846976). { eapply Rle_trans. exact Hs2. simpl. apply Req_le. reflexivity. }
    apply Rabs_le. apply Rabs_le_inv in H. apply Rabs_le_inv in AX.
    clear - H AX S60 S0. unfold u53, c100, p50 in *. clearbody q x. lra. Qed.

(* ================================================================ the magnitude hypothesis in real terms *)

Lemma c_2m60_facts : fin c_2m60 /\ R_ c_2m60 = bpow radix2 (-60).
Proof. split. vm_compute; reflexivity. set (x := c_2m60). vm_compute in x. subst x. simpl.
  unfold F2R; simpl Fnum; simpl Fexp. change (IZR 4503599627370496) with (bpow radix2 52). rewrite <- bpow_plus. reflexivity. Qed.
Lemma c_2p60_facts : fin c_2p60 /\ R_ c_2p60 = bpow radix2 60.
Proof. split. vm_compute; reflexivity. set (x := c_2p60). vm_compute in x. subst x. simpl.
  unfold F2R; simpl Fnum; simpl Fexp. change (IZR 4503599627370496) with (bpow radix2 52). rewrite <- bpow_plus. reflexivity. Qed.
Lemma c_2p50_facts : fin c_2p50 /\ R_ c_2p50 = p50.
Proof. split. vm_compute; reflexivity. set (x := c_2p50). vm_compute in x. subst x. simpl.
  unfold F2R; simpl Fnum; simpl Fexp. change (IZR 4503599627370496) with (bpow radix2 52). rewrite <- bpow_plus. reflexivity. Qed.

Lemma bpow120 : bpow radix2 120 = 1329227995784915872903807060280344576.
Proof. reflexivity. Qed.
Lemma bpow60 : bpow radix2 60 = 1152921504606846976.
Proof. reflexivity. Qed.
Lemma emax_big : bpow radix2 120 <= bpow radix2 1024.
Proof. apply bpow_le; lia. Qed.

Lemma RN_abs_le : forall x s, bpow radix2 (-60) <= s -> Rabs (RN x) <= Rabs x + u53 * Rabs x + c100 * s.
Proof. intros x s Hs. destruct (RN_err x) as (e & He & H). assert (T := eta_small e s He Hs).
  replace (RN x) with (x + (RN x - x)) by ring. eapply Rle_trans. apply Rabs_triang. lra. Qed.

Lemma fabs_fin : forall x, fin x -> fin (fabs x) /\ R_ (fabs x) = Rabs (R_ x).
Proof. intros x H. split. destruct x; try discriminate H; reflexivity. apply Binary.B2R_Babs. Qed.

Record MagnR (i : fint) (v : f64) : Prop := {
  mg_wf : wf i; mg_v : fin v;
  mg_s1 : bpow radix2 (-60) <= R_ (istep i); mg_s2 : R_ (istep i) <= bpow radix2 60;
  mg_min : Rabs (R_ (imin i)) <= (p50 + 1) * R_ (istep i);
  mg_max : Rabs (R_ (imax i)) <= (p50 + 1) * R_ (istep i);
  mg_vb : Rabs (R_ v) <= (p50 + 1) * R_ (istep i);
  mg_bfin : fin (fmul c_2p50 (istep i)) }.

Lemma magn_b_MagnR : forall i v, magn_b i v = true -> MagnR i v.
Proof. intros i v H. unfold magn_b in H. repeat rewrite andb_true_iff in H.
  destruct H as (((((((F1 & F2) & F3) & F4) & L) & S1) & S2) & ((B1 & B2) & B3)).
  destruct c_2m60_facts as (Fa & Ra). destruct c_2p60_facts as (Fb & Rb). destruct c_2p50_facts as (Fc & Rc).
  apply fle_fin in L; auto. apply fle_fin in S1; auto. apply fle_fin in S2; auto. rewrite Ra in S1. rewrite Rb in S2.
  assert (S0: 0 < R_ (istep i)). { generalize (bpow_gt_0 radix2 (-60)); lra. }
  set (b := fmul c_2p50 (istep i)) in *.
  assert (Hb: fin b /\ R_ b <= (p50 + 1) * R_ (istep i)).
  { assert (AB: Rabs (RN (R_ c_2p50 * R_ (istep i))) <= (p50 + 1) * R_ (istep i)).
    { eapply Rle_trans. apply RN_abs_le with (s := R_ (istep i)); auto. rewrite Rc.
      rewrite Rabs_pos_eq by (unfold p50; lra). unfold u53, c100, p50. lra. }
    destruct (fmul_cases c_2p50 (istep i) Fc F3) as [[F E]|(Ov & _)].
    - split; auto. fold b in E. rewrite E. eapply Rle_trans. apply Rle_abs. exact AB.
    - exfalso. generalize emax_big. rewrite bpow120. rewrite bpow60 in S2. unfold p50 in AB. lra. }
  destruct Hb as (Fbb & Rbb).
  destruct (fabs_fin _ F1) as (G1 & E1). destruct (fabs_fin _ F2) as (G2 & E2). destruct (fabs_fin _ F4) as (G3 & E3).
  apply fle_fin in B1; auto. apply fle_fin in B2; auto. apply fle_fin in B3; auto.
  constructor; auto; try lra. repeat split; auto. Qed.

(* ---- float-level quantisation: steps = rnd(v/step); steps*step  (rnd = ceil or floor) *)
Lemma quant_float : forall md v s, (md = mode_UP \/ md = mode_DN) -> fin v -> fin s ->
  bpow radix2 (-60) <= R_ s -> R_ s <= bpow radix2 60 -> Rabs (R_ v) <= (p50 + 1) * R_ s ->
  let nm0 := fmul (Binary.Bnearbyint 53 1024 Hpe unop_nan_pl64 md (fdiv v s)) s in
  fin nm0 /\
  (md = mode_UP -> R_ v - 3/10 * R_ s <= R_ nm0) /\
  (md = mode_DN -> R_ nm0 <= R_ v + 3/10 * R_ s) /\
  R_ v - R_ s * (1 + m50) - Rabs (R_ v) * m50 <= R_ nm0 <= R_ v + R_ s * (1 + m50) + Rabs (R_ v) * m50.
Proof. intros md v s Hmd Fv Fs S1 S2 Vb nm0.
  assert (S0: 0 < R_ s). { generalize (bpow_gt_0 radix2 (-60)); lra. }
  assert (Sz: R_ s <> 0) by lra.
  assert (S60: R_ s <= 1152921504606846976) by (rewrite <- bpow60; exact S2).
  assert (EB: bpow radix2 1024 >= 1329227995784915872903807060280344576) by (generalize emax_big; rewrite bpow120; lra).
  (* the quotient *)
  set (q := RN (R_ v / R_ s)).
  assert (Hq0: q - 1 < q < q + 1) by lra.
  destruct (quant_real (R_ v) (R_ s) q S1 S2 Vb Hq0) as (_ & _ & _ & _ & Qb). fold q in Qb.
  destruct (fdiv_cases v s Fv Fs Sz) as [[Fq Eq]|(Ov & _)].
  2:{ exfalso. fold q in Ov. unfold p50 in Qb. lra. }
  fold q in Eq.
  set (kf := Binary.Bnearbyint 53 1024 Hpe unop_nan_pl64 md (fdiv v s)) in *.
  destruct (Binary.Bnearbyint_correct 53 1024 Hpe unop_nan_pl64 md (fdiv v s)) as (Ek & Fk & _).
  fold kf in Ek, Fk. rewrite Eq, round_FIX_IZR in Ek. assert (Fk': fin kf) by (unfold fin; now rewrite Fk).
  assert (Hk: q - 1 < R_ kf < q + 1 /\ (md = mode_UP -> q <= R_ kf) /\ (md = mode_DN -> R_ kf <= q)).
  { rewrite Ek. destruct Hmd as [-> | ->]; simpl.
    - generalize (Zceil_ub q) (Zceil_lb q). intros. repeat split; try lra; intros; try lra; discriminate.
    - generalize (Zfloor_ub q) (Zfloor_lb q). intros. repeat split; try lra; intros; try lra; discriminate. }
  destruct Hk as (Hk & Hup & Hdn).
  destruct (quant_real (R_ v) (R_ s) (R_ kf) S1 S2 Vb Hk) as (Q1 & Q2 & Q3 & Q4 & _). fold q in Q1, Q2.
  destruct (fmul_cases kf s Fk' Fs) as [[Fn En]|(Ov & _)].
  - fold nm0 in Fn, En. rewrite En. repeat split; auto; try lra.
  - exfalso. assert (Rabs (RN (R_ kf * R_ s)) <= Rabs (R_ v) + R_ s * (1 + m50) + Rabs (R_ v) * m50).
    { apply Rabs_le. generalize (Rle_abs (R_ v)) (Rle_abs (- R_ v)). rewrite Rabs_Ropp. unfold m50 in *. intros. split; lra. }
    unfold m50, p50 in *. lra. Qed.

(* ================================================================ (VarF,ValF) under Magn *)

Lemma fadd_fin_eq : forall a b, fin a -> fin b -> fin (fadd a b) -> R_ (fadd a b) = RN (R_ a + R_ b).
Proof. intros a b Ha Hb F. destruct (fadd_cases a b Ha Hb) as [[_ E]|(_ & E & _)]; auto.
  rewrite E in F; discriminate. Qed.
Lemma fsub_fin_eq : forall a b, fin a -> fin b -> fin (fsub a b) -> R_ (fsub a b) = RN (R_ a - R_ b).
Proof. intros a b Ha Hb F. destruct (fsub_cases a b Ha Hb) as [[_ E]|(_ & E & _)]; auto.
  rewrite E in F; discriminate. Qed.

Lemma tol_close : forall i v, MagnR i v ->
  Rabs (R_ (ctx_tol i) - R_ (istep i) / 2) <= u53 * (R_ (istep i) / 2) + c100 * R_ (istep i).
Proof. intros i v M. destruct M. destruct (ctx_tol_fin i mg_wf0) as (_ & _ & E). rewrite E.
  destruct (RN_err (R_ (istep i) / 2)) as (e & He & H). assert (T := eta_small e _ He mg_s3).
  assert (S0: 0 < R_ (istep i)). { generalize (bpow_gt_0 radix2 (-60)); lra. }
  rewrite (Rabs_pos_eq (R_ (istep i) / 2)) in H by lra. lra. Qed.

Lemma above_min_tol_strong : forall i v, MagnR i v -> fgt v (fadd (imin i) (ctx_tol i)) = true ->
  R_ (imin i) + 37/100 * R_ (istep i) < R_ v.
Proof. intros i v M H. assert (TC := tol_close i v M). destruct M.
  assert (W := mg_wf0). destruct W as (A & B & C & D & E).
  destruct (ctx_tol_fin i mg_wf0) as (Ft & T0 & _).
  destruct (fadd_nonneg_ge (imin i) (ctx_tol i) A Ft T0) as [[F L]|Ei].
  2:{ rewrite Ei in H. unfold fgt in H. rewrite fcmp_fin_pinf in H; auto; discriminate. }
  assert (Ea := fadd_fin_eq _ _ A Ft F). apply fgt_fin in H; auto.
  set (s := R_ (istep i)) in *. set (t := R_ (ctx_tol i)) in *. set (mn := R_ (imin i)) in *.
  destruct (RN_err (mn + t)) as (e & He & Hr). assert (T := eta_small e s He mg_s3). rewrite <- Ea in Hr.
  apply Rabs_le_inv in TC. apply Rabs_le_inv in mg_min0.
  assert (Rabs (mn + t) <= (p50 + 1) * s + s). { apply Rabs_le. unfold u53, c100 in *. lra. }
  assert (Rabs (R_ (fadd (imin i) (ctx_tol i)) - (mn + t)) <= u53 * ((p50 + 1) * s + s) + c100 * s).
  { eapply Rle_trans. exact Hr. apply Rplus_le_compat; auto. apply Rmult_le_compat_l; auto. unfold u53; lra. }
  apply Rabs_le_inv in H1. unfold u53, c100, p50 in *. lra. Qed.

Lemma below_max_tol_strong : forall i v, MagnR i v -> flt v (fsub (imax i) (ctx_tol i)) = true ->
  R_ v < R_ (imax i) - 37/100 * R_ (istep i).
Proof. intros i v M H. assert (TC := tol_close i v M). destruct M.
  assert (W := mg_wf0). destruct W as (A & B & C & D & E).
  destruct (ctx_tol_fin i mg_wf0) as (Ft & T0 & _).
  destruct (fsub_nonneg_le (imax i) (ctx_tol i) B Ft T0) as [[F L]|Ei].
  2:{ rewrite Ei in H. unfold flt in H. rewrite fcmp_fin_ninf in H; auto; discriminate. }
  assert (Ea := fsub_fin_eq _ _ B Ft F). apply flt_fin in H; auto.
  set (s := R_ (istep i)) in *. set (t := R_ (ctx_tol i)) in *. set (mx := R_ (imax i)) in *.
  destruct (RN_err (mx - t)) as (e & He & Hr). assert (T := eta_small e s He mg_s3). rewrite <- Ea in Hr.
  apply Rabs_le_inv in TC. apply Rabs_le_inv in mg_max0.
  assert (Rabs (mx - t) <= (p50 + 1) * s + s). { apply Rabs_le. unfold u53, c100 in *. lra. }
  assert (Rabs (R_ (fsub (imax i) (ctx_tol i)) - (mx - t)) <= u53 * ((p50 + 1) * s + s) + c100 * s).
  { eapply Rle_trans. exact Hr. apply Rplus_le_compat; auto. apply Rmult_le_compat_l; auto. unfold u53; lra. }
  apply Rabs_le_inv in H1. unfold u53, c100, p50 in *. lra. Qed.

Lemma min_lt_max_from_tests : forall i v, wf i -> fin v ->
  fgt v (fadd (imax i) (ctx_tol i)) = false -> fgt v (fadd (imin i) (ctx_tol i)) = true -> R_ (imin i) < R_ (imax i).
Proof. intros i v W Fv T1 T2. destruct (ctx_tol_fin i W) as (Ft & T0 & _). destruct W as (A & B & C & D & E).
  destruct (Rle_lt_or_eq_dec _ _ D) as [|Heq]; auto. exfalso.
  destruct (fadd_nonneg_ge (imin i) (ctx_tol i) A Ft T0) as [[F L]|Ei].
  2:{ rewrite Ei in T2. unfold fgt in T2. rewrite fcmp_fin_pinf in T2; auto; discriminate. }
  assert (Ea := fadd_fin_eq _ _ A Ft F). apply fgt_fin in T2; auto.
  destruct (fadd_cases (imax i) (ctx_tol i) B Ft) as [[F' E']|(Ov & _)].
  - apply fgt_fin_f in T1; auto. rewrite E', <- Heq, <- Ea in T1. lra.
  - rewrite <- Heq, <- Ea in Ov. generalize (fin_lt_emax (fadd (imin i) (ctx_tol i))). lra. Qed.

Definition loss_min (i : fint) (v : f64) (i' : fint) : Prop :=
  R_ (imin i') <= R_ (imin i) \/ R_ (imin i') <= R_ v + R_ (istep i) * (1 + m50) + Rabs (R_ v) * m50.
Definition loss_max (i : fint) (v : f64) (i' : fint) : Prop :=
  R_ (imax i) <= R_ (imax i') \/ R_ v - R_ (istep i) * (1 + m50) - Rabs (R_ v) * m50 <= R_ (imax i').

Lemma unchanged_ok_min : forall i v, wf i ->
  no_widen i i /\ imax i = imax i /\ fin (imin i) /\ (false = true <-> i <> i) /\ loss_min i v i.
Proof. intros i v (A & B & C & D & E). unfold no_widen, loss_min. repeat split; auto using fle_refl_fin; try congruence; try lra. Qed.

Theorem tsmin_ff_magn : forall i v i' ev, magn_b i v = true -> tsmin_ff i v = Some (i', ev) ->
  no_widen i i' /\ imax i' = imax i /\ fin (imin i') /\ (ev = true <-> i' <> i) /\ loss_min i v i'.
Proof. intros i v i' ev Mb H. assert (M := magn_b_MagnR i v Mb). assert (M' := M). destruct M'.
  assert (W := mg_wf0). destruct W as (A & B & C & D & E). unfold tsmin_ff in H.
  destruct (_ && _) in H. { inversion H; subst. now apply unchanged_ok_min. }
  destruct (fgt v (fadd (imax i) (ctx_tol i))) eqn:T1.
  { destruct (fgt _ _) in H; inversion H; subst. now apply unchanged_ok_min. }
  destruct (fgt v (fadd (imin i) (ctx_tol i))) eqn:T2.
  2:{ inversion H; subst. now apply unchanged_ok_min. }
  assert (Lmm := min_lt_max_from_tests i v mg_wf0 mg_v0 T1 T2).
  assert (Lv := above_min_tol_strong i v M T2).
  destruct (quant_float mode_UP v (istep i) (or_introl eq_refl) mg_v0 C mg_s3 mg_s4 mg_vb0) as (Fn & Lo & _ & Lb).
  specialize (Lo eq_refl). change (Binary.Bnearbyint 53 1024 Hpe unop_nan_pl64 mode_UP) with fceil in *.
  set (nm0 := fmul (fceil (fdiv v (istep i))) (istep i)) in *.
  assert (S0: 0 < R_ (istep i)) by auto.
  destruct (fgt nm0 (imax i)) eqn:T3.
  - destruct (fgt (imax i) _) in H; inversion H; subst; clear H.
    assert (Hne: mkfi (imax i) (imax i) (istep i) <> i).
    { intros Heq. apply (f_equal imin) in Heq; simpl in Heq. rewrite <- Heq in Lmm. lra. }
    apply fgt_fin in T3; auto.
    unfold no_widen, loss_min; simpl. repeat split; auto using fle_refl_fin.
    apply fle_fin; auto; lra. right. lra.
  - destruct (fgt nm0 _) in H; inversion H; subst; clear H.
    assert (Hne: mkfi nm0 (imax i) (istep i) <> i).
    { intros Heq. apply (f_equal imin) in Heq; simpl in Heq. rewrite <- Heq in Lv. lra. }
    unfold no_widen, loss_min; simpl. repeat split; auto using fle_refl_fin.
    apply fle_fin; auto; lra. right. lra. Qed.

Lemma RN_opp : forall x, RN (- x) = - RN x.
Proof. intros. unfold RN. simpl round_mode. apply round_NE_opp. Qed.

Lemma R_of_bits_three : R_ (of_bits 0x4008000000000000) = 3 /\ fin (of_bits 0x4008000000000000).
Proof. split. set (x := of_bits 0x4008000000000000). vm_compute in x. subst x. simpl. unfold F2R; simpl. lra.
  vm_compute; reflexivity. Qed.
Lemma c_1em5_facts : fin (of_bits 0x3ee4f8b588e368f1) /\ R_ (of_bits 0x3ee4f8b588e368f1) <> 0.
Proof. split. vm_compute; reflexivity.
  set (x := of_bits 0x3ee4f8b588e368f1). vm_compute in x. subst x. simpl. apply Rgt_not_eq. apply F2R_gt_0. simpl. lia. Qed.

(* fmaxr a b with a finite and b not NaN: anything strictly below a is strictly below the max *)
Lemma flt_fmaxr : forall d a b, fin d -> fin a -> nnan b -> R_ d < R_ a -> flt d (fmaxr a b) = true.
Proof. intros d a b Fd Fa Nb L. unfold fmaxr.
  replace (fis_nan a) with false by (symmetry; apply fin_nnan; auto).
  replace (fis_nan b) with false by (symmetry; exact Nb).
  destruct (flt a b) eqn:T.
  - destruct (nnan_cases b Nb) as [Fb|[->| ->]].
    + apply flt_fin in T; auto. apply flt_fin; auto. lra.
    + unfold flt. now rewrite fcmp_fin_pinf.
    + unfold flt in T. rewrite fcmp_fin_ninf in T; auto. discriminate.
  - apply flt_fin; auto. Qed.

(* views.rs:372: when max is (bitwise) equal to min and v is within one step below, the early
   return fires -- so the quantization-mismatch branch is never reached with max == min *)
Lemma early_fires : forall i v, MagnR i v -> imax i = imin i -> R_ v < R_ (imin i) ->
  fle (fsub (imin i) v) (istep i) = true ->
  flt (fabs (fsub (imax i) (imin i))) (ctx_tol i) && flt (fabs (fsub v (imax i))) (ctx_ptol i (imin i)) = true.
Proof. intros i v M Heq Lv Tq. assert (TC := tol_close i v M). assert (M' := M). destruct M'.
  assert (W := mg_wf0). destruct W as (A & B & C & D & E).
  destruct (ctx_tol_fin i mg_wf0) as (Ft & T0 & _).
  set (s := R_ (istep i)) in *. assert (S0: 0 < s) by auto.
  assert (EB: bpow radix2 1024 >= 1329227995784915872903807060280344576) by (generalize emax_big; rewrite bpow120; lra).
  assert (S60: s <= 1152921504606846976) by (rewrite <- bpow60; exact mg_s4).
  rewrite Heq. apply andb_true_iff. split.
  - (* |min - min| = 0 < tol *)
    destruct (fsub_cases (imin i) (imin i) A A) as [[F Ez]|(Ov & _)].
    2:{ exfalso. replace (R_ (imin i) - R_ (imin i)) with 0 in Ov by ring. rewrite RN_0, Rabs_R0 in Ov. lra. }
    replace (R_ (imin i) - R_ (imin i)) with 0 in Ez by ring. rewrite RN_0 in Ez.
    destruct (fabs_fin _ F) as (Fa & Ea). apply flt_fin; auto. rewrite Ea, Ez, Rabs_R0.
    apply Rabs_le_inv in TC. unfold u53, c100 in TC. lra.
  - (* |v - min| = min - v <= step < 3*step <= ptol *)
    apply Rabs_le_inv in mg_min0. apply Rabs_le_inv in mg_vb0. fold s in mg_min0, mg_vb0.
    assert (Bd: Rabs (RN (R_ (imin i) - R_ v)) <= 4 * (p50 + 1) * s).
    { eapply Rle_trans. apply RN_abs_le with (s := s); auto.
      assert (Rabs (R_ (imin i) - R_ v) <= 2 * (p50 + 1) * s) by (apply Rabs_le; unfold p50 in *; lra).
      unfold u53, c100, p50 in *. lra. }
    destruct (fsub_cases (imin i) v A mg_v0) as [[Fd Ed]|(Ov & _)].
    2:{ exfalso. unfold p50 in Bd. lra. }
    destruct (fsub_cases v (imin i) mg_v0 A) as [[Fe Ee]|(Ov & _)].
    2:{ exfalso. replace (R_ v - R_ (imin i)) with (- (R_ (imin i) - R_ v)) in Ov by ring.
        rewrite RN_opp, Rabs_Ropp in Ov. unfold p50 in Bd. lra. }
    replace (R_ v - R_ (imin i)) with (- (R_ (imin i) - R_ v)) in Ee by ring. rewrite RN_opp in Ee.
    assert (P0: 0 <= RN (R_ (imin i) - R_ v)). { rewrite <- RN_0. apply RN_le. lra. }
    destruct (fabs_fin _ Fe) as (Fa & Ea). rewrite Ee, Rabs_Ropp, Rabs_pos_eq in Ea by auto.
    apply fle_fin in Tq; auto. rewrite Ed in Tq. fold s in Tq.
    (* 3 * step *)
    destruct R_of_bits_three as (R3 & F3). destruct c_1em5_facts as (F5 & N5).
    unfold ctx_ptol, ctx_abs_tol_factor_bits, ctx_rel_tol_factor_bits.
    assert (B3: Rabs (RN (3 * s) - 3 * s) <= u53 * (3 * s) + c100 * s).
    { destruct (RN_err (3 * s)) as (e & He & Hr). assert (T := eta_small e s He mg_s3).
      rewrite (Rabs_pos_eq (3 * s)) in Hr by lra. lra. }
    apply Rabs_le_inv in B3.
    destruct (fmul_cases _ (istep i) F3 C) as [[Fm Em]|(Ov & _)].
    2:{ exfalso. rewrite R3 in Ov. fold s in Ov. assert (Rabs (RN (3 * s)) <= 4 * s) by (apply Rabs_le; unfold u53, c100 in *; lra). lra. }
    rewrite R3 in Em. fold s in Em.
    apply flt_fmaxr; auto.
    + apply fmul_nnan; auto. apply fin_nnan. apply (fabs_fin _ A).
    + rewrite Ea, Em. unfold u53, c100 in *. lra. Qed.

Lemma unchanged_ok_max : forall i v, wf i ->
  no_widen i i /\ imin i = imin i /\ fin (imax i) /\ (false = true <-> i <> i) /\ loss_max i v i.
Proof. intros i v (A & B & C & D & E). unfold no_widen, loss_max. repeat split; auto using fle_refl_fin; try congruence; try lra. Qed.

Theorem tsmax_ff_magn : forall i v i' ev, magn_b i v = true -> tsmax_ff i v = Some (i', ev) ->
  no_widen i i' /\ imin i' = imin i /\ fin (imax i') /\ (ev = true <-> i' <> i) /\ loss_max i v i'.
Proof. intros i v i' ev Mb H. assert (M := magn_b_MagnR i v Mb). assert (M' := M). destruct M'.
  assert (W := mg_wf0). destruct W as (A & B & C & D & E). unfold tsmax_ff in H.
  destruct (_ && _) eqn:Early in H. { inversion H; subst. now apply unchanged_ok_max. }
  destruct (flt v (imin i)) eqn:T0.
  { apply flt_fin in T0; auto.
    destruct (fle _ _) eqn:Tq in H.
    - inversion H; subst; clear H.
      assert (Hne: mkfi (imin i) (imin i) (istep i) <> i).
      { intros Heq. apply (f_equal imax) in Heq; simpl in Heq.
        rewrite (early_fires i v M (eq_sym Heq) T0 Tq) in Early. discriminate. }
      unfold no_widen, loss_max; simpl.
      repeat split; auto using fle_refl_fin. now apply fle_fin.
      right. unfold m50. generalize (Rabs_pos (R_ v)). assert (0 < R_ (istep i)) by auto. lra.
    - destruct (fgt _ _) in H; inversion H; subst. now apply unchanged_ok_max. }
  apply flt_fin_f in T0; auto.
  destruct (flt v (fsub (imax i) (ctx_tol i))) eqn:T2.
  2:{ inversion H; subst. now apply unchanged_ok_max. }
  assert (Lv := below_max_tol_strong i v M T2).
  destruct (quant_float mode_DN v (istep i) (or_intror eq_refl) mg_v0 C mg_s3 mg_s4 mg_vb0) as (Fn & _ & Up & Lb).
  specialize (Up eq_refl). change (Binary.Bnearbyint 53 1024 Hpe unop_nan_pl64 mode_DN) with ffloor in *.
  set (nm0 := fmul (ffloor (fdiv v (istep i))) (istep i)) in *.
  assert (S0: 0 < R_ (istep i)) by auto.
  destruct (flt nm0 (imin i)) eqn:T3.
  - destruct (flt (imin i) _) in H; inversion H; subst; clear H.
    assert (Hne: mkfi (imin i) (imin i) (istep i) <> i).
    { intros Heq. apply (f_equal imax) in Heq; simpl in Heq. rewrite <- Heq in Lv. lra. }
    apply flt_fin in T3; auto.
    unfold no_widen, loss_max; simpl. repeat split; auto using fle_refl_fin.
    apply fle_fin; auto; lra. right. lra.
  - destruct (flt nm0 _) in H; inversion H; subst; clear H.
    assert (Hne: mkfi (imin i) nm0 (istep i) <> i).
    { intros Heq. apply (f_equal imax) in Heq; simpl in Heq. rewrite <- Heq in Lv. lra. }
    unfold no_widen, loss_max; simpl. repeat split; auto using fle_refl_fin.
    apply fle_fin; auto; lra. right. lra. Qed.

(* ================================================================ next / prev *)

(* upper/lower guard: whatever next_float/prev_float return, a non-NaN result is within the guard *)
Lemma fi_next_le_max : forall i v, wf i -> nnan (fi_next i v) -> fle (fi_next i v) (imax i) = true.
Proof. intros i v (A & B & C & D & E) N. unfold fi_next in *.
  destruct (flt (istep i) (ulp_of v)).
  - destruct (fgt (next_float v) (imax i)) eqn:T; auto using fle_refl_fin, not_fgt_fle.
  - destruct (fgt (fadd v (istep i)) (imax i)) eqn:T; auto using fle_refl_fin, not_fgt_fle. Qed.
Lemma fi_prev_ge_min : forall i v, wf i -> nnan (fi_prev i v) -> fle (imin i) (fi_prev i v) = true.
Proof. intros i v (A & B & C & D & E) N. unfold fi_prev in *.
  destruct (flt (istep i) (ulp_of v)).
  - destruct (flt (prev_float v) (imin i)) eqn:T; auto using fle_refl_fin, not_flt_fge.
  - destruct (flt (fsub v (istep i)) (imin i)) eqn:T; auto using fle_refl_fin, not_flt_fge. Qed.

(* the step branch (step >= ulp(v)): finite, inside and monotone *)
Lemma fi_next_step_branch : forall i v, wf i -> fin v -> fle (imin i) v = true -> fle v (imax i) = true ->
  flt (istep i) (ulp_of v) = false ->
  inside i (fi_next i v) /\ fle v (fi_next i v) = true.
Proof. intros i v (A & B & C & D & E) Fv L1 L2 U. unfold fi_next. rewrite U.
  apply fle_fin in L1; auto. apply fle_fin in L2; auto.
  destruct (fadd_nonneg_ge v (istep i) Fv C) as [[F L]|Ei]. lra.
  - destruct (fgt (fadd v (istep i)) (imax i)) eqn:T.
    + unfold inside. repeat split; auto using fle_refl_fin; apply fle_fin; auto; lra.
    + apply fgt_fin_f in T; auto. unfold inside. repeat split; auto; apply fle_fin; auto; lra.
  - rewrite Ei. unfold fgt. rewrite fcmp_pinf_fin; auto.
    unfold inside. repeat split; auto using fle_refl_fin; apply fle_fin; auto; lra. Qed.
Lemma fi_prev_step_branch : forall i v, wf i -> fin v -> fle (imin i) v = true -> fle v (imax i) = true ->
  flt (istep i) (ulp_of v) = false ->
  inside i (fi_prev i v) /\ fle (fi_prev i v) v = true.
Proof. intros i v (A & B & C & D & E) Fv L1 L2 U. unfold fi_prev. rewrite U.
  apply fle_fin in L1; auto. apply fle_fin in L2; auto.
  destruct (fsub_nonneg_le v (istep i) Fv C) as [[F L]|Ei]. lra.
  - destruct (flt (fsub v (istep i)) (imin i)) eqn:T.
    + unfold inside. repeat split; auto using fle_refl_fin; apply fle_fin; auto; lra.
    + apply flt_fin_f in T; auto. unfold inside. repeat split; auto; apply fle_fin; auto; lra.
  - rewrite Ei. unfold flt. rewrite fcmp_ninf_fin; auto.
    unfold inside. repeat split; auto using fle_refl_fin; apply fle_fin; auto; lra. Qed.

(* full statement: both branches (the ulp branch through Proofs/UlpBits.v) *)
Notation negzero := (Binary.B754_zero 53 1024 true).
Theorem fi_next_full : forall i v, wf i -> fin v -> fle (imin i) v = true -> fle v (imax i) = true ->
  inside i (fi_next i v) /\ fle v (fi_next i v) = true.
Proof. intros i v W Fv L1 L2. destruct (flt (istep i) (ulp_of v)) eqn:U.
  2:{ now apply fi_next_step_branch. }
  destruct W as (A & B & C & D & E). unfold fi_next. rewrite U.
  destruct (next_float_props v Fv) as (Nn & Ln & _).
  assert (L1' := proj1 (fle_fin _ _ A Fv) L1). assert (L2' := proj1 (fle_fin _ _ Fv B) L2).
  destruct (fgt (next_float v) (imax i)) eqn:T.
  - unfold inside. repeat split; auto using fle_refl_fin. apply fle_fin; auto.
  - destruct (nnan_cases _ Nn) as [Fn|[En|En]].
    + apply fgt_fin_f in T; auto. apply fle_fin in Ln; auto.
      unfold inside. repeat split; auto; apply fle_fin; auto; lra.
    + rewrite En in T. unfold fgt in T. rewrite fcmp_pinf_fin in T; auto. discriminate.
    + rewrite En in Ln. unfold fle in Ln. rewrite fcmp_fin_ninf in Ln; auto. discriminate. Qed.

Theorem fi_prev_full : forall i v, wf i -> fin v -> fle (imin i) v = true -> fle v (imax i) = true ->
  inside i (fi_prev i v) /\ fle (fi_prev i v) v = true.
Proof. intros i v W Fv L1 L2. destruct (flt (istep i) (ulp_of v)) eqn:U.
  2:{ now apply fi_prev_step_branch. }
  destruct W as (A & B & C & D & E). unfold fi_prev. rewrite U.
  destruct (prev_float_props v Fv) as (Nn & Ln & _).
  assert (L1' := proj1 (fle_fin _ _ A Fv) L1). assert (L2' := proj1 (fle_fin _ _ Fv B) L2).
  destruct (flt (prev_float v) (imin i)) eqn:T.
  - unfold inside. repeat split; auto using fle_refl_fin. apply fle_fin; auto.
  - destruct (nnan_cases _ Nn) as [Fn|[En|En]].
    + apply flt_fin_f in T; auto. apply fle_fin in Ln; auto.
      unfold inside. repeat split; auto; apply fle_fin; auto; lra.
    + rewrite En in Ln. unfold fle in Ln. rewrite fcmp_pinf_fin in Ln; auto. discriminate.
    + rewrite En in T. unfold flt in T. rewrite fcmp_ninf_fin in T; auto. discriminate. Qed.

(* ================================================================ (VarI, ValF): ceil/floor then `as i32` *)
Lemma ceil_as_i32_fin : forall v, fin v -> ceil_as_i32 v = Z.max i32_lo (Z.min i32_hi (Zceil (R_ v))).
Proof. intros v F. unfold ceil_as_i32, fceil.
  destruct (Binary.Bnearbyint_correct 53 1024 Hpe unop_nan_pl64 mode_UP v) as (E & Fk & _).
  rewrite round_FIX_IZR in E. apply to_i32_of_int; auto. unfold fin. now rewrite Fk. Qed.
Lemma floor_as_i32_fin : forall v, fin v -> floor_as_i32 v = Z.max i32_lo (Z.min i32_hi (Zfloor (R_ v))).
Proof. intros v F. unfold floor_as_i32, ffloor.
  destruct (Binary.Bnearbyint_correct 53 1024 Hpe unop_nan_pl64 mode_DN v) as (E & Fk & _).
  rewrite round_FIX_IZR in E. apply to_i32_of_int; auto. unfold fin. now rewrite Fk. Qed.
Lemma ceil_floor_as_i32_special :
  (forall v, fis_nan v = true -> ceil_as_i32 v = 0%Z /\ floor_as_i32 v = 0%Z) /\
  ceil_as_i32 pinf = i32_hi /\ floor_as_i32 pinf = i32_hi /\ ceil_as_i32 ninf = i32_lo /\ floor_as_i32 ninf = i32_lo.
Proof. split. intros [ | | | ] H; try discriminate H. split; reflexivity. repeat split; reflexivity. Qed.

(* ================================================================ sequences of float tightenings *)
(* Magn (w.r.t. the bound v') is preserved by a successful float tightening: the new bounds stay
   between the old ones.  Hence the one-step theorems apply along any sequence of try_set_min /
   try_set_max calls with float bounds. *)
Lemma magn_preserved : forall i i' v', magn_b i v' = true -> wf i' ->
  istep i' = istep i -> R_ (imin i) <= R_ (imin i') -> R_ (imax i') <= R_ (imax i) -> magn_b i' v' = true.
Proof. intros i i' v' Mb W' Es L1 L2. assert (W'' := W'). destruct W'' as (A' & B' & C' & D' & E').
  unfold magn_b in *. rewrite Es. repeat rewrite andb_true_iff in Mb.
  destruct Mb as (((((((F1 & F2) & F3) & F4) & L) & S1) & S2) & ((B1 & B2) & B3)).
  set (b := fmul c_2p50 (istep i)) in *.
  assert (Fb: fin b).
  { assert (Mb': magn_b i v' = true) by (unfold magn_b; fold b; rewrite F1, F2, F3, F4, L, S1, S2, B1, B2, B3; reflexivity).
    exact (mg_bfin _ _ (magn_b_MagnR _ _ Mb')). }
  destruct (fabs_fin _ F1) as (G1 & E1). destruct (fabs_fin _ F2) as (G2 & E2).
  destruct (fabs_fin _ A') as (G1' & E1'). destruct (fabs_fin _ B') as (G2' & E2').
  apply fle_fin in B1; auto. apply fle_fin in B2; auto. rewrite E1 in B1. rewrite E2 in B2.
  apply fle_fin in L; auto.
  apply Rabs_le_inv in B1. apply Rabs_le_inv in B2.
  repeat rewrite andb_true_iff. repeat split; auto.
  - apply fle_fin; auto.
  - apply fle_fin; auto. rewrite E1'. apply Rabs_le. lra.
  - apply fle_fin; auto. rewrite E2'. apply Rabs_le. lra. Qed.

Definition fop_is_float (o : fop) : bool := match o with OMinF _ => true | OMaxF _ => true | _ => false end.

Lemma no_widen_trans : forall a b c, wf a -> wf b -> wf c -> no_widen a b -> no_widen b c -> no_widen a c.
Proof. intros a b c (A1 & A2 & _) (B1 & B2 & _) (C1 & C2 & _) (S1 & L1 & L2) (S2 & L3 & L4).
  apply fle_fin in L1; auto. apply fle_fin in L2; auto. apply fle_fin in L3; auto. apply fle_fin in L4; auto.
  unfold no_widen. repeat split. congruence. apply fle_fin; auto; lra. apply fle_fin; auto; lra. Qed.

(* one float tightening under Magn: the successor interval is well-formed again and Magn carries over *)
Lemma float_step_ok : forall i o i1 e, wf i -> fop_is_float o = true -> magn_op_b i o = true ->
  fop_apply i o = Some (i1, e) ->
  wf i1 /\ no_widen i i1 /\ (e = false -> i1 = i) /\ (forall o', magn_op_b i o' = true -> magn_op_b i1 o' = true).
Proof. intros i o i1 e W Hf Hm Ha. assert (W' := W). destruct W' as (A & B & C & D & E).
  assert (M := magn_b_MagnR _ _ Hm). destruct M.
  destruct o as [v|v|c|c]; try discriminate Hf; simpl in Ha, Hm; unfold magn_op_b in Hm; simpl in Hm.
  - destruct (tsmin_ff_magn i v i1 e Hm Ha) as ((S & L1 & L2) & Emx & Fmn & Ev & _).
    destruct (tsmin_ff_order i v i1 e W mg_v0 Ha) as (_ & _ & _ & Lmm & Eq).
    assert (W1: wf i1).
    { unfold wf. rewrite S, Emx. repeat split; auto. apply fle_fin in Lmm; auto. now rewrite Emx in Lmm. now rewrite Emx. }
    split; [exact W1|]. split; [unfold no_widen; auto|]. split; [exact Eq|].
    intros o' Ho'. unfold magn_op_b in *. apply magn_preserved with i; auto.
    apply fle_fin in L1; auto. rewrite Emx; lra.
  - destruct (tsmax_ff_magn i v i1 e Hm Ha) as ((S & L1 & L2) & Emn & Fmx & Ev & _).
    destruct (tsmax_ff_order i v i1 e W mg_v0 Ha) as (_ & _ & _ & Lmm & Eq).
    assert (W1: wf i1).
    { unfold wf. rewrite S, Emn. repeat split; auto. apply fle_fin in Lmm; auto. now rewrite Emn in Lmm. now rewrite Emn. }
    split; [exact W1|]. split; [unfold no_widen; auto|]. split; [exact Eq|].
    intros o' Ho'. unfold magn_op_b in *. apply magn_preserved with i; auto.
    rewrite Emn; lra. apply fle_fin in L2; auto. Qed.

(* every sequence of float tightenings whose bounds satisfy Magn w.r.t. the INITIAL interval *)
Theorem tsm_f_seq : forall l i i' evs, wf i ->
  forallb (fun o => fop_is_float o && magn_op_b i o) l = true ->
  fop_run i l = Some (i', evs) ->
  wf i' /\ no_widen i i' /\ length evs = length l /\ (existsb (fun e => e) evs = false -> i' = i).
Proof. induction l as [|o l IH]; intros i i' evs W Hall Hrun.
  - simpl in Hrun. inversion Hrun; subst. destruct W as (A & B & C & D & E).
    unfold no_widen, wf. repeat split; auto using fle_refl_fin.
  - simpl in Hall. apply andb_true_iff in Hall. destruct Hall as (Ho & Hall).
    apply andb_true_iff in Ho. destruct Ho as (Hf & Hm).
    simpl in Hrun. destruct (fop_apply i o) as [[i1 e]|] eqn:Ea; [|discriminate].
    destruct (fop_run i1 l) as [[i2 es]|] eqn:Er; [|discriminate]. inversion Hrun; subst; clear Hrun.
    destruct (float_step_ok i o i1 e W Hf Hm Ea) as (W1 & N1 & Eq1 & Pres).
    assert (Hall1: forallb (fun o0 => fop_is_float o0 && magn_op_b i1 o0) l = true).
    { apply forallb_forall. intros x Hx. rewrite forallb_forall in Hall. specialize (Hall x Hx).
      apply andb_true_iff in Hall. destruct Hall as (H1 & H2). apply andb_true_iff. split; auto. }
    destruct (IH i1 i' es W1 Hall1 Er) as (W2 & N2 & Len & Eq2).
    split; [exact W2|]. split; [exact (no_widen_trans i i1 i' W W1 W2 N1 N2)|]. split; [simpl; now rewrite Len|].
    simpl. intros Hex. apply orb_false_iff in Hex. destruct Hex as (He & Hes). subst e.
    rewrite (Eq2 Hes). now apply Eq1. Qed.

(* ================================================================ refutations (closed witnesses, vm_compute) *)
(* Witnesses are checked through bit-level observations (Z and bool only): vm_compute on a goal
   that contains Flocq floats would also normalise the proof terms stored inside them. *)
Definition obs (r : option (fint * bool)) : option (Z * Z * Z * bool * bool) :=
  match r with
  | Some (j, e) => Some (to_bits (imin j), to_bits (imax j), to_bits (istep j), e, fgt (imin j) (imax j))
  | None => None
  end.
Lemma obs_some : forall r a b c e g, obs r = Some (a, b, c, e, g) ->
  exists j, r = Some (j, e) /\ to_bits (imin j) = a /\ to_bits (imax j) = b /\ to_bits (istep j) = c /\ fgt (imin j) (imax j) = g.
Proof. intros [[j e']|] a b c e g H; simpl in H; inversion H; subst. eexists; repeat split. Qed.

(* F1: finite interval, finite bound, positive step, v/step overflows: try_set_min WIDENS min to -inf
   (try_set_max widens max to +inf).  [-1e301, 0] step 1e-12, v = -1e300 (and mirrored) *)
Definition w1_i := mkfi (of_bits 0xfe6ddd4baa009303) (of_bits 0x0000000000000000) (of_bits 0x3d719799812dea11).
Definition w1_v := of_bits 0xfe37e43c8800759c.
Lemma w1_ok : wf_b w1_i = true /\ fis_finite w1_v = true /\
  obs (tsmin_ff w1_i w1_v) = Some (0xfff0000000000000, 0x0000000000000000, 0x3d719799812dea11, true, false)%Z.
Proof. vm_compute. repeat split. Qed.
Definition w2_i := mkfi (of_bits 0x0000000000000000) (of_bits 0x7e6ddd4baa009303) (of_bits 0x3d719799812dea11).
Definition w2_v := of_bits 0x7e37e43c8800759c.
Lemma w2_ok : wf_b w2_i = true /\ fis_finite w2_v = true /\
  obs (tsmax_ff w2_i w2_v) = Some (0x0000000000000000, 0x7ff0000000000000, 0x3d719799812dea11, true, false)%Z.
Proof. vm_compute. repeat split. Qed.

(* F2: event reported although nothing changed (|v| ~ 2^56 * step), step 0.1 *)
Definition w3_i := mkfi (of_bits 0xc31db5b5a598d77a) (of_bits 0xc31db5b5a598d778) (of_bits 0x3fb999999999999a).
Definition w3_v := of_bits 0xc31db5b5a598d779.
Lemma w3_ok : wf_b w3_i = true /\ fis_finite w3_v = true /\
  obs (tsmax_ff w3_i w3_v) = Some (0xc31db5b5a598d77a, 0xc31db5b5a598d778, 0x3fb999999999999a, true, false)%Z.
Proof. vm_compute. repeat split. Qed.

(* F3: one call removes values far more than one step above v (subnormal step: v/step = inf,
   inf*step = inf, clamped to max): [-1.6e-7, 0.0574] step 5e-324, v = 0.0415 -> min := max *)
Definition w4_i := mkfi (of_bits 0xbe65dda9797d8695) (of_bits 0x3fad63e50e8c706e) (of_bits 0x0000000000000001).
Definition w4_v := of_bits 0x3fa5464e980bd0b5.
Lemma w4_ok : wf_b w4_i = true /\ fis_finite w4_v = true /\
  obs (tsmin_ff w4_i w4_v) = Some (0x3fad63e50e8c706e, 0x3fad63e50e8c706e, 0x0000000000000001, true, false)%Z /\
  flt (fadd w4_v (fmul (of_bits 0x4059000000000000) (istep w4_i))) (imax w4_i) = true.   (* v + 100*step < new min *)
Proof. vm_compute. repeat split. Qed.

(* F4: int bound on a float variable, inside Magn: success with an INVERTED interval (min > max):
   x in [0, 0.9999] step 1e-3, try_set_min(x, 1) -> [1.0, 0.9999] *)
Definition w5_i := mkfi (of_bits 0x0000000000000000) (of_bits 0x3fefff2e48e8a71e) (of_bits 0x3f50624dd2f1a9fc).
Lemma w5_ok : wf_b w5_i = true /\ magn_b w5_i (f64_of_Z 1) = true /\
  obs (tsmin_fi w5_i 1) = Some (0x3ff0000000000000, 0x3fefff2e48e8a71e, 0x3f50624dd2f1a9fc, true, true)%Z.
Proof. vm_compute. repeat split. Qed.

(* F5 (repaired in /repo aed2bd1): next(-0.0) with step < f64::EPSILON goes through next_float(-0.0), which was
   from_bits(0x8000000000000000 + 1) = -5e-324 (below the argument and below min = 0.0) and is now 5e-324.  [0,1] step 1e-17 *)
Definition w6_i := mkfi (of_bits 0x0000000000000000) (of_bits 0x3ff0000000000000) (of_bits 0x3c670ef54646d497).
Definition w6_v := of_bits 0x8000000000000000.
Lemma w6_ok : wf_b w6_i = true /\ fle (imin w6_i) w6_v = true /\ fle w6_v (imax w6_i) = true /\
  to_bits w6_v = 0x8000000000000000%Z /\ flt (istep w6_i) (ulp_of w6_v) = true /\
  to_bits (fi_next w6_i w6_v) = 1%Z /\
  flt w6_v (fi_next w6_i w6_v) = true /\ fle (imin w6_i) (fi_next w6_i w6_v) = true.
Proof. vm_compute. repeat split. Qed.

(* ================================================================ non-vacuity *)
Definition ex_iv : fint := mkfi (of_bits 0xc004000000000000) (of_bits 0x4025000000000000) (of_bits 0x3eb0c6f7a0b5ed8d). (* [-2.5, 10.5] step 1e-6 *)
Definition ex_v : f64 := of_bits 0x400921fb54442d18. (* 3.141592653589793 *)
Lemma ex_ok : wf_b ex_iv = true /\ magn_b ex_iv ex_v = true /\
  obs (tsmin_ff ex_iv ex_v) = Some (0x400921fb82c2bd7f, 0x4025000000000000, 0x3eb0c6f7a0b5ed8d, true, false)%Z /\
  obs (tsmax_ff ex_iv ex_v) = Some (0xc004000000000000, 0x400921fafc8b0079, 0x3eb0c6f7a0b5ed8d, true, false)%Z.
Proof. vm_compute. repeat split. Qed.
