(* Proofs about the float / mixed solving path (Model/FloatStore.v, FloatProps.v, FloatSearch.v).
   Part 1 (no float reasoning at all): integer variables of a mixed store only ever lose values -- every setter,
   every view, every propagator of FloatProps.v, propagation and the bisection search preserve `store_ile`;
   hence an integer variable's reported value is a member of its declared domain (mixed_ints_exact).
   Part 2 (on top of C12F): float bounds never widen under the magnitude hypothesis; a witness with margin survives
   one tightening; exact-real reading of an unchanged try_set_max.
   Part 3: closed refutation witnesses (vm_compute on bit patterns). *)
From Coq Require Import ZArith Bool List Lia Reals Lra.
Import ListNotations.
From Flocq Require Import Core.Core IEEE754.BinarySingleNaN IEEE754.Binary IEEE754.Bits.
Require Import Selen.Generated.Consts Selen.Model.Prelude Selen.Model.Dom Selen.Model.Propagate.
Require Import Selen.Model.B64 Selen.Model.FloatInterval Selen.Model.CtxFloat Selen.Model.FloatStore Selen.Model.FloatProps Selen.Model.FloatSearch.
Require Import Selen.Proofs.B64Facts Selen.Proofs.FloatIntervalProofs.
Open Scope Z_scope.

(* ================================================================ Part 1: integer variables are exact *)

Definition var_ile (x' x : fvar) : Prop :=
  match x', x with
  | VI d', VI d => incl d' d
  | VF _, VF _ => True
  | _, _ => False
  end.
Definition store_ile (s' s : fstore) : Prop := length s' = length s /\ forall v, var_ile (fget s' v) (fget s v).

Lemma var_ile_refl : forall x, var_ile x x.
Proof. destruct x; simpl; auto using incl_refl. Qed.
Lemma var_ile_trans : forall a b c, var_ile a b -> var_ile b c -> var_ile a c.
Proof. destruct a, b, c; simpl; try tauto. apply incl_tran. Qed.
Lemma store_ile_refl : forall s, store_ile s s.
Proof. split; auto using var_ile_refl. Qed.
Lemma store_ile_trans : forall a b c, store_ile a b -> store_ile b c -> store_ile a c.
Proof. intros a b c [L1 H1] [L2 H2]. split. congruence. intro v. eapply var_ile_trans; eauto. Qed.

Lemma fupd_length : forall s v x, length (fupd s v x) = length s.
Proof. induction s; destruct v; simpl; auto. Qed.
Lemma fget_fupd_same : forall s v x, (v < length s)%nat -> fget (fupd s v x) v = x.
Proof. unfold fget. induction s; destruct v; simpl; intros; try lia; auto. apply IHs. lia. Qed.
Lemma fget_fupd_other : forall s v w x, v <> w -> fget (fupd s v x) w = fget s w.
Proof. unfold fget. induction s; destruct v, w; simpl; intros; auto; try congruence. Qed.
Lemma fget_oob : forall s v, (length s <= v)%nat -> fget s v = VI [].
Proof. unfold fget. intros. apply nth_overflow. auto. Qed.

Lemma dset_min_incl : forall d b d' e, dset_min d b = Some (d', e) -> incl d' d.
Proof. unfold dset_min. intros d b d' e. destruct (dempty d); [discriminate|].
  destruct (dmax d <? b); [discriminate|]. destruct (dmin d <? b).
  - destruct (dempty (dbelow b d)); [discriminate|]. intro H; inversion H; subst. unfold dbelow. intros x Hx. apply filter_In in Hx. tauto.
  - intro H; inversion H; subst. apply incl_refl. Qed.
Lemma dset_max_incl : forall d b d' e, dset_max d b = Some (d', e) -> incl d' d.
Proof. unfold dset_max. intros d b d' e. destruct (dempty d); [discriminate|].
  destruct (b <? dmin d); [discriminate|]. destruct (b <? dmax d).
  - destruct (dempty (dabove b d)); [discriminate|]. intro H; inversion H; subst. unfold dabove. intros x Hx. apply filter_In in Hx. tauto.
  - intro H; inversion H; subst. apply incl_refl. Qed.

Lemma var_set_min_ile : forall x b x' e, var_set_min x b = Some (x', e) -> var_ile x' x.
Proof. intros x b x' e. destruct x, b; simpl.
  - destruct (dset_min d z) as [[d' e']|] eqn:E; [|discriminate]. intro H; inversion H; subst. simpl. eapply dset_min_incl; eauto.
  - destruct (dset_min d (ceil_as_i32 x)) as [[d' e']|] eqn:E; [|discriminate]. intro H; inversion H; subst. simpl. eapply dset_min_incl; eauto.
  - destruct (tsmin_fi i z) as [[i' e']|]; [|discriminate]. intro H; inversion H; subst. simpl; auto.
  - destruct (tsmin_ff i x) as [[i' e']|]; [|discriminate]. intro H; inversion H; subst. simpl; auto. Qed.
Lemma var_set_max_ile : forall x b x' e, var_set_max x b = Some (x', e) -> var_ile x' x.
Proof. intros x b x' e. destruct x, b; simpl.
  - destruct (dset_max d z) as [[d' e']|] eqn:E; [|discriminate]. intro H; inversion H; subst. simpl. eapply dset_max_incl; eauto.
  - destruct (dset_max d (floor_as_i32 x)) as [[d' e']|] eqn:E; [|discriminate]. intro H; inversion H; subst. simpl. eapply dset_max_incl; eauto.
  - destruct (tsmax_fi i z) as [[i' e']|]; [|discriminate]. intro H; inversion H; subst. simpl; auto.
  - destruct (tsmax_ff i x) as [[i' e']|]; [|discriminate]. intro H; inversion H; subst. simpl; auto. Qed.

Lemma fupd_ile : forall s v x, var_ile x (fget s v) -> store_ile (fupd s v x) s.
Proof. intros s v x H. split. apply fupd_length. intro w.
  destruct (Nat.eq_dec v w) as [->|N].
  - destruct (Nat.lt_ge_cases w (length s)).
    + rewrite fget_fupd_same; auto.
    + assert (fupd s w x = s) as ->. { clear H. revert w H0. induction s; destruct w; simpl; intros; auto; try lia. f_equal. apply IHs. lia. }
      apply var_ile_refl.
  - rewrite fget_fupd_other; auto. apply var_ile_refl. Qed.

(* a context transformer that only ever shrinks integer domains *)
Definition isafe (f : fctx -> option fctx) : Prop := forall c c', f c = Some c' -> store_ile (fst c') (fst c).
Lemma isafe_id : isafe (fun c => Some c).
Proof. intros c c' H; inversion H; apply store_ile_refl. Qed.
Lemma isafe_bind : forall f g, isafe f -> isafe g -> isafe (fun c => match f c with None => None | Some c1 => g c1 end).
Proof. intros f g Hf Hg c c'. destruct (f c) as [c1|] eqn:E; [|discriminate]. intro H.
  eapply store_ile_trans. apply Hg; eauto. apply Hf; auto. Qed.

Lemma xset_min_isafe : forall v b, isafe (xset_min v b).
Proof. intros v b c c'. unfold xset_min. destruct (var_set_min (fget (fst c) v) b) as [[x' e]|] eqn:E; [|discriminate].
  intro H; inversion H; subst; simpl. apply fupd_ile. eapply var_set_min_ile; eauto. Qed.
Lemma xset_max_isafe : forall v b, isafe (xset_max v b).
Proof. intros v b c c'. unfold xset_max. destruct (var_set_max (fget (fst c) v) b) as [[x' e]|] eqn:E; [|discriminate].
  intro H; inversion H; subst; simpl. apply fupd_ile. eapply var_set_max_ile; eauto. Qed.

Lemma fv_set_isafe : forall w, (forall b, isafe (fv_set_min w b)) /\ (forall b, isafe (fv_set_max w b)).
Proof. induction w as [v|k|u [IH1 IH2]|u [IH1 IH2]|u [IH1 IH2]]; simpl; split; intro b.
  - apply xset_min_isafe. - apply xset_max_isafe.
  - intros c c'. destruct (val_le b k); [|discriminate]. intro H; inversion H; apply store_ile_refl.
  - intros c c'. destruct (val_ge b k); [|discriminate]. intro H; inversion H; apply store_ile_refl.
  - apply IH2. - apply IH1.
  - intros c c' H. eapply IH1; eauto. - intros c c' H. eapply IH2; eauto.
  - intros c c' H. eapply IH1; eauto. - intros c c' H. eapply IH2; eauto. Qed.

Lemma flin_loop_isafe : forall step, (forall i coeff v, isafe (step i coeff v)) ->
  forall cs vs i, isafe (flin_loop step cs vs i).
Proof. intros step Hs. induction cs as [|c cs IH]; intros vs i; simpl. apply isafe_id.
  destruct vs as [|v vs]. apply isafe_id.
  intros c0 c'. destruct (step i c v c0) as [c1|] eqn:E; [|discriminate]. intro H.
  eapply store_ile_trans. eapply IH; eauto. eapply Hs; eauto. Qed.

Ltac isafe_cases :=
  repeat match goal with
  | |- isafe (fun c => Some c) => apply isafe_id
  | |- store_ile (fst ?c) (fst ?c) => apply store_ile_refl
  | H : Some _ = Some _ |- _ => inversion H; subst; clear H
  | H : None = Some _ |- _ => discriminate H
  | H : (if ?b then _ else _) = Some _ |- _ => destruct b
  | H : (let '(_, _) := ?p in _) = Some _ |- _ => destruct p
  | H : match ?x with _ => _ end = Some _ |- _ => destruct x eqn:?
  | H : xset_min _ _ _ = Some _ |- _ => apply xset_min_isafe in H
  | H : xset_max _ _ _ = Some _ |- _ => apply xset_max_isafe in H
  end.

Lemma flin_le_step_isafe : forall cs vs k i coeff v, isafe (flin_le_step cs vs k i coeff v).
Proof. intros cs vs k i coeff v c c' H. unfold flin_le_step in H. isafe_cases; auto. Qed.
Lemma flin_le_helper_step_isafe : forall cs vs k i coeff v, isafe (flin_le_helper_step cs vs k i coeff v).
Proof. intros cs vs k i coeff v c c' H. unfold flin_le_helper_step in H. isafe_cases; auto. Qed.
Lemma flin_eq_step_gen_isafe : forall w unb cs vs k i coeff v, isafe (flin_eq_step_gen w unb cs vs k i coeff v).
Proof. intros w unb cs vs k i coeff v c c' H. unfold flin_eq_step_gen in H.
  destruct (flt (fabs coeff) c_zero_coeff). { inversion H; apply store_ile_refl. }
  destruct (unb && others_unbounded vs (fst c) i 0). { inversion H; apply store_ile_refl. }
  repeat match type of H with (let '(_, _) := ?p in _) = _ => destruct p end.
  match type of H with (if ?b then _ else _) = _ => destruct b end. { inversion H; apply store_ile_refl. }
  match type of H with match ?x with _ => _ end = _ => destruct x as [c1|] eqn:E1 end; [|discriminate].
  eapply store_ile_trans. eapply xset_max_isafe; eauto. eapply xset_min_isafe; eauto. Qed.

Lemma flin_eq_step_isafe : forall unb cs vs k i coeff v, isafe (flin_eq_step unb cs vs k i coeff v).
Proof. intros. apply flin_eq_step_gen_isafe. Qed.

Lemma prune_flin_le_isafe : forall cs vs k, isafe (prune_flin_le cs vs k).
Proof. intros. apply flin_loop_isafe. intros; apply flin_le_step_isafe. Qed.
Lemma prune_flin_le_helper_isafe : forall cs vs k, isafe (prune_flin_le_helper cs vs k).
Proof. intros. apply flin_loop_isafe. intros; apply flin_le_helper_step_isafe. Qed.
Lemma prune_flin_eq_gen_isafe : forall unb cs vs k, isafe (prune_flin_eq_gen unb cs vs k).
Proof. intros. apply flin_loop_isafe. intros; apply flin_eq_step_isafe. Qed.
Lemma exclude_value_isafe : forall v f, isafe (exclude_value v f).
Proof. intros v f c c' H. unfold exclude_value in H. isafe_cases; auto. Qed.
Lemma prune_flin_ne_isafe : forall cs vs k, isafe (prune_flin_ne cs vs k).
Proof. intros cs vs k c c' H. unfold prune_flin_ne in H.
  destruct (assigned_sum cs vs (fst c) c_zero) as [sm|].
  { destruct (flt (fabs (fsub sm k)) c_ne_eq); [discriminate|]. inversion H; apply store_ile_refl. }
  unfold prune_flin_ne_prefix in H.
  destruct (ne_scan_loop cs vs (fst c) 0 None c_zero) as [|[idx|] fs].
  - inversion H; apply store_ile_refl.
  - destruct (flt (fabs (nth idx cs c_zero)) c_zero_coeff).
    + destruct (flt (fabs (fsub fs k)) c_ne_eq); [discriminate|]. inversion H; apply store_ile_refl.
    + eapply exclude_value_isafe; eauto.
  - destruct (flt (fabs (fsub fs k)) c_ne_eq); [discriminate|]. inversion H; apply store_ile_refl. Qed.
Lemma set_reif_isafe : forall b z, isafe (set_reif b z).
Proof. intros b z c c' H. unfold set_reif in H. destruct (xset_min b (VlI z) c) as [c1|] eqn:E; [|discriminate].
  eapply store_ile_trans. eapply xset_max_isafe; eauto. eapply xset_min_isafe; eauto. Qed.
Lemma prune_flin_eq_reif_isafe : forall cs vs k b, isafe (prune_flin_eq_reif cs vs k b).
Proof. intros cs vs k b c c' H. unfold prune_flin_eq_reif in H.
  destruct (reif_is (fst c) b 1). { eapply prune_flin_eq_gen_isafe; eauto. }
  destruct (reif_is (fst c) b 0).
  - destruct (fixed_sum_float cs vs (fst c) c_zero); [destruct (flt _ _); [discriminate|]|]; inversion H; apply store_ile_refl.
  - destruct (fixed_sum_float cs vs (fst c) c_zero); [destruct (flt _ _)|]; try solve [eapply set_reif_isafe; eauto]. inversion H; apply store_ile_refl. Qed.
Lemma prune_flin_le_reif_isafe : forall cs vs k b, isafe (prune_flin_le_reif cs vs k b).
Proof. intros cs vs k b c c' H. unfold prune_flin_le_reif in H.
  destruct (reif_is (fst c) b 1). { eapply prune_flin_le_helper_isafe; eauto. }
  destruct (reif_is (fst c) b 0).
  - destruct (fixed_sum_float cs vs (fst c) c_zero); [destruct (fle _ _); [discriminate|]|]; inversion H; apply store_ile_refl.
  - destruct (sum_bounds_float cs vs (fst c) c_zero c_zero) as [lo hi].
    destruct (fle hi k). { eapply set_reif_isafe; eauto. }
    destruct (fgt lo k). { eapply set_reif_isafe; eauto. } inversion H; apply store_ile_refl. Qed.
Lemma prune_flin_ne_reif_isafe : forall cs vs k b, isafe (prune_flin_ne_reif cs vs k b).
Proof. intros cs vs k b c c' H. unfold prune_flin_ne_reif in H.
  destruct (reif_is (fst c) b 1). { eapply prune_flin_ne_isafe; eauto. }
  destruct (reif_is (fst c) b 0). { eapply prune_flin_eq_gen_isafe; eauto. }
  destruct (fixed_sum_float cs vs (fst c) c_zero); [destruct (fge _ _)|]; try solve [eapply set_reif_isafe; eauto]. inversion H; apply store_ile_refl. Qed.
Lemma prune_fleq_plain_isafe : forall x y, isafe (prune_fleq_plain x y).
Proof. intros x y c c' H. unfold prune_fleq_plain in H.
  destruct (fv_set_max x (fv_max y (fst c)) c) as [c1|] eqn:E; [|discriminate].
  eapply store_ile_trans. eapply (proj1 (fv_set_isafe y)); eauto. eapply (proj2 (fv_set_isafe x)); eauto. Qed.
Lemma bound_above_isafe : forall x k, isafe (bound_above x k).
Proof. intros x k c c' H. unfold bound_above in H.
  destruct (fv_set_max x k c) as [c1|] eqn:E; [|discriminate]. apply (proj2 (fv_set_isafe x)) in E.
  destruct (val_lt k _). { apply (proj2 (fv_set_isafe x)) in H. eauto using store_ile_trans. } inversion H; subst; auto. Qed.
Lemma bound_below_isafe : forall x k, isafe (bound_below x k).
Proof. intros x k c c' H. unfold bound_below in H.
  destruct (fv_set_min x k c) as [c1|] eqn:E; [|discriminate]. apply (proj1 (fv_set_isafe x)) in E.
  destruct (val_gt k _). { apply (proj1 (fv_set_isafe x)) in H. eauto using store_ile_trans. } inversion H; subst; auto. Qed.
Lemma prune_fleq_isafe : forall x y, isafe (prune_fleq x y).
Proof. intros x y c c' H. unfold prune_fleq in H.
  destruct (fv_float_const y (fst c) && fv_float_var x (fst c)). { eapply bound_above_isafe; eauto. }
  destruct (fv_float_const x (fst c) && fv_float_var y (fst c)). { eapply bound_below_isafe; eauto. }
  eapply prune_fleq_plain_isafe; eauto. Qed.
Lemma prune_flt_isafe : forall x y, isafe (prune_flt x y).
Proof. intros x y c c' H. unfold prune_flt in H. destruct (int_below_float_var x y (fst c)). eapply prune_fleq_plain_isafe; eauto.
  destruct (int_below_float_const x y (fst c)).
  { destruct (fge _ _); [|discriminate]. eapply (proj2 (fv_set_isafe x)); eauto. }
  destruct (float_const_below_int x y (fst c)).
  { destruct (fle _ _); [|discriminate]. eapply (proj1 (fv_set_isafe y)); eauto. }
  eapply prune_fleq_plain_isafe; eauto. Qed.
Lemma prune_feq_plain_isafe : forall x y, isafe (prune_feq_plain x y).
Proof. intros x y c c' H. unfold prune_feq_plain in H.
  destruct (fv_set_min x _ c) as [c1|] eqn:E1; [|discriminate].
  destruct (fv_set_max x _ c1) as [c2|] eqn:E2; [|discriminate].
  destruct (fv_set_min y _ c2) as [c3|] eqn:E3; [|discriminate].
  apply (proj2 (fv_set_isafe y)) in H. apply (proj1 (fv_set_isafe y)) in E3.
  apply (proj2 (fv_set_isafe x)) in E2. apply (proj1 (fv_set_isafe x)) in E1.
  eauto using store_ile_trans. Qed.
Lemma prune_feq_isafe : forall x y, isafe (prune_feq x y).
Proof. intros x y c c' H. unfold prune_feq in H.
  destruct (fv_float_const y (fst c) && fv_float_var x (fst c)).
  { destruct (bound_below x _ c) as [c1|] eqn:E; [|discriminate].
    apply bound_below_isafe in E. apply bound_above_isafe in H. eauto using store_ile_trans. }
  destruct (fv_float_const x (fst c) && fv_float_var y (fst c)).
  { destruct (bound_below y _ c) as [c1|] eqn:E; [|discriminate].
    apply bound_below_isafe in E. apply bound_above_isafe in H. eauto using store_ile_trans. }
  eapply prune_feq_plain_isafe; eauto. Qed.
Lemma prune_ilin_le_mixed_isafe : forall cs vs k, isafe (prune_ilin_le_mixed cs vs k).
Proof. intros cs0 vs0 k. unfold prune_ilin_le_mixed. generalize 0%nat. generalize cs0 at 2. generalize vs0 at 2.
  intros vs cs. revert vs. induction cs as [|c cs IH]; intros vs i c0 c'; simpl. { intro H; inversion H; apply store_ile_refl. }
  destruct vs as [|v vs]. { intro H; inversion H; apply store_ile_refl. }
  unfold ilin_le_step. destruct (c =? 0). { apply IH. }
  destruct (ilin_min_other cs0 vs0 (fst c0) i 0 0). { intro H; inversion H; apply store_ile_refl. }
  destruct (0 <? c).
  - destruct (xset_max v _ c0) as [c1|] eqn:E; [|discriminate]. intro H. eapply store_ile_trans. eapply IH; eauto. eapply xset_max_isafe; eauto.
  - destruct (xset_min v _ c0) as [c1|] eqn:E; [|discriminate]. intro H. eapply store_ile_trans. eapply IH; eauto. eapply xset_min_isafe; eauto. Qed.

Lemma prune_fadd_isafe : forall x y s, isafe (prune_fadd x y s).
Proof. intros x y s c c' H. unfold prune_fadd in H.
  destruct (xset_min s _ c) as [c1|] eqn:E1; [|discriminate].
  destruct (xset_max s _ c1) as [c2|] eqn:E2; [|discriminate].
  destruct (fv_set_min x _ c2) as [c3|] eqn:E3; [|discriminate].
  destruct (fv_set_max x _ c3) as [c4|] eqn:E4; [|discriminate].
  destruct (fv_set_min y _ c4) as [c5|] eqn:E5; [|discriminate].
  apply (proj2 (fv_set_isafe y)) in H. apply (proj1 (fv_set_isafe y)) in E5.
  apply (proj2 (fv_set_isafe x)) in E4. apply (proj1 (fv_set_isafe x)) in E3.
  apply xset_max_isafe in E2. apply xset_min_isafe in E1.
  eauto 10 using store_ile_trans. Qed.

Lemma mul_back_isafe : forall w smin smax dmin dmax, isafe (mul_back w smin smax dmin dmax).
Proof. intros w smin smax dmin dmax c c' H. unfold mul_back in H.
  destruct (range_unsafe dmin dmax). { inversion H; apply store_ile_refl. }
  destruct (somes _) as [|c0 rest]. { inversion H; apply store_ile_refl. }
  destruct (fv_set_min w _ c) as [c1|] eqn:E1; [|discriminate].
  apply (proj2 (fv_set_isafe w)) in H. apply (proj1 (fv_set_isafe w)) in E1.
  eauto using store_ile_trans. Qed.
Lemma prune_fmul_isafe : forall x y s, isafe (prune_fmul x y s).
Proof. intros x y s c c' H. unfold prune_fmul in H.
  destruct (xset_min s _ c) as [c1|] eqn:E1; [|discriminate].
  destruct (xset_max s _ c1) as [c2|] eqn:E2; [|discriminate].
  destruct (mul_back x _ _ _ _ c2) as [c3|] eqn:E3; [|discriminate].
  apply mul_back_isafe in H. apply mul_back_isafe in E3.
  apply xset_max_isafe in E2. apply xset_min_isafe in E1.
  eauto 10 using store_ile_trans. Qed.

(* the propagator vocabulary of Model/FloatProps.v *)
Definition fsafe (p : fprop) : Prop := isafe (fprune p).
Inductive fvocab : fprop -> Prop :=
| V_le : forall cs vs k, fvocab (mk_flin_le cs vs k)
| V_eq : forall cs vs k, fvocab (mk_flin_eq cs vs k)
| V_ne : forall cs vs k, fvocab (mk_flin_ne cs vs k)
| V_ler : forall cs vs k b, fvocab (mk_flin_le_reif cs vs k b)
| V_eqr : forall cs vs k b, fvocab (mk_flin_eq_reif cs vs k b)
| V_ner : forall cs vs k b, fvocab (mk_flin_ne_reif cs vs k b)
| V_leq : forall x y, fvocab (mk_fleq x y)
| V_flt : forall x y, fvocab (mk_flt x y)
| V_feq : forall x y, fvocab (mk_feq x y)
| V_ilin : forall cs vs k, fvocab (mk_ilin_le_mixed cs vs k)
| V_add : forall x y s, fvocab (mk_fadd x y s)
| V_sub : forall x y s, fvocab (mk_fsub x y s)
| V_mul : forall x y s, fvocab (mk_fmul x y s).
Lemma fvocab_fsafe : forall p, fvocab p -> fsafe p.
Proof. intros p H; destruct H; unfold fsafe; simpl.
  apply prune_flin_le_isafe. apply prune_flin_eq_gen_isafe. apply prune_flin_ne_isafe.
  apply prune_flin_le_reif_isafe. apply prune_flin_eq_reif_isafe. apply prune_flin_ne_reif_isafe.
  apply prune_fleq_isafe. apply prune_flt_isafe. apply prune_feq_isafe. apply prune_ilin_le_mixed_isafe.
  apply prune_fadd_isafe. apply prune_fadd_isafe. apply prune_fmul_isafe. Qed.

Lemma fpropagate_ile : forall pf ps s q r lft, Forall fsafe ps -> fpropagate pf ps s q = (FPDone r, lft) -> store_ile r s.
Proof. induction pf as [|f IH]; intros ps s q r lft Hps; destruct q as [|p q']; simpl; intro H; try discriminate.
  - inversion H; apply store_ile_refl.
  - inversion H; apply store_ile_refl.
  - destruct (nth_error ps p) as [pr|] eqn:En; [|discriminate].
    destruct (fprune pr (s, [])) as [[s' ev]|] eqn:Ep; [|discriminate].
    eapply store_ile_trans. eapply IH; eauto.
    assert (fsafe pr). { eapply Forall_forall; eauto. eapply nth_error_In; eauto. }
    apply H0 in Ep. exact Ep. Qed.

(* every solution the search reports is the value vector of an assigned store below the initial one *)
Definition sol_of (s0 : fstore) (sol : list fval) : Prop :=
  exists s', sol = fsolution s' /\ store_ile s' s0 /\ fall_assigned s' = true.

Lemma fon_branch_props_fsafe : forall m best, Forall fsafe (fon_branch_props m best).
Proof. intros [obj|] [b|]; simpl; auto. constructor; auto. unfold fsafe, mk_flt; simpl. apply prune_flt_isafe. Qed.

Lemma fdfs_sols : forall m maxsols fuel ps s best budget nsol, Forall fsafe ps ->
  forall sol, In sol (fs_sols (fdfs m maxsols fuel ps s best budget nsol)) -> sol_of s sol.
Proof. intros m maxsols. induction fuel as [|f IH]; intros ps s best budget nsol Hps sol; simpl. { tauto. }
  destruct (ffirst_unassigned s 0) as [pivot|]; simpl; [|tauto].
  destruct (var_mid (fget s pivot)) as [mid|]; simpl; [|tauto].
  (* one child *)
  assert (CH : forall bp bst bud ns, fsafe bp -> forall sol,
    In sol (fs_sols (match bud with
      | O => mkfsres [] bst O StopFuel
      | S budget' =>
        match fpropagate budget' ((ps ++ [bp]) ++ fon_branch_props m bst) s
                (agenda_with (seq (S (length ps)) (length (fon_branch_props m bst)) ++ [length ps])) with
        | (FPFuel, _) => mkfsres [] bst O StopFuel
        | (FPFail, lft) => mkfsres [] bst lft Running
        | (FPDone s', lft) =>
          if fall_assigned s' then mkfsres [fsolution s'] (fon_solution m bst s') lft (if Nat.leb maxsols (S ns) then StopMore else Running)
          else fdfs m maxsols f ((ps ++ [bp]) ++ fon_branch_props m bst) s' bst lft ns
        end end)) -> sol_of s sol).
  { intros bp bst bud ns Hbp sl. destruct bud as [|budget']; simpl; [tauto|].
    assert (Hps2 : Forall fsafe ((ps ++ [bp]) ++ fon_branch_props m bst)).
    { apply Forall_app; split; [apply Forall_app; split; auto|apply fon_branch_props_fsafe]. }
    destruct (fpropagate budget' _ s _) as [[| |s'] lft] eqn:EP; simpl; try tauto.
    pose proof (fpropagate_ile _ _ _ _ _ _ Hps2 EP) as Hle.
    destruct (fall_assigned s') eqn:EA; simpl.
    - intros [<-|[]]. exists s'. split; [reflexivity|split; assumption].
    - intro Hin. destruct (IH _ _ _ _ _ Hps2 _ Hin) as (s2 & E & L & A). exists s2. split; [assumption|split; [eapply store_ile_trans; eauto|assumption]]. }
  match goal with |- In sol (fs_sols (match fs_stop ?r1 with _ => _ end)) -> _ => set (R1 := r1) end.
  assert (H1 : forall sl, In sl (fs_sols R1) -> sol_of s sl).
  { intros sl. apply CH. unfold fsafe, mk_fleq; simpl; apply prune_fleq_isafe. }
  destruct (fs_stop R1); auto.
  simpl. intro Hin. apply in_app_or in Hin. destruct Hin as [Hin|Hin]; auto.
  revert Hin. apply CH. unfold fsafe, mk_fgt, mk_flt; simpl; apply prune_flt_isafe. Qed.

Lemma fsearch_sols : forall m maxsols fuel budget ps s, Forall fsafe ps ->
  forall sol, In sol (fs_sols (fsearch m maxsols fuel budget ps s)) -> sol_of s sol.
Proof. intros m maxsols fuel budget ps s Hps sol. unfold fsearch.
  destruct (fpropagate budget ps s _) as [[| |s'] lft] eqn:EP; simpl; try tauto.
  pose proof (fpropagate_ile _ _ _ _ _ _ Hps EP) as Hle.
  destruct (fall_assigned s') eqn:EA; simpl.
  - intros [<-|[]]. exists s'. split; [reflexivity|split; assumption].
  - intro Hin. destruct (fdfs_sols _ _ _ _ _ _ _ _ Hps _ Hin) as (s2 & E & L & A). exists s2. split; [assumption|split; [eapply store_ile_trans; eauto|assumption]]. Qed.

Lemma fall_assigned_get : forall s v, fall_assigned s = true -> (v < length s)%nat -> var_assigned (fget s v) = true.
Proof. unfold fall_assigned, fget. intros s v H L. rewrite forallb_forall in H. apply H. apply nth_In. auto. Qed.

Theorem mixed_ints_exact_main : forall m maxsols fuel budget ps s sol v d,
  Forall fvocab ps -> In sol (fs_sols (fsearch m maxsols fuel budget ps s)) ->
  (v < length s)%nat -> fget s v = VI d ->
  exists z, nth v sol (VlI 0) = VlI z /\ In z d.
Proof. intros m maxsols fuel budget ps s sol v d Hps Hin Hv Hd.
  assert (Hs : Forall fsafe ps). { eapply Forall_impl; [|exact Hps]. apply fvocab_fsafe. }
  destruct (fsearch_sols _ _ _ _ _ _ Hs _ Hin) as (s' & -> & [L Hle] & A).
  specialize (Hle v). rewrite Hd in Hle. assert (Hv' : (v < length s')%nat) by lia.
  pose proof (fall_assigned_get _ _ A Hv') as Hfix.
  unfold fsolution. rewrite (nth_indep _ (VlI 0) (var_value (VI []))) by (rewrite map_length; auto).
  rewrite map_nth. change (nth v s' (VI [])) with (fget s' v).
  destruct (fget s' v) as [d'|i']; simpl in Hle; [|tauto].
  simpl in Hfix. destruct d' as [|z [|? ?]]; try discriminate. exists z. simpl. split; auto. apply Hle. left; auto. Qed.

(* ================================================================ Part 2: float bounds (on top of C12F) *)
Open Scope R_scope.

(* one float tightening of a float variable of a mixed store, bound inside Magn: never widens, stays a float variable *)
Lemma xset_min_float_no_widen : forall v x c c' i, (v < length (fst c))%nat -> fget (fst c) v = VF i ->
  magn_b i x = true -> xset_min v (VlF x) c = Some c' ->
  exists i', fget (fst c') v = VF i' /\ no_widen i i' /\ imax i' = imax i /\
             (R_ (imin i') <= R_ (imin i) \/ R_ (imin i') <= R_ x + R_ (istep i) * (1 + m50) + Rabs (R_ x) * m50).
Proof. intros v x [s ev] c' i Hv Hg M H. unfold xset_min in H. simpl in *. rewrite Hg in H. simpl in H.
  destruct (tsmin_ff i x) as [[i' e]|] eqn:E; [|discriminate]. inversion H; subst; simpl.
  exists i'. rewrite fget_fupd_same by auto. destruct (tsmin_ff_magn i x i' e M E) as (A & B & _ & _ & L). auto. Qed.
Lemma xset_max_float_no_widen : forall v x c c' i, (v < length (fst c))%nat -> fget (fst c) v = VF i ->
  magn_b i x = true -> xset_max v (VlF x) c = Some c' ->
  exists i', fget (fst c') v = VF i' /\ no_widen i i' /\ imin i' = imin i /\
             (R_ (imax i) <= R_ (imax i') \/ R_ x - R_ (istep i) * (1 + m50) - Rabs (R_ x) * m50 <= R_ (imax i')).
Proof. intros v x [s ev] c' i Hv Hg M H. unfold xset_max in H. simpl in *. rewrite Hg in H. simpl in H.
  destruct (tsmax_ff i x) as [[i' e]|] eqn:E; [|discriminate]. inversion H; subst; simpl.
  exists i'. rewrite fget_fupd_same by auto. destruct (tsmax_ff_magn i x i' e M E) as (A & B & _ & _ & L). auto. Qed.

(* Everything the solver does to ONE float variable is a sequence of try_set_min / try_set_max calls (the setters are the
   only writers of the store).  If every float bound of the sequence lies inside Magn w.r.t. the DECLARED interval, the value
   finally reported (the interval minimum) lies inside the declared interval. *)
Theorem float_value_in_declared_bounds : forall l i i' evs, wf_b i = true ->
  forallb (fun o => fop_is_float o && magn_op_b i o) l = true -> fop_run i l = Some (i', evs) ->
  R_ (imin i) <= R_ (imin i') /\ R_ (imin i') <= R_ (imax i) /\ istep i' = istep i.
Proof. intros l i i' evs W Hall Hrun. pose proof (wf_b_wf _ W) as Wf.
  destruct (FloatIntervalProofs.tsm_f_seq l i i' evs Wf Hall Hrun) as (W' & N & _ & _).
  destruct Wf as (A & B & C & D & E). destruct W' as (A' & B' & C' & D' & E').
  destruct N as (S & L1 & L2). apply fle_fin in L1; auto. apply fle_fin in L2; auto. repeat split; auto; lra. Qed.

(* C07: a witness value w that lies in the current interval and below the requested upper bound v with margin
   step*(1+2^-50) + |v|*2^-50 is still inside the interval after try_set_max(v) -- whatever branch is taken; mirrored for
   try_set_min.  (One pruning step; Magn.) *)
Theorem witness_survives_set_max : forall i v i' ev w, magn_b i v = true -> tsmax_ff i v = Some (i', ev) ->
  R_ (imin i) <= w -> w <= R_ (imax i) -> w <= R_ v - (R_ (istep i) * (1 + m50) + Rabs (R_ v) * m50) ->
  R_ (imin i') <= w /\ w <= R_ (imax i').
Proof. intros i v i' ev w M H L1 L2 Mg. destruct (tsmax_ff_magn i v i' ev M H) as (_ & Emin & _ & _ & [L|L]).
  - rewrite Emin. lra. - rewrite Emin. lra. Qed.
Theorem witness_survives_set_min : forall i v i' ev w, magn_b i v = true -> tsmin_ff i v = Some (i', ev) ->
  R_ (imin i) <= w -> w <= R_ (imax i) -> R_ v + (R_ (istep i) * (1 + m50) + Rabs (R_ v) * m50) <= w ->
  R_ (imin i') <= w /\ w <= R_ (imax i').
Proof. intros i v i' ev w M H L1 L2 Mg. destruct (tsmin_ff_magn i v i' ev M H) as (_ & Emax & _ & _ & [L|L]).
  - rewrite Emax. lra. - rewrite Emax. lra. Qed.

(* ---------------------------------------------------------------- bisect_progress (repair of the bisection stall) *)
(* A split point m that passes the test of the repaired FloatInterval::mid (more than step/2 away from both bounds, as
   decided by the f64 comparisons) makes BOTH branches of the bisection tighten the interval, inside Magn:
     left  child  x <= m : try_set_max(m) succeeds with an event, min untouched, new max < max - 0.07*step, new max >= min
     right child  x >= m : try_set_min(m) succeeds with an event, max untouched, new min > min + 0.07*step, new min <= max
   so the width of the pivot's interval shrinks by more than 0.07*step at every level of the search tree. *)
Lemma fi_tol_is_ctx_tol : forall i, fi_tol i = ctx_tol i.
Proof. reflexivity. Qed.

Lemma flt_above_sub_tol : forall i x, wf i -> fin x -> R_ (imin i) <= R_ x -> flt x (fsub (imin i) (ctx_tol i)) = false.
Proof. intros i x W Fx L. destruct (ctx_tol_fin i W) as (Ft & T0 & _). destruct W as (A & B & C & D & E).
  destruct (fsub_nonneg_le (imin i) (ctx_tol i) A Ft T0) as [[F Le]|Ei].
  - apply flt_fin_f; auto. lra.
  - rewrite Ei. unfold flt. rewrite fcmp_fin_ninf; auto. Qed.
Lemma fgt_below_add_tol : forall i x, wf i -> fin x -> R_ x <= R_ (imax i) -> fgt x (fadd (imax i) (ctx_tol i)) = false.
Proof. intros i x W Fx L. destruct (ctx_tol_fin i W) as (Ft & T0 & _). destruct W as (A & B & C & D & E).
  destruct (fadd_nonneg_ge (imax i) (ctx_tol i) B Ft T0) as [[F Le]|Ei].
  - apply fgt_fin_f; auto. lra.
  - rewrite Ei. unfold fgt. rewrite fcmp_fin_pinf; auto. Qed.

Lemma split_wide_enough : forall i m, MagnR i m -> fi_split_ok i m = true ->
  flt (fabs (fsub (imax i) (imin i))) (ctx_tol i) = false /\
  R_ (imin i) + 37/100 * R_ (istep i) < R_ m /\ R_ m < R_ (imax i) - 37/100 * R_ (istep i).
Proof. intros i m M S. unfold fi_split_ok in S. rewrite fi_tol_is_ctx_tol in S. apply andb_true_iff in S. destruct S as (T1 & T2).
  assert (Lv := below_max_tol_strong i m M T2). assert (Lu := above_min_tol_strong i m M T1).
  split; [|split; assumption].
  destruct M as [W Fm S1 S2 Bmin Bmax Bv Bf]. destruct (ctx_tol_fin i W) as (Ft & T0 & Et).
  destruct W as (A & B & C & D & E).
  destruct (fsub_cases (imax i) (imin i) B A) as [[F Eq]|(Ov & Ei & _)].
  - destruct (fabs_fin _ F) as (Fa & Ea). apply flt_fin_f; auto. rewrite Ea, Eq, Et.
    rewrite Rabs_pos_eq. apply RN_le. lra. rewrite <- RN_0. apply RN_le. lra.
  - rewrite Ei. destruct (Binary.Bsign 53 1024 (imax i)); unfold flt; simpl;
      change (Binary.B754_infinity 53 1024 false) with pinf; rewrite fcmp_pinf_fin; auto. Qed.

Theorem split_left_progress : forall i m, magn_b i m = true -> fi_split_ok i m = true ->
  exists mx, tsmax_ff i m = Some (mkfi (imin i) mx (istep i), true) /\ fin mx /\
    R_ (imin i) <= R_ mx /\ R_ mx < R_ (imax i) - 7/100 * R_ (istep i).
Proof. intros i m Mb S. assert (M := magn_b_MagnR i m Mb).
  destruct (split_wide_enough i m M S) as (Early & Lu & Lv).
  unfold fi_split_ok in S. rewrite fi_tol_is_ctx_tol in S. apply andb_true_iff in S. destruct S as (T1 & T2).
  assert (M' := M). destruct M' as [W Fm S1 S2 Bmin Bmax Bv Bf]. assert (W' := W). destruct W' as (A & B & C & D & E).
  unfold tsmax_ff. cbv zeta. rewrite Early. cbn [andb].
  assert (T0 : flt m (imin i) = false) by (apply flt_fin_f; auto; lra). rewrite T0, T2.
  destruct (quant_float mode_DN m (istep i) (or_intror eq_refl) Fm C S1 S2 Bv) as (Fn & _ & Up & _).
  specialize (Up eq_refl). change (Binary.Bnearbyint 53 1024 Hpe unop_nan_pl64 mode_DN) with ffloor in *.
  set (nm0 := fmul (ffloor (fdiv m (istep i))) (istep i)) in *.
  destruct (flt nm0 (imin i)) eqn:T3.
  - rewrite (flt_above_sub_tol i (imin i) W A) by lra. exists (imin i). repeat split; auto; lra.
  - apply flt_fin_f in T3; auto. rewrite (flt_above_sub_tol i nm0 W Fn T3). exists nm0. repeat split; auto; lra. Qed.

Theorem split_right_progress : forall i m, magn_b i m = true -> fi_split_ok i m = true ->
  exists mn, tsmin_ff i m = Some (mkfi mn (imax i) (istep i), true) /\ fin mn /\
    R_ (imin i) + 7/100 * R_ (istep i) < R_ mn /\ R_ mn <= R_ (imax i).
Proof. intros i m Mb S. assert (M := magn_b_MagnR i m Mb).
  destruct (split_wide_enough i m M S) as (Early & Lu & Lv).
  unfold fi_split_ok in S. rewrite fi_tol_is_ctx_tol in S. apply andb_true_iff in S. destruct S as (T1 & T2).
  assert (M' := M). destruct M' as [W Fm S1 S2 Bmin Bmax Bv Bf]. assert (W' := W). destruct W' as (A & B & C & D & E).
  unfold tsmin_ff. cbv zeta. rewrite Early. cbn [andb].
  rewrite (fgt_below_add_tol i m W Fm) by lra. rewrite T1.
  destruct (quant_float mode_UP m (istep i) (or_introl eq_refl) Fm C S1 S2 Bv) as (Fn & Lo & _ & _).
  specialize (Lo eq_refl). change (Binary.Bnearbyint 53 1024 Hpe unop_nan_pl64 mode_UP) with fceil in *.
  set (nm0 := fmul (fceil (fdiv m (istep i))) (istep i)) in *.
  destruct (fgt nm0 (imax i)) eqn:T3.
  - rewrite (fgt_below_add_tol i (imax i) W B) by lra. exists (imax i). repeat split; auto; lra.
  - apply fgt_fin_f in T3; auto. rewrite (fgt_below_add_tol i nm0 W Fn T3). exists nm0. repeat split; auto; lra. Qed.

(* what the repaired mid returns for an interval that is neither empty nor fixed *)
Lemma fi_mid_split_ok_or_exact : forall i m, fi_is_empty i = false -> fi_is_fixed i = false -> fi_mid i = Some m ->
  fi_split_ok i m = true \/ fclamp (fi_rough_mid i) (imin i) (imax i) = Some m.
Proof. intros i m E F H. unfold fi_mid in H. rewrite E, F in H.
  destruct (fi_round_to_step i (fi_rough_mid i)) as [r|]; [|discriminate].
  destruct (fi_split_ok i r) eqn:S. inversion H; subst; auto. auto. Qed.

Close Scope R_scope.

(* ================================================================ Part 3: what the code does NOT guarantee *)
Require Import Selen.Model.FloatDispatch.

(* -- (a) a comparison between two float variables, as the runtime API lowers it (IntLinLe with coefficients 1,-1,
      constant 0: try_convert_to_linear_ast), is the IDENTITY on every store: it is silently ignored *)
Theorem float_cmp_lowered_to_intlin_is_noop : forall s ev x y ix iy k, x <> y ->
  fget s x = VF ix -> fget s y = VF iy ->
  prune_ilin_le_mixed [1; -1] [x; y] k (s, ev) = Some (s, ev).
Proof. intros s ev x y ix iy k N Hx Hy. unfold prune_ilin_le_mixed. simpl. unfold ilin_le_step. simpl. rewrite Hy. reflexivity. Qed.

(* -- (b) BEFORE the repair FloatLinLe never tightened nor checked an integer variable: a one-variable row over an int variable
      was the identity.  AFTER the repair it bounds it: 1.5*x <= 4 on x in {3,4,5} fails (4/1.5 = 2.67 floors to 2 < 3), and on
      x in {0..5} leaves {0,1,2} *)
Theorem flin_le_prefix_ignores_int_var : forall c v d coeff k, fget (fst c) v = VI d ->
  prune_flin_le_prefix [coeff] [v] k c = Some c.
Proof. intros c v d coeff k H. unfold prune_flin_le_prefix. simpl. unfold flin_le_step_prefix. simpl. rewrite H. simpl.
  destruct (flt (fabs coeff) c_zero_coeff); auto.
  destruct (fgt coeff c_zero); [destruct (fis_finite _)|destruct (fis_finite _)]; reflexivity. Qed.

(* -- (c) FloatLinNe does nothing while two of its variables are not "fixed" in ITS sense (|max - min| < 1e-12) ... *)
Theorem flin_ne_two_unfixed_is_noop : forall c c0 c1 v0 v1 k,
  ne_fixed_val (fst c) v0 = None -> ne_fixed_val (fst c) v1 = None ->
  prune_flin_ne_prefix [c0; c1] [v0; v1] k c = Some c.
Proof. intros c c0 c1 v0 v1 k H0 H1. unfold prune_flin_ne_prefix. simpl. rewrite H0, H1. reflexivity. Qed.

(* AFTER the repair: at a leaf (every variable of the constraint assigned in the search's sense) FloatLinNe decides the constraint
   on the reported values and changes nothing: it fails iff the f64 sum of coeff * reported value is within 1e-12 of k *)
Fixpoint reported_sum (cs : list f64) (vs : list nat) (s : fstore) (acc : f64) : f64 :=
  match cs, vs with
  | coeff :: cs', v :: vs' => reported_sum cs' vs' s (fadd acc (fmul coeff (as_f (var_value (fget s v)))))
  | _, _ => acc
  end.
Lemma assigned_sum_reported : forall cs vs s acc, Forall (fun v => var_assigned (fget s v) = true) vs ->
  assigned_sum cs vs s acc = Some (reported_sum cs vs s acc).
Proof. induction cs as [|a cs IH]; intros vs s acc H; destruct vs as [|v vs]; simpl; auto.
  inversion H; subst. rewrite H2. apply IH; auto. Qed.
Theorem flin_ne_decides_leaf : forall cs vs k c, Forall (fun v => var_assigned (fget (fst c) v) = true) vs ->
  prune_flin_ne cs vs k c = if flt (fabs (fsub (reported_sum cs vs (fst c) c_zero) k)) c_ne_eq then None else Some c.
Proof. intros cs vs k c H. unfold prune_flin_ne. rewrite (assigned_sum_reported cs vs (fst c) c_zero H). reflexivity. Qed.

(* closed witnesses, observed through bit patterns *)
Definition obs_var (x : fvar) : list Z :=
  match x with VI d => 0 :: d | VF i => [1; to_bits (imin i); to_bits (imax i); to_bits (istep i)] end.
Definition obs_ctx (r : option fctx) : option (list (list Z) * list nat) :=
  match r with None => None | Some (s, ev) => Some (map obs_var s, ev) end.
Lemma flin_le_bounds_int_var_ok :
  prune_flin_le [of_bits 0x3ff8000000000000] [0%nat] (of_bits 0x4010000000000000) ([VI [3; 4; 5]], []) = None /\
  obs_ctx (prune_flin_le [of_bits 0x3ff8000000000000] [0%nat] (of_bits 0x4010000000000000) ([VI [0; 1; 2; 3; 4; 5]], []))
    = Some ([[0; 0; 1; 2]], [0%nat]).
Proof. vm_compute. split; reflexivity. Qed.

(* ... and a float variable that the SEARCH regards as assigned (is_fixed: one step wide) is not fixed for FloatLinNe:
   x, y in [0, 1e-6] with step 1e-6 are both assigned, FloatLinNe(x - y != 0) accepts the store, and the reported
   solution is x = y = 0 *)
Definition w_ne_iv : fint := mkfi (of_bits 0) (of_bits 0x3eb0c6f7a0b5ed8d) (of_bits 0x3eb0c6f7a0b5ed8d).
Definition w_ne_store : fstore := [VF w_ne_iv; VF w_ne_iv].
Definition w_ne_iv2 : fint := mkfi (of_bits 0x3eb0c6f7a0b5ed8d) (of_bits 0x3ec0c6f7a0b5ed8d) (of_bits 0x3eb0c6f7a0b5ed8d).
Lemma float_ne_repaired_ok :
  prune_flin_ne [of_bits 0x3ff0000000000000; of_bits 0xbff0000000000000] [0%nat; 1%nat] (of_bits 0) (w_ne_store, []) = None /\
  fall_assigned [VF w_ne_iv; VF w_ne_iv2] = true /\
  obs_ctx (prune_flin_ne [of_bits 0x3ff0000000000000; of_bits 0xbff0000000000000] [0%nat; 1%nat] (of_bits 0) ([VF w_ne_iv; VF w_ne_iv2], []))
    = obs_ctx (Some ([VF w_ne_iv; VF w_ne_iv2], [])).
Proof. vm_compute. repeat split; reflexivity. Qed.
Lemma float_ne_refuted_ok :
  fall_assigned w_ne_store = true /\
  obs_ctx (prune_flin_ne_prefix [of_bits 0x3ff0000000000000; of_bits 0xbff0000000000000] [0%nat; 1%nat] (of_bits 0) (w_ne_store, [])) = obs_ctx (Some (w_ne_store, [])) /\
  map (fun b => match b with VlF x => to_bits x | VlI z => z end) (fsolution w_ne_store) = [0; 0].
Proof. vm_compute. repeat split; reflexivity. Qed.

(* -- (d) the bisection stall BEFORE the repair (fi_mid_prefix = the old FloatInterval::mid): x in [0, 0.375] with step 0.25
      (width 1.5 steps) is NOT assigned (round(1.5) = 2 > 1), the old mid is 0.25, and the left branch x <= 0.25 changes nothing
      (0.25 is not below max - step/2): the left child equals its parent, no event is raised, and the depth-first engine
      descended for ever.  AFTER the repair mid is the exact midpoint 0.1875 (the rounded one fails fi_split_ok), both
      children are assigned, and the model of solve() returns the solution 0.0. *)
Definition w_stall_iv : fint := mkfi (of_bits 0) (of_bits 0x3fd8000000000000) (of_bits 0x3fd0000000000000).
Definition w_stall_store : fstore := [VF w_stall_iv].
Definition w_stall_mid : fval := VlF (of_bits 0x3fd0000000000000).
Lemma bisect_stall_prefix_ok :
  wf_b w_stall_iv = true /\ fall_assigned w_stall_store = false /\ ffirst_unassigned w_stall_store 0 = Some 0%nat /\
  option_map to_bits (fi_mid_prefix w_stall_iv) = Some 0x3fd0000000000000 /\
  fi_split_ok w_stall_iv (of_bits 0x3fd0000000000000) = false /\
  obs_ctx (fprune (mk_fleq (FVar 0) (FConst w_stall_mid)) (w_stall_store, [])) = obs_ctx (Some (w_stall_store, [])).
Proof. vm_compute. repeat split; reflexivity. Qed.
Lemma bisect_repaired_ok :
  option_map to_bits (fi_mid w_stall_iv) = Some 0x3fc8000000000000 /\
  fi_split_ok w_stall_iv (of_bits 0x3fc8000000000000) = true /\ magn_b w_stall_iv (of_bits 0x3fc8000000000000) = true /\
  (let r := fsolve_first 50 1000 [] w_stall_store in
   map (map (fun b => match b with VlF x => to_bits x | VlI z => z end)) (fs_sols r) = [[0]] /\ fs_stop r = StopMore).
Proof. vm_compute. repeat split; reflexivity. Qed.

(* -- (e0) strict comparison int variable < float variable.  BEFORE the repair (prune_flt_prefix: x.next() <= y with the INTEGER
      successor) x1 = 5 < x0, x0 in [-0.5, 5.5] failed although x0 = 5.25 satisfies it; AFTER the repair (prune_flt: x <= y.prev())
      the same store is tightened to x0 in [5 + step, 5.5] *)
Definition w_mix_store : fstore := [VF (mkfi (of_bits 0xbfe0000000000000) (of_bits 0x4016000000000000) (of_bits 0x3e45798ee2308c3a)); VI [5]].
Lemma mixed_strict_ok :
  prune_flt_prefix (FVar 1) (FVar 0) (w_mix_store, []) = None /\
  obs_ctx (prune_flt (FVar 1) (FVar 0) (w_mix_store, [])) = Some ([[1; 0x4014000000abcc77; 0x4016000000000000; 0x3e45798ee2308c3a]; [0; 5]], [0%nat]).
Proof. vm_compute. split; reflexivity. Qed.

(* -- (e0') strict comparison int variable < float CONSTANT.  BETWEEN the two repairs (prune_flt_prefix_const: x.next() <= c, the
      integer successor against the constant) x < 6.625 rejected x = 6 and, the successor of a float constant being the constant
      itself, 2.0 < x accepted x = 2; AFTER (prune_flt) x in 1..6, x < 6.625 keeps 6; x < 6.0 gives x <= 5; 2.0 < x gives x >= 3;
      2.25 < x gives x >= 3; x in {-1,0}, x < -0.5 gives x = -1 (the space failed before); no i32 below -3e9: fail;
      NaN: fail; +inf prunes nothing *)
Definition w_six : fstore := [VI [1; 2; 3; 4; 5; 6]].
Lemma strict_int_const_ok :
  prune_flt_prefix_const (FVar 0) (FConst (VlF (of_bits 0x401a800000000000))) ([VI [6]], []) = None /\
  prune_flt_prefix_const (FConst (VlF (of_bits 0x4000000000000000))) (FVar 0) ([VI [2]], []) = Some ([VI [2]], []) /\
  prune_flt_prefix_const (FVar 0) (FConst (VlF (of_bits 0xbfe0000000000000))) ([VI [-1; 0]], []) = None /\
  prune_flt (FVar 0) (FConst (VlF (of_bits 0x401a800000000000))) (w_six, []) = Some (w_six, []) /\
  prune_flt (FVar 0) (FConst (VlF (of_bits 0x401a800000000000))) ([VI [6]], []) = Some ([VI [6]], []) /\
  prune_flt (FVar 0) (FConst (VlF (of_bits 0x4018000000000000))) (w_six, []) = Some ([VI [1; 2; 3; 4; 5]], [0%nat]) /\
  prune_flt (FConst (VlF (of_bits 0x4000000000000000))) (FVar 0) (w_six, []) = Some ([VI [3; 4; 5; 6]], [0%nat]) /\
  prune_flt (FConst (VlF (of_bits 0x4000000000000000))) (FVar 0) ([VI [2]], []) = None /\
  prune_flt (FConst (VlF (of_bits 0x4002000000000000))) (FVar 0) (w_six, []) = Some ([VI [3; 4; 5; 6]], [0%nat]) /\
  prune_flt (FVar 0) (FConst (VlF (of_bits 0xbfe0000000000000))) ([VI [-1; 0]], []) = Some ([VI [-1]], [0%nat]) /\
  prune_flt (FVar 0) (FConst (VlF (of_bits 0xc1e65a0bc0000000))) (w_six, []) = None /\
  prune_flt (FVar 0) (FConst (VlF (of_bits 0x7ff8000000000000))) (w_six, []) = None /\
  prune_flt (FVar 0) (FConst (VlF (of_bits 0x7ff0000000000000))) (w_six, []) = Some (w_six, []).
Proof. vm_compute. repeat split; reflexivity. Qed.

(* -- (e1) FloatLinEq over an integer and a float variable: 3*i + 0.75*x = 1.40625 at step 0.1.  x = 1.875 is quantised to 1.9, the
      residual for i is -0.00625: BEFORE the repair (prune_flin_eq_prefix) ceil / floor of it invert the bounds of i and the leaf
      x = 1.9, i = 0 fails (so does every other: NoSolution); AFTER (prune_flin_eq: one step of x, weighted, as slack for i) the
      leaf is accepted unchanged *)
Definition w_eqmix_store : fstore :=
  [VF (mkfi (of_bits 0x3ffe666666666667) (of_bits 0x3ffe666666666667) (of_bits 0x3fb999999999999a)); VI [0]].
Lemma floatlineq_mixed_ok :
  prune_flin_eq_prefix [of_bits 0x4008000000000000; of_bits 0x3fe8000000000000] [1%nat; 0%nat] (of_bits 0x3ff6800000000000) (w_eqmix_store, []) = None /\
  obs_ctx (prune_flin_eq [of_bits 0x4008000000000000; of_bits 0x3fe8000000000000] [1%nat; 0%nat] (of_bits 0x3ff6800000000000) (w_eqmix_store, []))
    = obs_ctx (Some (w_eqmix_store, [])).
Proof. vm_compute. split; reflexivity. Qed.

(* -- (e2) a float variable against a float CONSTANT that is not on its step grid (step 0.1).  BEFORE the repair "a float variable
      is compared with a float constant through its own setters only" (prune_fleq_plain / prune_feq_plain: the constant re-tested
      exactly) x in [4.4, 6.5] (what x >= 4.375 leaves), x <= 4.375 failed; x in [-2, 6.5], x == 1.25 failed.  AFTER: x is fixed
      at 4.4 resp. 1.3.  A constant beyond the opposite bound within the precision tolerance (1.625 <= x, x in [-2, 1.5]: the
      setter alone leaves x untouched) fixes x at that bound, 1.5; beyond the tolerance (2.0 <= x) the space fails as before *)
Definition w_og_step : f64 := of_bits 0x3fb999999999999a.
Definition w_og_s1 : fstore := [VF (mkfi (of_bits 0x401199999999999a) (of_bits 0x401a000000000000) w_og_step)].
Definition w_og_s2 : fstore := [VF (mkfi (of_bits 0xc000000000000000) (of_bits 0x401a000000000000) w_og_step)].
Definition w_og_s3 : fstore := [VF (mkfi (of_bits 0xc000000000000000) (of_bits 0x3ff8000000000000) w_og_step)].
Lemma offgrid_const_ok :
  prune_fleq_plain (FVar 0) (FConst (VlF (of_bits 0x4011800000000000))) (w_og_s1, []) = None /\
  obs_ctx (prune_fleq (FVar 0) (FConst (VlF (of_bits 0x4011800000000000))) (w_og_s1, []))
    = Some ([[1; 0x401199999999999a; 0x401199999999999a; 0x3fb999999999999a]], [0%nat]) /\
  prune_feq_plain (FVar 0) (FConst (VlF (of_bits 0x3ff4000000000000))) (w_og_s2, []) = None /\
  obs_ctx (prune_feq (FVar 0) (FConst (VlF (of_bits 0x3ff4000000000000))) (w_og_s2, []))
    = Some ([[1; 0x3ff4cccccccccccd; 0x3ff4cccccccccccd; 0x3fb999999999999a]], [0%nat; 0%nat]) /\
  prune_fleq_plain (FConst (VlF (of_bits 0x3ffa000000000000))) (FVar 0) (w_og_s3, []) = None /\
  obs_ctx (prune_fleq (FConst (VlF (of_bits 0x3ffa000000000000))) (FVar 0) (w_og_s3, []))
    = Some ([[1; 0x3ff8000000000000; 0x3ff8000000000000; 0x3fb999999999999a]], [0%nat]) /\
  prune_fleq (FConst (VlF (of_bits 0x4000000000000000))) (FVar 0) (w_og_s3, []) = None.
Proof. vm_compute. repeat split; reflexivity. Qed.

(* -- (e) strict comparison of a float variable with an integer literal: x > 2 is lowered (LinearInt, op Gt) to IntLinLe([-1],[x],-3),
      i.e. x >= 3: on x in [0, 2.5] the space fails although 2.25 satisfies x > 2 with a margin of 25 steps of 0.01 *)
Definition w_gt_iv : fint := mkfi (of_bits 0) (of_bits 0x4004000000000000) (of_bits 0x3f847ae147ae147b).
Lemma strict_int_literal_refuted_ok :
  wf_b w_gt_iv = true /\ prune_ilin_le_mixed [-1] [0%nat] (-3) ([VF w_gt_iv], []) = None.
Proof. vm_compute. split; reflexivity. Qed.

(* -- (f) dispatch: basic facts about the gate predicates *)
Lemma root_lp_gate_needs_two_vars : forall lp ps obj, root_lp_gate lp ps obj = true -> (2 <= length (lp_vars ps))%nat /\ lp = true.
Proof. unfold root_lp_gate. intros lp ps obj H. repeat rewrite andb_true_iff in H. destruct H as (((A & B) & C) & D).
  split; auto. apply Nat.leb_le. auto. Qed.
Lemma root_lp_gate_obj_in_system : forall lp ps obj, root_lp_gate lp ps obj = true -> memn obj (lp_vars ps) = true.
Proof. unfold root_lp_gate. intros lp ps obj H. repeat rewrite andb_true_iff in H. tauto. Qed.
Lemma lin_posts_give_no_lp_row_before_lowering : forall rel vars, lp_rows_of (PLin false rel vars) = [].
Proof. intros [] vars; reflexivity. Qed.
Lemma fast_path_not_consulted_with_pending_ast : forall fp ps, existsb pending_ast ps = true -> fast_path_consulted fp ps = false.
Proof. intros fp ps H. unfold fast_path_consulted. destruct fp; auto. simpl.
  apply existsb_exists in H. destruct H as (p & Hin & Hp).
  destruct (forallb (fun p0 => negb (pending_ast p0)) ps) eqn:E; auto.
  rewrite forallb_forall in E. specialize (E p Hin). rewrite Hp in E. discriminate. Qed.
Lemma dispatch_search_only : forall lp fp ps obj, existsb pending_ast ps = true -> root_lp_gate lp ps obj = false ->
  dispatch lp fp ps obj = BySearchOnly.
Proof. intros lp fp ps obj H G. unfold dispatch. rewrite (fast_path_not_consulted_with_pending_ast fp ps H), G. reflexivity. Qed.
(* the README-style model: two lin_le rows with f64 coefficients over x, y, maximise x: after lowering both rows are scanned *)
Example dispatch_readme : dispatch true true [PLin true RLe [0;1]%nat; PLin true RLe [0;1]%nat] 0%nat = ByRootLpThenSearch.
Proof. reflexivity. Qed.
Example dispatch_props_only : dispatch true true [PFlin RLe [0;1]%nat; PCmp RLe (Some 0%nat) (Some 1%nat)] 0%nat = ByFastPathOrSearch.
Proof. reflexivity. Qed.
Example dispatch_single_var : dispatch true false [PNew RGe [0%nat] false false] 0%nat = BySearchOnly.
Proof. reflexivity. Qed.

(* non-vacuity of Part 1 / Part 2 hypotheses: a mixed model whose search really returns a solution *)
Definition ex_store : fstore := [VF (mkfi (of_bits 0) (of_bits 0x4000000000000000) (of_bits 0x3fd0000000000000)); VI [0; 1; 2]].
Definition ex_props : list fprop := [mk_flin_le [of_bits 0x3ff0000000000000; of_bits 0x3ff0000000000000] [0%nat; 1%nat] (of_bits 0x4000000000000000)].
Lemma ex_search_ok : Forall fvocab ex_props /\
  map (map (fun b => match b with VlF x => to_bits x | VlI z => z end)) (fs_sols (fsolve_first 50 2000 ex_props ex_store)) = [[0; 0]].
Proof. split. repeat constructor. vm_compute. reflexivity. Qed.
