(* Extraction of the executable model to OCaml.
   ExtrOcamlBasic: bool, option, unit, prod, list, sumbool map to OCaml's.
   ExtrOcamlNatInt (standard library): nat is extracted to OCaml's 63-bit int with its arithmetic
   (Extract Inductive nat => int; Extract Constant for Nat.add/mul/sub/div/modulo/eqb/leb/ltb/max/min/pred
   and the Init.Nat / PeanoNat aliases, exactly as that library file declares them).  This is sound as
   long as no nat exceeds 2^62: every nat in the model is a list length, a variable/propagator index,
   a stack depth or recursion fuel (at most (domain sizes + 1) * (#propagators + 1)), far below that.
   Z, positive, N, Q stay as extracted inductives.  No Extract Constant of our own. *)
Require Import ExtrOcamlBasic.
Require Import ExtrOcamlNatInt.
Require Import Selen.Model.Prelude Selen.Model.SparseSet Selen.Model.SetSpec.
Require Import Selen.Model.Dom Selen.Model.Views Selen.Model.PropDefs Selen.Model.Props.Basic Selen.Model.Props.LinInt Selen.Model.Props.Arith Selen.Model.Props.Global Selen.Model.Props.Logic Selen.Model.Propagate Selen.Model.Search.
Require Import Selen.Model.LP Selen.Model.Limits Selen.Generated.Consts.
Require Import Selen.Model.Gac Selen.Model.Props.AllDiff.
Require Import Selen.Model.B64 Selen.Model.FloatInterval Selen.Model.CtxFloat.
Require Import Selen.Model.FloatStore Selen.Model.FloatProps Selen.Model.FloatSearch Selen.Model.FloatDispatch.
Require Import Selen.Model.Api Selen.Model.Lower Selen.Model.Routes.
Require Import Selen.Model.Checked.
Require Import Selen.Model.Sudoku.
Require Import Selen.Model.Props.Neq.
Extraction Language OCaml.
Set Extraction AccessOpaque.
Cd "Extract".
Extraction "selen_model.ml"
  ss_new ss_new_from_values ss_run ss_step ss_iter ss_complement_iter ss_min ss_max ss_is_empty
  ss_is_fixed ss_first ss_last ss_contains ss_is_subset_of ss_equals ss_remove size
  spec_init spec_step spec_run cur bad universe
  drange dof_values cset_min cset_max vtimes vtimes_neg vminus vbnd vset vmin vmax all_fixed
  mk_add mk_sub mk_leq mk_lt mk_geq mk_gt mk_eq mk_neq_noop mk_neq mk_sum
  all_zero mk_lin_eq mk_lin_le mk_lin_ne mk_lin_eq_reif mk_lin_le_reif mk_lin_ne_reif
  mk_count mk_at_least mk_at_most mk_exactly mk_element mk_table table_okb
  mk_band mk_bor mk_bnot mk_bxor mk_eq_reif mk_ne_reif mk_lt_reif mk_le_reif mk_gt_reif mk_ge_reif
  mk_alleq mk_alleq_fixed kf_alleq_empty mk_between mk_ite
  mk_mul mk_abs mk_mod mk_mod_prefix mk_minof mk_maxof mk_minof_prefix mk_maxof_prefix
  kf_min_step6 kf_max_step6 kf_mod_prefix mod_enum_limit
  fifo lcg_pick propagate prop_fuel agenda_with search enumerate minimize maximize solve
  solve_lim minimize_lim enumerate_lim never from_check engine_check_interval
  fold fold_cons eval_expr eval_cons holds stmt_cons build lower validate psat to_linear linform
  rbuild rbuild_fixed rexec rexec_fixed rs0 ruv rn_route rlower rvalidate rvalidate_prefix denote_route route_sem route_fun returns
  kf_mod_const kf_mod_zero_div kf_const_const kf_felement_bounds kf_noop_route kf_linreif_zero kf_linreif_len kf_gcc_len kf_nonbool_arg
  kf_element_nd_index kf_element_nd_dummy kf_table_nd_arity c_and_all c_or_all c_all_of c_any_of arr_dom exec_arr rbuild_ext_fixed rexec_ext_fixed rbuild_fix2 rexec_fix2
  kf_or_not impl_cons all_asgs asg_of_list or_eq_pattern
  mkLP lp_wf feasible objective check_opt check_infeasible feasible_tol q_close_rel lp_solve f64_to_Q qdot lp_nvars needs_phase1
  bs_new bs_from_values sp_new sp_from_values bs_remove_value bs_assign bs_remove_above bs_remove_below sp_assign
  hy_new hy_from_values hy_remove_value hy_assign hy_remove_above hy_remove_below
  bitset_alldiff hybrid_alldiff sparse_alldiff bitset_propagate hybrid_propagate sparse_propagate all_vars all_sols sol_check
  kf_sparse_matching kf_sparse_value_range mk_alldiff
  of_bits to_bits f64_of_Z to_ze fis_nan fis_inf fis_finite arith_probe cmp_probe conv_probe
  ulp_of prev_float next_float precision_to_step_size fi_new fi_with_step fi_with_step_unchecked fi_next fi_prev fi_contains
  fi_is_empty fi_is_fixed fi_size fi_step_count fi_round_to_step fi_floor_to_step fi_ceil_to_step fi_intersect fi_intersects
  fi_assign fi_remove_below fi_remove_above fi_mid fi_save fi_restore tsmin_ff tsmax_ff tsmin_fi tsmax_fi ceil_as_i32 floor_as_i32
  tsmin_range_f tsmax_range_f fop_apply fop_run magn_b magn_op_b
  mk_flin_eq mk_flin_le mk_flin_ne mk_flin_eq_reif mk_flin_le_reif mk_flin_ne_reif mk_fleq mk_flt mk_fgeq mk_fgt mk_feq mk_ilin_le_mixed mk_fadd mk_fsub mk_fmul
  fpropagate_all fsolve_first fminimize_seq fall_assigned fsolution
  root_lp_gate fast_path_consulted dispatch lp_rows lp_vars linear_lowering
  lin_in_rangeb cons_in_rangeb expr_in_rangeb emag boundedb add_in_rangeb sum_in_rangeb view_in_rangeb vset_in_rangeb
  cprune_lin_eq cprune_lin_le cprune_lin_ne cprune_lin_eq_reif cprune_lin_le_reif cprune_lin_ne_reif cprune_add cprune_sum cvbnd cvset
  parse_string solve_sudoku_exec solve_sudoku_string_exec solve_general_exec valid_sudokub agreesb clues_okb
  new_cands apply_advanced sudoku_posts sudoku_store sudoku_props general_store general_props validate_ad units first_solution.
Cd "..".
