(* Extraction of the executable model to OCaml.  ExtrOcamlBasic only: bool, option, unit, prod,
   list, sumbool map to OCaml's; Z, positive, N, nat, Q stay as extracted inductives.
   No Extract Constant. *)
Require Import ExtrOcamlBasic.
Require Import Selen.Model.Prelude Selen.Model.SparseSet Selen.Model.SetSpec.
Extraction Language OCaml.
Set Extraction AccessOpaque.
Cd "Extract".
Extraction "selen_model.ml"
  ss_new ss_new_from_values ss_run ss_step ss_iter ss_complement_iter ss_min ss_max ss_is_empty
  ss_is_fixed ss_first ss_last ss_contains ss_is_subset_of ss_equals ss_remove size
  spec_init spec_step spec_run cur bad universe.
Cd "..".
