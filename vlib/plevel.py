"""Props-level case generators and judges shared by C01-C05, C12, C13, C14."""
import itertools, random
from . import plevel_global, plevel_logic, plevel_arith

# ---------------------------------------------------------------- parsing helpers
def parse_doms(s):
    out = []
    for d in s.split("|"):
        d = d.strip()
        if d == "" : continue
        out.append([] if d == "-" else [int(x) for x in d.split(",")])
    return out

def parse_sols(s):
    s = s.strip()
    if s == "-" or s == "": return []
    return [tuple(int(x) for x in t.split(",") if x != "") for t in s.split(" ")]

# ---------------------------------------------------------------- judges
def judge_prop(case, impl, spec):
    if impl.startswith("PANIC") or impl.startswith("CRASH") or impl.startswith("HANG"):
        return "implementation panicked: " + impl
    unsat = spec.startswith("unsat")
    orig = parse_doms(spec.split(" orig ")[1])
    supp = None if unsat else parse_doms(spec.split(" orig ")[0][len("supp "):])
    all_fixed = all(len(d) == 1 for d in orig)
    if impl == "fail":
        if not unsat:
            return "propagation fails although a satisfying assignment exists inside the domains"
        return None
    if not impl.startswith("ok "):
        return "unexpected implementation output: " + impl
    doms = parse_doms(impl.split(" ", 2)[2])
    if len(doms) != len(orig):
        return "variable count changed"
    for i, (d, o) in enumerate(zip(doms, orig)):
        if not set(d) <= set(o):
            return "domain of x%d grew" % i
        if supp is not None and not set(supp[i]) <= set(d):
            return "a supported value of x%d was removed: %s" % (i, sorted(set(supp[i]) - set(d)))
    if all_fixed and unsat:
        return "all variables fixed and the constraint is violated, yet propagation succeeds"
    return None

def judge_solve(case, impl, spec):
    if impl.startswith("PANIC") or impl.startswith("CRASH") or impl.startswith("HANG"):
        return "implementation panicked: " + impl
    if not impl.startswith("sols "):
        return "unexpected implementation output: " + impl
    sols = parse_sols(impl[5:])
    body = spec[len("all "):]
    objs = None
    if " obj " in body:
        body, o = body.split(" obj ")
        objs = [] if o.strip() == "-" else [int(x) for x in o.split(" ")]
    allsols = parse_sols(body)
    allset = set(allsols)
    entry = [p.strip().split()[0] for p in case.split(";") if p.strip() and p.strip().split()[0] in ("enum", "first", "min", "max")]
    entry = entry[0] if entry else "enum"
    for s in sols:
        if s not in allset:
            return "returned assignment %s violates a constraint or a domain" % (s,)
    if entry == "enum":
        if len(set(sols)) != len(sols):
            return "the same assignment was yielded twice"
        if set(sols) != allset:
            return "missed solutions: %s" % sorted(allset - set(sols))[:3]
    elif entry == "first":
        if not sols and allset:
            return "no solution returned for a satisfiable model"
    else:
        if not sols and allset:
            return "no solution returned for a satisfiable model"
        if sols:
            objmap = dict(zip(allsols, objs))
            vals = [objmap[s] for s in sols]
            if any(b >= a for a, b in zip(vals, vals[1:])):
                return "objective not strictly improving along the iteration: %s" % vals
            if vals[-1] != min(objs):
                return "last solution has objective %d but the optimum is %d" % (vals[-1], min(objs))
    return None

# ---------------------------------------------------------------- generators
def rand_dom(rng, lo=-6, hi=8):
    r = rng.random()
    if r < 0.15:
        v = rng.randint(lo, hi); return "%d..%d" % (v, v)
    if r < 0.65:
        a = rng.randint(lo, hi - 1); b = min(hi, a + rng.randint(1, 6)); return "%d..%d" % (a, b)
    k = rng.randint(1, 5)
    vals = sorted(set(rng.randint(lo, hi) for _ in range(k)))
    return ",".join(map(str, vals))

def dom_size(d):
    if ".." in d:
        a, b = d.split(".."); return int(b) - int(a) + 1
    return len(d.split(","))

def rand_view(rng, n, allow_const=True, depth=1):
    r = rng.random()
    if allow_const and r < 0.15:
        base = "c:%d" % rng.randint(-4, 6)
    else:
        base = "x%d" % rng.randrange(n)
    for _ in range(rng.randint(0, depth) if rng.random() < 0.4 else 0):
        k = rng.choice(["opp", "plus", "times", "next", "prev"])
        if k == "opp": base = "opp(%s)" % base
        elif k == "plus": base = "plus(%s,%d)" % (base, rng.randint(-3, 3))
        elif k == "times": base = "times(%s,%d)" % (base, rng.choice([-3, -2, -1, 0, 1, 2, 3]))
        elif k == "next": base = "next(%s)" % base
        else: base = "prev(%s)" % base
    return base

BASIC_KINDS = ["add", "sub", "leq", "lt", "geq", "gt", "eq", "neq", "sum", "lineq", "linle", "linne", "lineqr", "linler", "linner"]

GLOBAL_KINDS = plevel_global.KINDS
LOGIC_KINDS = plevel_logic.KINDS
ALL_KINDS = BASIC_KINDS + GLOBAL_KINDS + LOGIC_KINDS + ["alldiff", "arith", "arith"]

def rand_prop(rng, n, kinds=BASIC_KINDS, bools=()):
    k = rng.choice(kinds)
    if k in plevel_global.KINDS:
        return plevel_global.rand_prop(rng, n, k, rand_view)
    if k in plevel_logic.KINDS:
        return plevel_logic.rand_prop(rng, n, k, bools)
    if k == "arith":
        return plevel_arith.rand_prop(rng, n)
    if k == "alldiff":
        if n < 2: return "leq x0 x0"
        return "alldiff " + ",".join("x%d" % i for i in rng.sample(range(n), rng.randint(2, n)))
    xv = lambda: "x%d" % rng.randrange(n)
    if k in ("add", "sub"):
        return "%s %s %s %s" % (k, rand_view(rng, n), rand_view(rng, n), xv())
    if k in ("leq", "lt", "geq", "gt", "eq", "neq"):
        return "%s %s %s" % (k, rand_view(rng, n), rand_view(rng, n))
    if k == "sum":
        m = rng.randint(0, 3)
        return "sum %s %s" % (",".join(xv() for _ in range(m)) or "-", xv())
    if k in ("lineq", "linle", "linne"):
        m = rng.randint(1, 3)
        cs = ",".join(str(rng.choice([-3, -2, -1, 0, 1, 2, 3])) for _ in range(m))
        return "%s %s %s %d" % (k, cs, ",".join(xv() for _ in range(m)), rng.randint(-6, 10))
    if k in ("lineqr", "linler", "linner"):
        if not bools: return rand_prop(rng, n, [x for x in kinds if not x.endswith("r")] or ["leq"], bools)
        m = rng.randint(1, 3)
        cs = ",".join(str(rng.choice([-2, -1, 0, 1, 2, 3])) for _ in range(m))
        return "%s %s %s %d x%d" % (k, cs, ",".join(xv() for _ in range(m)), rng.randint(-4, 8), rng.choice(bools))
    raise ValueError(k)

def rand_model(rng, kinds=BASIC_KINDS, maxvars=5, maxprops=4, maxprod=4000):
    while True:
        n = rng.randint(1, maxvars)
        doms, bools = [], []
        for i in range(n):
            if rng.random() < 0.2:
                doms.append("0..1"); bools.append(i)
            else:
                doms.append(rand_dom(rng))
        prod = 1
        for d in doms: prod *= dom_size(d)
        if prod <= maxprod: break
    props = [rand_prop(rng, n, kinds, tuple(bools)) for _ in range(rng.randint(0, maxprops))]
    return n, doms, props

def subsets(universe):
    out = []
    for r in range(1, len(universe) + 1):
        for c in itertools.combinations(universe, r):
            out.append(",".join(map(str, c)))
    return out
