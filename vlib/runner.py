"""Generic gate logic (DESIGN.md section 5): proof gate, correspondence gate, failing-input
search, known findings, evidence."""
import json, os, random, sys, time
from . import core
from .core import log

def evidence_path(pid):
    if core.REPO != "/repo":       # pre-testing a seeded change in a scratch worktree: never touch the committed evidence
        return os.path.join(core.ROOT, ".build", "evidence_pretest", pid + ".json")
    return os.path.join(core.ROOT, "evidence", pid + ".json")

class Run:
    def __init__(self, pid, tier, seed, spec):
        self.pid, self.tier, self.seed, self.spec = pid, tier, seed, spec
        self.t0 = time.time()
        self.violations = []          # (replay_path, text, found_input)
        self.known_seen = {}          # class -> count
        self.cov = {"evaluations": 0, "distinct_nontrivial": 0, "samples": [], "families": {}}
        self.corr_breaks = []         # (family, case, impl, model)
        self.notes = []

    # ---- verdict helpers
    def violation(self, payload, found):
        p = core.write_replay(self.pid, payload)
        self.violations.append((p, found))

    def finish(self, proof):
        pid = self.pid
        known = getattr(self, "known_entries", None) or core.load_known(pid)
        # correspondence broken without any failing input: report, naming what no longer checks
        if self.corr_breaks and not any(f for _, f in self.violations):
            fam, case, impl, model = self.corr_breaks[0]
            self.violation({"property": pid, "kind": "correspondence-broken", "family": fam, "case": case,
                            "implementation": impl, "model": model, "count": len(self.corr_breaks),
                            "explanation": "model and implementation disagree on this case; the property's own oracle found no failing input"}, False)
        ev = {
            "property_id": pid, "tier": self.tier, "seed": self.seed, "level": "proof",
            "coverage": {
                "obligations": len(proof["theorems"]) + len(self.cov["families"]),
                "discharged": (len(proof["theorems"]) if proof["ok"] else 0) + sum(1 for f in self.cov["families"].values() if f.get("ok")),
                "checker_cmd": "make -C coq Properties/%s.vo (coqc 8.16.1, full .vo build) + coqc Print Assumptions; ./check %s --tier %s" % (pid, pid, self.tier),
                "trusted_base": self.spec.TRUSTED_BASE + ["Print Assumptions: %d theorem(s) closed under the global context; axioms: %s" % (proof["closed"], proof["axioms"] or "none")],
                "theorems": proof["theorems"],
                "evaluations": self.cov["evaluations"],
                "distinct_nontrivial": self.cov["distinct_nontrivial"],
                "rule": getattr(self.spec, "RULE", ""),
                "samples": self.cov["samples"][:12],
                "families": self.cov["families"],
                "exhaustive": all(f.get("exhaustive") for f in self.cov["families"].values()) if self.cov["families"] else False,
                "known_findings_seen": self.known_seen,
            },
            "assumptions": self.spec.ASSUMPTIONS,
            "wall_s": round(time.time() - self.t0, 2),
            "violations": len(self.violations),
        }
        os.makedirs(os.path.dirname(evidence_path(pid)), exist_ok=True)
        json.dump(ev, open(evidence_path(pid), "w"), indent=1)
        for k in known:
            if k["state"] == "open" and self.known_seen.get(k["cls"], 0) > 0:
                origin = k.get("pid", pid)
                text = k["text"] if k["text"].strip().lower() != "same" else "same finding in another family"
                note = "" if origin == pid else " [recorded under %s in known_findings.txt; it shows in this check's families too]" % origin
                print("KNOWN-FINDING: property=%s class=%s %s%s" % (pid, k["cls"], text, note))
        if self.violations:
            # prefer a violation with a concrete failing input
            self.violations.sort(key=lambda v: not v[1])
            p, found = self.violations[0]
            print("VIOLATION property=%s replay=%s%s" % (pid, p, "" if found else " no-failing-input-found"))
            return 1
        return 0

def run_family(run, fam, cases, known_classes):
    """Run one family on the given cases. Returns dict of counts."""
    hexe, dexe = core.harness_exe(), core.driver_exe()
    t0 = time.time()
    impl = core.run_lines(hexe, fam.sub, cases, env=fam.env)
    t1 = time.time()
    # families that judge the implementation only (no correspondence: split returns no model part) may skip the model run
    model = [None] * len(cases) if getattr(fam, "no_model", False) else core.run_lines(dexe, fam.sub, cases)
    t2 = time.time()
    if getattr(fam, "prejudge", None):       # optional bulk pre-computation for prop_judge (e.g. a judge sub-command)
        fam.prejudge(cases, impl, model)
    corr = getattr(fam, "corr", None)        # optional correspondence predicate (case, impl, model_part) -> bool
    classify = getattr(fam, "classify", None)  # optional known-class refinement (case, impl, cls) -> cls
    st = {"cases": len(cases), "nontrivial": 0, "corr_mismatch": 0, "spec_fail": 0, "known": 0, "ok": True,
          "exhaustive": bool(fam.exhaustive and run.tier in getattr(fam, "exhaustive_tiers", ("quick", "thorough"))), "impl_s": round(t1 - t0, 2), "model_s": round(t2 - t1, 2)}
    seen_nt = set()
    for case, il, ml in zip(cases, impl, model):
        il = fam.normal(il if il is not None else "MISSING")
        if ml == "HANG":
            # the EXTRACTED MODEL did not answer this line within the per-line limit of the line-by-line rerun (core.run_lines:
            # a shard of the driver was too slow as a whole): an infrastructure time-out, not an answer of the model — the case
            # is counted and left out of the comparison (it cannot be held against the implementation)
            st["model_timeouts"] = st.get("model_timeouts", 0) + 1
            continue
        mpart, spart, cls = fam.split(ml if ml is not None else "MISSING")
        if classify:
            cls = classify(case, il, cls)
        if fam.nontrivial(case, il):
            seen_nt.add(case)
        corr_ok = corr(case, il, mpart) if corr else ((mpart is None) or (il == mpart))
        if spart is None:
            why = None
        elif fam.prop_judge:
            why = fam.prop_judge(case, il, spart)
        else:
            why = None if il == spart else "implementation differs from the specification"
        if why is not None:
            scope = getattr(fam, "scope_classes", None) or {}
            if cls is not None and cls in scope and scope[cls](case, il):
                # outside the property's scope: the case is a DOCUMENTED invalid input and the implementation gave the documented
                # answer for it (e.g. zero in a divisor's domain -> Err(InvalidConstraint), C17); nothing is held against it
                st["out_of_scope"] = st.get("out_of_scope", 0) + 1
            elif cls is not None and cls in known_classes:
                st["known"] += 1
                run.known_seen[cls] = run.known_seen.get(cls, 0) + 1
            else:
                st["spec_fail"] += 1
                st["ok"] = False
                if st["spec_fail"] <= 3:
                    run.violation({"property": run.pid, "kind": "failing-input", "family": fam.name, "sub": fam.sub,
                                   "case": case, "implementation": il, "specification": spart, "model": mpart,
                                   "class": cls, "why": why, "seed": run.seed}, True)
        if not corr_ok:
            st["corr_mismatch"] += 1
            st["ok"] = False
            if len(run.corr_breaks) < 20:
                run.corr_breaks.append((fam.name, case, il, mpart))
    st["nontrivial"] = len(seen_nt)
    # input distribution (what the generator actually produced) and outcome classes, for the evidence file
    from collections import Counter
    ops, outs, sizes = Counter(), Counter(), Counter()
    step = max(1, len(cases) // 20000)
    for case, il in list(zip(cases, impl))[::step]:
        parts = [p.strip() for p in case.split(";") if p.strip()]
        sizes[min(len(parts), 12)] += 1
        for p in parts[1:]:
            ops[p.split()[0] if p.split() else "?"] += 1
        outs[(il or "MISSING").split(" ")[0][:12]] += 1
    st["distribution"] = {"sampled_every": step, "parts_per_case": dict(sorted(sizes.items())),
                          "op_kinds": dict(ops.most_common(40)), "outcome_classes": dict(outs.most_common(12))}
    run.cov["evaluations"] += len(cases)
    run.cov["distinct_nontrivial"] += len(seen_nt)
    for c, i in list(zip(cases, impl))[:: max(1, len(cases) // 3)][:3]:
        run.cov["samples"].append({"family": fam.name, "case": c, "implementation": (i or "")[:300]})
    run.cov["families"][fam.name] = st
    return st

def main_check(pid, spec, tier, seed, replay=None):
    run = Run(pid, tier, seed, spec)
    rng = random.Random(seed)
    with core.Lock():
        ok, out = core.gen_consts()
        if not ok:
            log("gen_consts failed:\n" + out)
            run.notes.append("gen_consts failed")
        proof = None
        for pf in getattr(spec, "PROPERTY_FILES", [pid]):
            r = core.proof_gate(pf)
            if proof is None:
                proof = r
            else:
                proof = {"ok": proof["ok"] and r["ok"], "theorems": proof["theorems"] + r["theorems"],
                         "closed": proof["closed"] + r["closed"], "axioms": sorted(set(proof["axioms"]) | set(r["axioms"])),
                         "log": proof["log"] if not proof["ok"] else r["log"]}
        if not proof["ok"]:
            log("PROOF GATE FAILED for %s:\n%s" % (pid, proof["log"]))
        okd, outd = core.build_driver()
        if not okd:
            log("driver build failed:\n" + outd[-4000:])
        okh, outh = core.build_harness()
        if not okh:
            log("harness build failed:\n" + outh[-4000:])
    known = core.load_known(pid)
    # a check that serves several properties (vlib/props/routes.py) lists them in KNOWN_PIDS: take their entries that
    # name one of this check's families; classes listed in SHARED_CLASSES are honoured without their witnesses
    fam_names = {f.name for f in spec.FAMILIES}
    for other in getattr(spec, "KNOWN_PIDS", []):
        if other != pid:
            for k in core.load_known(other):
                if k["family"] in fam_names:
                    known.append(dict(k, pid=other))
                elif k["cls"] in getattr(spec, "SHARED_CLASSES", ()):
                    known.append(dict(k, pid=other, witness=None))
    run.known_entries = known
    known_classes = {k["cls"] for k in known if k["state"] == "open"}
    if replay:
        return do_replay(run, spec, replay, known_classes)
    if not okh or not okd:
        run.violation({"property": pid, "kind": "build-broken", "what": "harness" if not okh else "driver",
                       "log": (outh if not okh else outd)[-3000:],
                       "explanation": "the correspondence cannot be run against the current tree"}, False)
        return run.finish(proof)
    # known-finding witnesses first, then corpus, then generated families
    for fam in spec.FAMILIES:
        cases = []
        for k in known:
            if k["state"] == "open" and k["witness"] and (k["family"] in (None, fam.name)) and (k["family"] == fam.name or getattr(fam, "takes_witnesses", True)):
                cases.append(k["witness"])
        cp = os.path.join(core.ROOT, "corpus", fam.sub + "." + fam.name + ".cases")
        if os.path.exists(cp):
            cases += [l.strip() for l in open(cp) if l.strip() and not l.startswith("#")]
        gen = fam.gen(tier, random.Random(rng.random()))
        seen = set(cases)
        for c in gen:
            if c not in seen:
                seen.add(c); cases.append(c)
        st = run_family(run, fam, cases, known_classes)
        log("[%s/%s] %s" % (pid, fam.name, st))
    pre = getattr(spec, "inventory_break", None)
    if pre:
        why = pre()
        if why:
            log("INVENTORY: " + why)
            run.corr_breaks.append(("inventory", why, "", ""))
    if not proof["ok"]:
        # a theorem no longer checks: the families above were the search for a failing input
        run.violation({"property": pid, "kind": "proof-broken", "theorems": proof["theorems"], "log": proof["log"][-3000:],
                       "explanation": "a proof obligation of this property no longer checks (see log)"}, False)
    return run.finish(proof)

def do_replay(run, spec, path, known_classes):
    payload = json.load(open(path))
    fams = {f.name: f for f in spec.FAMILIES}
    fam = fams.get(payload.get("family"))
    if fam is None or "case" not in payload:
        print("replay file names no runnable case (kind=%s): %s" % (payload.get("kind"), payload.get("explanation", "")))
        return 1
    case = payload["case"]
    impl = core.run_lines(core.harness_exe(), fam.sub, [case], env=fam.env)[0]
    model = core.run_lines(core.driver_exe(), fam.sub, [case])[0]
    mpart, spart, cls = fam.split(model)
    impl = fam.normal(impl)
    if getattr(fam, "classify", None):
        cls = fam.classify(case, impl, cls)
    print("case:           " + case)
    print("implementation: " + impl)
    print("model:          " + str(mpart))
    print("specification:  " + str(spart) + (" [class %s]" % cls if cls else ""))
    bad = False
    if spart is not None:
        why = fam.prop_judge(case, impl, spart) if fam.prop_judge else (None if impl == spart else "differs")
        if why is not None:
            bad = True
            print("property fails on this input: " + why)
    corr = getattr(fam, "corr", None)
    if mpart is None and not corr:
        pass                                  # oracle-only family: nothing to compare
    elif (not corr(case, impl, mpart)) if corr else (impl != mpart):
        bad = True
        print("model and implementation disagree on this input")
    if bad:
        print("VIOLATION property=%s replay=%s" % (run.pid, path))
        return 1
    print("no failure on the current tree")
    return 0
