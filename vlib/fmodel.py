"""Shared machinery for the float / mixed properties C06, C07, C08: case-line grammar of the `solvef` /
`lowerf` sub-commands (harness/src/fsolve.rs), exact-rational reading of a case, tolerance, judges.

Every number is decoded from its f64 bit pattern into a fractions.Fraction; nothing is judged in floating point.

TOLERANCE (derived from the code, not chosen): the float setters Context::try_set_min/max (views.rs:215-269, 356-444)
accept a bound v without changing the interval in exactly these situations
   (a) interval already narrower than step/2 and |v - bound| < ptol          ptol = max(3*step, 1e-5*|other bound|)
   (b) v beyond the opposite bound by no more than ptol ("precision error")   (beyond by <= step: max := min)
   (c) v within step/2 of the current bound
and otherwise move the bound to ceil(v/step)*step / floor(v/step)*step (clamped to the opposite bound).  A reported
solution is a store in which every propagator has run without change on final domains of width < 1.5*step
(is_fixed = round(width/step) <= 1) and the value reported for a float variable is its interval MINIMUM.  Hence for
a row  sum c_j x_j <= K  enforced by FloatLinLe (or LessThanOrEquals / Eq / FloatLinEq, which use the same setters):
      sum c_j x_j  <=  K + max_i |c_i|*ptol_i + sum_j |c_j|*1.5*step          (exact arithmetic)
with ptol_i <= max(3*step, 1e-5*B_i), B_i = largest magnitude inside the declared bounds of x_i.  We use the slightly
weaker closed form
      tol(row) = sum_{j float} |c_j| * (5*step + 1e-5*B_j)  +  2^-40 * (|K| + sum_j |c_j|*B_j)
(the last term covers the f64 rounding of the accumulation, which is below 2^-50 relative per operation).
Integer variables contribute nothing to the first term: they are exact.  A row with integer coefficients over integer
variables only has tol = 0.
Strict rows are judged as non-strict ones (the code lowers `<` to `<= K - step`); `!=` rows are judged exactly.
Bounds: a float value must lie in [lo - step, hi + step]; an int value must be a member of its declared range.

ARITHMETIC AND ELEMENT ROUTES (posts `arith ...`, `elem ...`, non-linear `new ...`).  The result handle returned by
m.add / sub / mul / div / abs / min / max / sum is printed as one more variable; the judge demands  z = f(operands)
within a tolerance derived from the same setters.  Notation (all exact rationals, at the reported point):
   W      = 3/2*step   a fixed float interval has round(width/step) <= 1 (float_interval.rs:161-182), the reported value is
                       its minimum, so the other end is less than W away;   w(v) = W for a float variable, 0 for an
                       integer variable or a constant operand
   P(s)   = max(3*step, 1e-5*(|s| + W)) for a float result s, 0 for an integer result (an integer variable takes
                       ceil / floor of a float bound: views.rs try_set_min/max, VarI x ValF arms)
A solution is a store on which the LAST run of every propagator changed nothing (search/mod.rs:693-729: a propagator
is rescheduled whenever a variable it watches changes, itself included).  From the case analysis above, a call
s.try_set_min(v) that neither fails nor changes s implies  v <= s.max + ptol <= s + w(s) + P(s),  and a call
s.try_set_max(v) implies  v >= s.min - ptol = s - P(s).  Every arithmetic propagator begins with
   s.try_set_min(LOW) ; s.try_set_max(HIGH)
where LOW / HIGH are the f64 lower / upper end of f over the operand BOXES (each operand ranges over [x, x + w(x)]);
f(x) itself lies between the exact LOW and HIGH, and HIGH - LOW <= spread_f := sup |f(x') - f(x)| over the box.  Hence
        -(spread_f + P(s))  <=  f(x) - s  <=  spread_f' + w(s) + P(s)
and the judge uses   tol_f = spread_f + w(s) + P(s) + 2^-40*(|s| + sum |operands|)   (the last term: f64 rounding), with
   add, sub, sum (props/add.rs:35-37, sum.rs:20-31; sub = add over the view y*(-1)):   spread = sum_i w(x_i)
   mul  (props/mul.rs:23-42, corner products):            spread = w(x)*(|y| + w(y)) + w(y)*|x|
   div  (props/div.rs:22-74, corner quotients, nothing is enforced when the divisor interval touches
         [-2.2e-16, 2.2e-16]; the row is judged only if |y| > 2*W):   spread = (w(x) + |x/y|*w(y)) / (|y| - w(y))
   abs  (props/abs.rs:27-79):                             spread = w(x)
   min, max (props/min.rs:33-58, max.rs):                 spread = max_i w(x_i)
   element (props/element.rs:217-262): the index is an integer in 0..n-1 (exact) and the intervals of array[index] and of
         the result intersect (tested without tolerance at :236), so  |array[index] - result| <= max(w(a), w(r))  (+ the
         2^-40 relative slack); no P term.
Results whose operands are all integers (and are integer variables themselves) have every term 0: judged exactly
(m.div always creates a float result: api/arithmetic.rs:104-146).
A NON-LINEAR fluent constraint  e1 rel e2  (runtime_api/mod.rs:1036-1150) is lowered to one hidden auxiliary variable per
inner node (bounds by interval arithmetic, expr_bounds) tied by the same Add / Mul / Div propagators, constants become
single-valued variables, and the two roots are compared by LessThanOrEquals / Eq ... .  The hidden values are not
reported, so the judge propagates an error bound bottom-up:  err(leaf) = 0,
   err(a+b) = (err a + err b + spread + w + P(|t|+..))  etc. with |operand| replaced by |t_operand| + err(operand),
t = the exact value of the sub-expression at the reported point, and accepts the comparison when
   t1 - t2  rel  0   within   err(e1) + err(e2) + sum over float roots (5*step + 1e-5*(|t| + err))   (the comparison's own
tolerance, as for linear rows).  A division whose divisor may be within 2*W of zero is not judged."""
import math, random, struct
from fractions import Fraction

K_STEP = 5
REL = Fraction(1, 100000)
EPS_REL = Fraction(1, 2 ** 40)

def f2h(x):
    return "%016x" % struct.unpack("<Q", struct.pack("<d", float(x)))[0]
def h2f(h):
    return struct.unpack("<d", struct.pack("<Q", int(h, 16)))[0]
def h2q(h):
    x = h2f(h)
    if math.isnan(x) or math.isinf(x):
        return None
    return Fraction(x)
def step_of(prec):
    """precision_to_step_size (float_interval.rs:6-24): the f64 literal 1e-p for p in 1..12, 1e-6 otherwise"""
    return float("1e-%d" % prec) if 1 <= prec <= 12 else 1e-6

# ------------------------------------------------------------------------------------------------ parsing
class Row:
    """one posted constraint in exact-rational reading: sum coeffs[v]*x_v  rel  const ; rel in le lt ge gt eq ne.
    kind: lin ilin new props conv ; route text kept for classification"""
    def __init__(self, rel, coeffs, const, route, text, linear=True, extra=None):
        self.rel, self.coeffs, self.const, self.route, self.text, self.linear, self.extra = rel, coeffs, const, route, text, linear, extra
    def vars(self):
        return sorted(self.coeffs)

def _split_top(s):
    out, depth, start = [], 0, 0
    for i, ch in enumerate(s):
        if ch == "(": depth += 1
        elif ch == ")": depth -= 1
        elif ch == "," and depth == 0:
            out.append(s[start:i]); start = i + 1
    out.append(s[start:])
    return out

def _lin_expr(s):
    """expr -> (coeffs dict, const, all_int_syntax) ; None if not linear.  all_int_syntax mirrors
    try_extract_linear_form: True iff no float literal occurs (every coefficient and constant is LinearCoefficient::Int)."""
    s = s.strip()
    if s.startswith("x") and s[1:].isdigit():
        return {int(s[1:]): Fraction(1)}, Fraction(0), True
    if s.startswith("f:"):
        return {}, h2q(s[2:]), False
    try:
        return {}, Fraction(int(s)), True
    except ValueError:
        pass
    op = s[:s.index("(")]
    a, b = _split_top(s[s.index("(") + 1:-1])
    la, lb = _lin_expr(a), _lin_expr(b)
    if la is None or lb is None:
        return None
    (ca, ka, ia), (cb, kb, ib) = la, lb
    if op in ("add", "sub"):
        sg = 1 if op == "add" else -1
        c = dict(ca)
        for v, q in cb.items():
            c[v] = c.get(v, Fraction(0)) + sg * q
        return c, ka + sg * kb, ia and ib
    if op == "mul":
        if not ca:
            return {v: q * ka for v, q in cb.items()}, ka * kb, ia and ib
        if not cb:
            return {v: q * kb for v, q in ca.items()}, ka * kb, ia and ib
        return None
    return None

def _fv(tok):
    """props-level operand -> (coeffs, const, strict_next)"""
    nxt = False
    if tok.startswith("next("):
        nxt, tok = True, tok[5:-1]
    if tok.startswith("f:"): return {}, h2q(tok[2:]), nxt
    if tok.startswith("i:"): return {}, Fraction(int(tok[2:])), nxt
    return {int(tok[1:]): Fraction(1)}, Fraction(0), nxt

class Case:
    def __init__(self, line):
        self.line = line
        parts = [p.strip() for p in line.split(";")]
        self.prec = int(parts[0])
        self.step = Fraction(step_of(self.prec))
        self.decls = []                      # (kind 'F'|'I', lo Fraction, hi Fraction)
        for d in parts[1].split("|"):
            t = d.split()
            if t[0] == "F": self.decls.append(("F", h2q(t[1]), h2q(t[2])))
            elif t[0] == "I": self.decls.append(("I", Fraction(int(t[1])), Fraction(int(t[2]))))
            elif t[0] == "B": self.decls.append(("I", Fraction(0), Fraction(1)))
        self.rows, self.entry, self.flags, self.timeout = [], ["solve"], set(), 3000
        self.derived = set()                 # indexes of result handles (arith posts): no declared bounds of their own
        for p in parts[2:]:
            t = p.split()
            if not t: continue
            if t[0] in ("lin", "ilin"):
                dec = h2q if t[0] == "lin" else (lambda s: Fraction(int(s)))
                cs = [] if t[2] == "-" else [dec(c) for c in t[2].split(",")]
                xs = [] if t[3] == "-" else [int(x[1:]) for x in t[3].split(",")]
                co = {}
                ab = {}
                for c, x in zip(cs, xs): co[x] = co.get(x, Fraction(0)) + c; ab[x] = ab.get(x, Fraction(0)) + abs(c)
                self.rows.append(Row(t[1], co, dec(t[4]), t[0], p, extra={"abs": ab}))
            elif t[0] == "new":
                import re as _re      # ExprBuilder::mul folds x*1 (integer literal 1) at build time
                t = [t[0], _re.sub(r"mul\(1,(x\d+)\)", r"\1", _re.sub(r"mul\((x\d+),1\)", r"\1", t[1]))]
                op = t[1][:t[1].index("(")]
                a, b = _split_top(t[1][t[1].index("(") + 1:-1])
                la, lb = _lin_expr(a), _lin_expr(b)
                if la is None or lb is None:
                    import re as _re2
                    co = {int(v): Fraction(1) for v in _re2.findall(r"x(\d+)", t[1])}
                    self.rows.append(Row(op, co, Fraction(0), "new", p, linear=False, extra={"lhs": a.strip(), "rhs": b.strip()})); continue
                co = dict(la[0])
                for v, q in lb[0].items(): co[v] = co.get(v, Fraction(0)) - q
                self.rows.append(Row(op, co, lb[1] - la[1], "new", p, extra={"all_int": la[2] and lb[2], "lhs": a.strip(), "rhs": b.strip()}))
            elif t[0] == "props":
                if t[1] in ("flineq", "flinle", "flinne"):
                    cs = [h2q(c) for c in t[2].split(",")]; xs = [int(x[1:]) for x in t[3].split(",")]
                    co = {}
                    for c, x in zip(cs, xs): co[x] = co.get(x, Fraction(0)) + c
                    self.rows.append(Row(t[1][4:], co, h2q(t[4]), "props", p))
                else:
                    (ca, ka, na), (cb, kb, nb) = _fv(t[2]), _fv(t[3])
                    co = dict(ca)
                    for v, q in cb.items(): co[v] = co.get(v, Fraction(0)) - q
                    rel = {"leq": "le", "lt": "lt", "geq": "ge", "gt": "gt", "eq": "eq"}[t[1]]
                    self.rows.append(Row(rel, co, kb - ka, "props", p))
            elif t[0] == "conv":
                self.rows.append(Row(t[1], {int(t[2][1:]): Fraction(1), int(t[3][1:]): Fraction(-1)}, Fraction(0), "conv", p, linear=False,
                                     extra={"a": int(t[2][1:]), "b": int(t[3][1:])}))
            elif t[0] == "arith":
                op = t[1]
                if op in ("add", "sub", "mul", "div"): args = [self._opd(t[2]), self._opd(t[3])]
                elif op == "abs": args = [self._opd(t[2])]
                else: args = [("v", int(x[1:])) for x in t[2].split(",")]
                res = len(self.decls)
                self.decls.append(self._result_decl(op, args)); self.derived.add(res)
                co = {a[1]: Fraction(1) for a in args if a[0] == "v"}; co[res] = Fraction(-1)
                self.rows.append(Row("arith", co, Fraction(0), "arith", p, linear=False, extra={"op": op, "args": args, "res": res}))
            elif t[0] in ("elem", "elemi", "elemx"):
                ix, arr, res = int(t[1][1:]), [int(x[1:]) for x in t[2].split(",")], int(t[3][1:])
                co = {v: Fraction(1) for v in arr}; co[ix] = Fraction(1); co[res] = Fraction(-1)
                self.rows.append(Row("elem", co, Fraction(0), "elem", p, linear=False, extra={"ix": ix, "arr": arr, "res": res}))
            elif t[0] in ("solve", "min", "max"): self.entry = t
            elif t[0] in ("lp", "fp"): self.flags.add(t[0])
            elif t[0] == "to": self.timeout = int(t[1])
    def _opd(self, tok):
        if tok.startswith("f:"): return ("c", h2q(tok[2:]), True)
        if tok.startswith("i:"): return ("c", Fraction(int(tok[2:])), False)
        return ("v", int(tok[1:]))
    def _box(self, a):
        """operand -> (lo, hi, is_float) from the declared / derived bounds"""
        if a[0] == "c": return a[1], a[1], a[2]
        k, lo, hi = self.decls[a[1]]
        return lo, hi, k == "F"
    def _result_decl(self, op, args):
        """kind and bounds Model::add/sub/mul/div/abs/min/max/sum give the result variable (api/arithmetic.rs), in exact
        rationals (the f64 rounding of these bounds is irrelevant here: they serve as magnitudes B_j in tol(row) and for
        the generator); the kind is int iff the code's two bound values are both Val::ValI"""
        bx = [self._box(a) for a in args]
        anyf = any(b[2] for b in bx)
        if op == "add": lo, hi = bx[0][0] + bx[1][0], bx[0][1] + bx[1][1]
        elif op == "sub": lo, hi = bx[0][0] - bx[1][1], bx[0][1] - bx[1][0]
        elif op == "mul":
            c = [x * y for x in bx[0][:2] for y in bx[1][:2]]; lo, hi = min(c), max(c)
        elif op == "div":
            c = [x / y for x in bx[0][:2] for y in bx[1][:2] if y != 0]
            lo, hi = (min(c), max(c)) if c else (Fraction(-1000), Fraction(1000))
            anyf = True
        elif op == "abs":
            l, h = bx[0][0], bx[0][1]
            lo = l if l >= 0 else (-h if h <= 0 else Fraction(0)); hi = max(abs(l), abs(h))
        elif op == "sum":
            lo, hi = sum(b[0] for b in bx), sum(b[1] for b in bx)
        else:
            # min / max / fmin / fmax: a strict comparison keeps the FIRST of equal values, the kind of each bound is the kind
            # of the variable that supplied it
            pick = (lambda cur, new: new < cur) if op in ("min", "fmin") else (lambda cur, new: new > cur)
            blo = bhi = None
            for b in bx:
                if blo is None or pick(blo[0], b[0]): blo = (b[0], b[2])
                if bhi is None or pick(bhi[0], b[1]): bhi = (b[1], b[2])
            lo, hi = blo[0], bhi[0]; anyf = blo[1] or bhi[1]
        return ("F" if anyf else "I", lo, hi)
    def is_float(self, v): return self.decls[v][0] == "F"
    def bmag(self, v): return max(abs(self.decls[v][1]), abs(self.decls[v][2]))
    def tol(self, row):
        """the derived tolerance of the module docstring"""
        t = Fraction(0); mag = abs(row.const)
        ab = (row.extra or {}).get("abs", {})      # a variable posted twice is quantised once per posted TERM
        for v, c in row.coeffs.items():
            ac = ab.get(v, abs(c))
            mag += ac * self.bmag(v)
            if self.is_float(v):
                t += ac * (K_STEP * self.step + REL * self.bmag(v))
        exact_ints = row.route == "ilin" or (row.route == "new" and row.extra and row.extra.get("all_int")) or (row.route == "props" and row.text.split()[1] in ("leq", "lt", "geq", "gt", "eq"))
        if t == 0 and exact_ints:
            return Fraction(0)          # integer coefficients over integer variables: exact
        return t + EPS_REL * mag

def parse_impl(impl):
    """'ok v,v,.. lp=k' -> ('ok', [Fraction|int ...], kinds, lp) ; 'err Name lp=k' -> ('err', name, None, lp)"""
    t = impl.split()
    lp = 1 if t and t[-1] == "lp=1" else 0
    if not t: return ("bad", impl, None, lp)
    if t[0] == "ok":
        vals, kinds = [], []
        for tok in t[1].split(","):
            if tok.startswith("F"):
                vals.append(h2q(tok[1:])); kinds.append("F")
            else:
                vals.append(Fraction(int(tok))); kinds.append("I")
        return ("ok", vals, kinds, lp)
    if t[0] == "err": return ("err", t[1], None, lp)
    return ("bad", impl, None, lp)

# ------------------------------------------------------------------------------------------------ judging a point
def row_violation(case, row, x):
    """None if the row holds at point x within case.tol(row); else a reason string"""
    if row.route == "conv":
        a, b = x[row.extra["a"]], x[row.extra["b"]]
        t = K_STEP * case.step + REL * max(abs(a), abs(b), 1)
        if row.rel == "i2f": ok = abs(a - b) <= t
        elif row.rel == "floor": ok = (b <= a + t) and (a < b + 1 + t)
        elif row.rel == "ceil": ok = (b - 1 < a + t) and (a <= b + t)
        else: ok = (b - Fraction(1, 2) <= a + t) and (a < b + Fraction(1, 2) + t)
        return None if ok else "conversion %s violated: a=%s b=%s" % (row.rel, float(a), float(b))
    if row.route == "arith":
        return arith_violation(case, row, x)
    if row.route == "elem":
        return elem_violation(case, row, x)
    if row.route == "new" and not row.linear:
        return nonlinear_violation(case, row, x)
    if not row.linear:
        return None
    lhs = sum((c * x[v] for v, c in row.coeffs.items()), Fraction(0))
    t = case.tol(row)
    d = lhs - row.const
    rel = row.rel
    if rel in ("le", "lt"): ok = d <= t
    elif rel in ("ge", "gt"): ok = d >= -t
    elif rel == "eq": ok = abs(d) <= t
    elif rel == "ne": ok = d != 0
    else: ok = True
    if ok: return None
    return "[%s] violated: lhs-rhs = %.9g, tolerance %.3g" % (row.text, float(d), float(t))

# ---- arithmetic / element / non-linear rows (tolerances: module docstring)
def _W(case): return Fraction(3, 2) * case.step
def _P(case, s, is_float):
    return max(3 * case.step, REL * (abs(s) + _W(case))) if is_float else Fraction(0)
def _spread(case, op, vals, ws):
    """(f(vals), spread of f over the operand boxes [v, v + w]) ; None when the row is not judged (divisor near zero)"""
    if op in ("add", "sum"): return sum(vals, Fraction(0)), sum(ws, Fraction(0))
    if op == "sub": return vals[0] - vals[1], ws[0] + ws[1]
    if op == "mul": return vals[0] * vals[1], ws[0] * (abs(vals[1]) + ws[1]) + ws[1] * abs(vals[0])
    if op == "div":
        if abs(vals[1]) <= 2 * _W(case): return None
        q = vals[0] / vals[1]
        return q, (ws[0] + abs(q) * ws[1]) / (abs(vals[1]) - ws[1])
    if op == "abs": return abs(vals[0]), ws[0]
    if op in ("min", "fmin"): return min(vals), max(ws)
    if op in ("max", "fmax"): return max(vals), max(ws)
    raise ValueError(op)
def arith_tol(case, row, x):
    """(expected value, tolerance) of one `arith` post at the reported point x, or None if not judged"""
    W = _W(case)
    vals, ws = [], []
    for a in row.extra["args"]:
        if a[0] == "c": vals.append(a[1]); ws.append(Fraction(0))
        else: vals.append(x[a[1]]); ws.append(W if case.is_float(a[1]) else Fraction(0))
    r = _spread(case, row.extra["op"], vals, ws)
    if r is None: return None
    f, spread = r
    res = row.extra["res"]; s = x[res]; sf = case.is_float(res)
    tol = spread + (W if sf else 0) + _P(case, s, sf)
    if tol != 0 or row.extra["op"] == "div":
        tol += EPS_REL * (abs(s) + sum((abs(v) for v in vals), Fraction(0)))
    return f, tol
def arith_violation(case, row, x):
    r = arith_tol(case, row, x)
    if r is None: return None
    f, tol = r
    s = x[row.extra["res"]]
    if abs(s - f) <= tol: return None
    return "[%s] violated: result x%d = %.12g, %s of the operands = %.12g, difference %.6g, tolerance %.3g" % (
        row.text, row.extra["res"], float(s), row.extra["op"], float(f), float(s - f), float(tol))
def elem_violation(case, row, x):
    ix, arr, res = x[row.extra["ix"]], row.extra["arr"], row.extra["res"]
    if ix.denominator != 1 or not (0 <= ix < len(arr)):
        return "[%s] violated: index x%d = %s is not an integer in 0..%d" % (row.text, row.extra["ix"], ix, len(arr) - 1)
    a = arr[int(ix)]
    W = _W(case)
    tol = max(W if case.is_float(a) else 0, W if case.is_float(res) else 0)
    if tol != 0: tol += EPS_REL * (abs(x[a]) + abs(x[res]))
    if abs(x[a] - x[res]) <= tol: return None
    return "[%s] violated: index %d selects x%d = %.12g, result x%d = %.12g, tolerance %.3g" % (row.text, int(ix), a, float(x[a]), res, float(x[res]), float(tol))

def _expr_eval(case, s, x):
    """sub-expression -> (t, err, is_float, is_leaf): exact value at x, bound on |hidden auxiliary value - t|, kind of the
    auxiliary variable (expr_bounds: Int iff both sides Int; a division is always Float... of two Int sides it is Int:
    runtime_api/mod.rs:970-986, judged like a float one); None = not judged"""
    s = s.strip()
    if s.startswith("x") and s[1:].isdigit():
        v = int(s[1:]); return x[v], Fraction(0), case.is_float(v), True
    if s.startswith("f:"): return h2q(s[2:]), Fraction(0), True, True
    try: return Fraction(int(s)), Fraction(0), False, True
    except ValueError: pass
    op = s[:s.index("(")]
    a, b = _split_top(s[s.index("(") + 1:-1])
    ra, rb = _expr_eval(case, a, x), _expr_eval(case, b, x)
    if ra is None or rb is None: return None
    (ta, ea, fa, la), (tb, eb, fb, lb) = ra, rb
    W = _W(case)
    isf = fa or fb
    # interval of an operand node: [aux, aux + w] with |aux - t| <= e  ->  magnitude |t| + e, width w
    wa = W if fa and not (la and _plain_const(a.strip())) else Fraction(0)
    wb = W if fb and not (lb and _plain_const(b.strip())) else Fraction(0)
    ma, mb = abs(ta) + ea, abs(tb) + eb
    if op in ("add", "sub"):
        t = ta + tb if op == "add" else ta - tb
        base = ea + eb; spread = wa + wb
    elif op == "mul":
        t = ta * tb
        base = ea * abs(tb) + eb * abs(ta) + ea * eb; spread = wa * (mb + wb) + wb * ma
    elif op == "div":
        if abs(tb) - eb <= 2 * W: return None
        t = ta / tb
        lowb = abs(tb) - eb
        base = (ea + abs(t) * eb) / lowb; spread = (wa + (ma / lowb) * wb) / (lowb - wb)
        if not isf:
            # Int / Int: the auxiliary variable is an integer one with bounds floor..ceil of the quotient; Div writes the f64
            # quotient bounds through ceil / floor: the integer must lie within 1 of the quotient
            return t, base + spread + 1, False, False
    else:
        return None
    ws = W if isf else Fraction(0)
    e0 = base + spread + ws
    if isf:
        # P(s) <= max(3*step, 1e-5*(|t| + e + W)) with e the total error: solve  e = e0 + 3*step + 1e-5*(|t| + e + W)
        e = (e0 + 3 * case.step + REL * (abs(t) + W)) / (1 - REL)
    else:
        e = e0
    e += EPS_REL * (abs(t) + ma + mb)
    return t, e, isf, False
def nonlinear_violation(case, row, x):
    ra, rb = _expr_eval(case, row.extra["lhs"], x), _expr_eval(case, row.extra["rhs"], x)
    if ra is None or rb is None: return None
    (ta, ea, fa, _), (tb, eb, fb, _) = ra, rb
    tol = ea + eb
    for t, e, f in ((ta, ea, fa), (tb, eb, fb)):
        if f: tol += K_STEP * case.step + REL * (abs(t) + e)
    if tol != 0: tol += EPS_REL * (abs(ta) + abs(tb))
    d = ta - tb
    rel = row.rel
    if rel in ("le", "lt"): ok = d <= tol
    elif rel in ("ge", "gt"): ok = d >= -tol
    elif rel == "eq": ok = abs(d) <= tol
    elif rel == "ne": ok = (d != 0) or tol != 0
    else: ok = True
    if ok: return None
    return "[%s] violated: lhs-rhs = %.9g at the reported point, tolerance %.3g" % (row.text, float(d), float(tol))

def point_violations(case, vals, kinds):
    out = []
    if len(vals) != len(case.decls):
        return ["wrong number of values"]
    for i, ((k, lo, hi), v, kk) in enumerate(zip(case.decls, vals, kinds)):
        if v is None:
            out.append("x%d is not finite" % i); continue
        if k == "I":
            if kk != "I" or v.denominator != 1 or not (lo <= v <= hi):
                out.append("int variable x%d = %s outside its declared domain %s..%s or not an integer" % (i, v, lo, hi))
        else:
            if kk != "F":
                out.append("float variable x%d reported as an integer" % i)
            if not (lo - case.step <= v <= hi + case.step):
                out.append("x%d = %.12g outside its declared bounds [%.12g, %.12g] (+- step)" % (i, float(v), float(lo), float(hi)))
    if out: return out
    for r in case.rows:
        w = row_violation(case, r, vals)
        if w: out.append(w)
    return out

# ------------------------------------------------------------------------------------------------ known classes (decidable on the case line)
def _plain_var(s): return s.startswith("x") and s[1:].isdigit()
def _plain_const(s): return s.startswith("f:") or s.lstrip("-").isdigit()
def lowered_float(case, r):
    """is the linear row posted as a FloatLin* propagator?  Yes iff it has a float literal (f64 coefficient or constant) or
    ranges over a float variable (since the repair "linear constraints with integer literals over float variables are posted
    as float linear constraints": LinearInt over float variables is materialised as LinearFloat, runtime_api/mod.rs)"""
    fl = any(case.is_float(v) for v in r.coeffs)
    if r.route == "lin": return True
    if r.route == "ilin": return fl
    if r.route == "new": return r.linear and (not r.extra["all_int"] or fl) and not _simple_eq(r)
    if r.route == "props": return r.text.split()[1].startswith("flin")
    return False
def _simple_eq(r):
    return r.route == "new" and r.linear and r.rel == "eq" and \
        ((_plain_var(r.extra["lhs"]) and _plain_const(r.extra["rhs"])) or (_plain_var(r.extra["rhs"]) and _plain_const(r.extra["lhs"])))
def row_class(case, r):
    """known-finding class of ONE posted constraint (syntactic predicate on the case line), or None.
    Classes repaired in /repo and therefore no longer listed: float_cmp_intlin, float_intlin_single (integer-literal linear
    constraints over float variables were posted as IntLin*), eq_val_outside (x.eq(c) moved the variable outside its bounds),
    int_in_floatlin (FloatLinLe never tightened or checked an integer variable), mixed_strict_int_succ (int variable < float
    variable used the integer successor), strict_int_float_const = int_lt_float_const (int variable < float CONSTANT: x + 1 <= c
    lost the value floor(c); c < int variable accepted x = c for an integer-valued c)."""
    fl = [v for v in r.coeffs if case.is_float(v)]
    ints = [v for v in r.coeffs if not case.is_float(v)]
    nv = len(r.coeffs)
    if r.linear and r.route in ("lin", "props", "new", "ilin") and all(abs(c) < Fraction(1, 10 ** 12) for c in r.coeffs.values()):
        return "lin_zero_coeffs"             # every coefficient is (below 1e-12, treated as) zero: the row 0 rel K is never tested (D11)
    return None

def fast_path_applies(case):
    """re-statement of the gate of Model::try_optimization_* after commit 12905e9 (model/core.rs:1756-1805): the fast path is
    consulted only for minimize/maximize, only when no constraint AST is pending, i.e. every constraint was posted at the
    props level (m.props.* / conversions, which post propagators directly)"""
    def pending(r):
        # FloatDispatch.pending_ast: m.lin_* and fluent posts leave a pending AST, except the fluent `Var == Val` / `Val == Var`
        # between a plain variable and a plain constant, which is materialised at once (runtime_api/mod.rs, post_constraint_kind)
        if r.route in ("props", "conv"): return False
        if r.route == "new" and r.linear and r.rel == "eq" and \
                ((_plain_var(r.extra["lhs"]) and _plain_const(r.extra["rhs"])) or (_plain_var(r.extra["rhs"]) and _plain_const(r.extra["lhs"]))):
            return False
        return True
    return "fp" in case.flags and case.entry[0] in ("min", "max") and not any(pending(r) for r in case.rows)

def mixed_eq_chain(case):
    """a float linear EQUALITY over integer and float variables shares a float variable with ANOTHER equality row that is
    lowered to FloatLinEq.  (What is left of the former class floatlineq_mixed after the repair "a float linear equality gives
    its integer variables the slack its float terms have": the mixed row alone is answered correctly; chained to a second
    equality whose solution is off the step grid, a value of the integer variable can still be lost during the search - x0 =
    (x2 - 2.375)/0.75 and x3 = (29 + x0)/3 at precision 3: x2 = 1 (x0 = -1.8333.., x3 = 9.0555..) is found when x2 is declared
    1..1 and lost when it is declared 1..2.  Same cause as float_eq_offgrid, symptom a wrong optimum instead of NoSolution.)"""
    eqs = [r for r in case.rows if r.linear and r.rel == "eq" and lowered_float(case, r)]
    for r in eqs:
        fl = set(v for v in r.coeffs if case.is_float(v))
        if fl and any(not case.is_float(v) for v in r.coeffs):
            for q in eqs:
                if q is not r and fl & set(v for v in q.coeffs if case.is_float(v)):
                    return True
    return False

# ------------------------------------------------------------------------------------------------ generators
NICE = [Fraction(k, 4) for k in range(-12, 13) if k != 0]
def hq(q): return f2h(float(q))

def rand_decls(rng, nv, mixed=True, wide=False):
    decls = []
    for _ in range(nv):
        if mixed and rng.random() < 0.3:
            lo = rng.randint(-3, 3); hi = lo + rng.randint(0, 5)
            decls.append("I %d %d" % (lo, hi))
        else:
            scale = rng.choice([1, 1, 1, 10, 100]) if wide else 1
            lo = Fraction(rng.randint(-20, 10), 2) * scale; hi = lo + Fraction(rng.randint(1, 30), 2) * scale
            decls.append("F %s %s" % (hq(lo), hq(hi)))
    return decls
