"""Group `Global` (count, at_least/at_most/exactly, element, table): pspec generators for the props-level tie.
Used by vlib/plevel.py (rand_prop) and vlib/props/c05.py (exhaustive templates)."""
import itertools

KINDS = ["count", "atleast", "atmost", "exactly", "element", "table"]

def rand_tuples(rng, arity, lo=-3, hi=6):
    if rng.random() < 0.05: return "-"
    k = rng.randint(1, 6)
    if arity == 0: return "/".join("e" for _ in range(k))
    return "/".join(":".join(str(rng.randint(lo, hi)) for _ in range(arity)) for _ in range(k))

def rand_prop(rng, n, k, rand_view=None):
    """one random pspec of kind k over variables x0..x(n-1); repeated variables on purpose"""
    xv = lambda: "x%d" % rng.randrange(n)
    xs = lambda lo, hi: ",".join(xv() for _ in range(rng.randint(lo, hi))) or "-"
    if k == "count":
        r = rng.random()
        if r < 0.45: t = "c:%d" % rng.randint(-2, 4)
        elif r < 0.85 or rand_view is None: t = xv()
        else: t = rand_view(rng, n)
        return "count %s %s %s" % (xs(0, 4), t, xv())
    if k in ("atleast", "atmost", "exactly"):
        return "%s %s %d %d" % (k, xs(0, 4), rng.randint(-2, 4), rng.randint(-1, 4))
    if k == "element":
        return "element %s %s %s" % (xs(0, 4), xv(), xv())
    if k == "table":
        m = rng.randint(0, 3)
        vs = ",".join(xv() for _ in range(m)) or "-"
        return "table %s %s" % (vs, rand_tuples(rng, m))
    raise ValueError(k)

# exhaustive templates: (number of variables, pspec)
def templates(tier):
    t = []
    # count
    for k in (0, 1, 3):
        t.append((3, "count x0,x1 c:%d x2" % k))
    t += [(2, "count - c:0 x0"), (2, "count x0 x1 x1"), (2, "count x0,x0 c:1 x1"), (2, "count x0 x0 x1"), (2, "count x0,x1 c:1 x1"),
          (2, "count x0,x1 x0 x1"), (3, "count x0,x1 x0 x2"), (3, "count x0,x1 x2 x2"), (3, "count x0,x1 opp(x2) x2"),
          (4, "count x0,x1 x2 x3"), (4, "count x0,x1 plus(x2,1) x3"), (4, "count x0,x1,x2 c:1 x3"), (4, "count x0,x1,x2 c:0 x3"),
          (3, "count x0,x1 times(x2,2) x2")]
    # cardinality
    for kind in ("atleast", "atmost", "exactly"):
        for k in (0, 1):
            for n in (-1, 0, 1, 2, 3, 4):
                t.append((3, "%s x0,x1,x2 %d %d" % (kind, k, n)))
        for n in (0, 1, 2, 3):
            t.append((2, "%s x0,x0,x1 1 %d" % (kind, n)))
            t.append((4, "%s x0,x1,x2,x3 1 %d" % (kind, n)))
        t.append((1, "%s - 0 0" % kind)); t.append((1, "%s - 0 1" % kind)); t.append((1, "%s - 0 -1" % kind))
        t.append((2, "%s x0,x1 5 1" % kind))
    # element
    t += [(2, "element - x0 x1"), (3, "element x0 x1 x2"), (4, "element x0,x1 x2 x3"), (3, "element x0,x1 x0 x2"),
          (3, "element x0,x1 x2 x0"), (3, "element x0,x0 x1 x2"), (3, "element x0,x1 x2 x2"), (2, "element x0,x1 x0 x1"),
          (2, "element x0,x1 x1 x1"), (1, "element x0 x0 x0"), (4, "element x0,x1,x0 x2 x3"), (3, "element x0,x1,x1,x0 x2 x0")]
    if tier == "thorough":
        t += [(5, "element x0,x1,x2 x3 x4")]
    # table
    t += [(2, "table x0,x1 -"), (1, "table - e"), (1, "table - -"), (1, "table x0 1/-1"), (1, "table x0 0/5"), (2, "table x0,x1 0:0"),
          (2, "table x0,x1 0:1/1:0"), (2, "table x0,x1 -1:2/2:-1/0:0"), (2, "table x0,x1 1:1/1:1/3:0"), (2, "table x0,x1 -1:-1/0:2/2:0/1:1"),
          (2, "table x0,x0 0:1/1:1/2:0"), (3, "table x0,x1,x2 0:1:2/2:1:0"), (3, "table x0,x1,x2 -1:0:1/0:1:2/1:2:-1/2:2:2"),
          (3, "table x0,x1,x2 0:0:1/0:1:0/1:0:0/1:1:1"), (3, "table x0,x1,x0 0:1:0/1:0:2/2:2:2"), (4, "table x0,x1,x2,x3 0:1:2:-1/1:1:0:0/2:-1:-1:2")]
    return t

def exhaustive_cases(tier, subsets_fn):
    uni_small = [-1, 0, 1, 2]
    uni = [-2, -1, 0, 1, 2] if tier == "thorough" else uni_small
    subs, subs_small = subsets_fn(uni), subsets_fn(uni_small)
    cases = []
    for nv, spec in templates(tier):
        ss = subs if nv <= 3 else subs_small
        if nv >= 5: ss = subsets_fn([0, 1, 2])
        for doms in itertools.product(ss, repeat=nv):
            cases.append("%s ; %s" % ("|".join(doms), spec))
    return cases
