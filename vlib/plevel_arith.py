"""Group `Arith` (mul, mod, abs, minof, maxof): pspec generators for the props-level tie.
Used by vlib/props/c05_arith.py (and, once merged, by vlib/plevel.py rand_prop / vlib/props/c05.py).
Operands of mul/mod/abs are plain variables or constants (`xN` / `c:K`) except for a few abs templates over
integer views (abs and mod never leave ValI, so views are modelled exactly there; mul is exact for xN / c:K only,
see the header of coq/Model/Props/Arith.v)."""
import itertools

KINDS = ["mul", "mod", "abs", "minof", "maxof"]

def rand_prop(rng, n, k=None, bools=()):
    k = k or rng.choice(KINDS)
    xv = lambda: "x%d" % rng.randrange(n)
    op = lambda: ("c:%d" % rng.randint(-5, 7)) if rng.random() < 0.2 else xv()
    if k in ("mul", "mod"):
        return "%s %s %s %s" % (k, op(), op(), xv())
    if k == "abs":
        return "abs %s %s" % (op(), xv())
    if k in ("minof", "maxof"):
        m = rng.randint(1, 4)
        return "%s %s %s" % (k, ",".join(xv() for _ in range(m)), xv())
    raise ValueError(k)

def exhaustive_cases(tier, subsets):
    """all tuples of non-empty subsets of a small universe per template; aliasing and constants included"""
    cases = []
    s5 = subsets([-2, -1, 0, 1, 2])
    s4 = subsets([-1, 0, 1, 2])
    s7 = subsets([-3, -2, -1, 0, 1, 2, 3]) if tier == "thorough" else s5
    s3u = s5 if tier == "thorough" else s4
    t3 = ["mul x0 x1 x2", "mod x0 x1 x2", "minof x0,x1 x2", "maxof x0,x1 x2", "mul x0 x0 x2", "minof x0,x1 x0", "maxof x1,x0 x1"]
    for t in t3:
        for a, b, c in itertools.product(s3u, repeat=3):
            cases.append("%s|%s|%s ; %s" % (a, b, c, t))
    t2 = ["abs x0 x1", "abs opp(x0) x1", "abs plus(x0,1) x1", "abs times(x0,2) x1", "abs times(x0,-2) x1", "abs x0 x0",
          "minof x0 x1", "maxof x0 x1", "minof x0,x0 x1", "maxof x0,x0 x1", "mul x0 x0 x1", "mod x0 x0 x1", "mod x0 x1 x0", "mul x0 x1 x1"]
    for k in range(-3, 4):
        t2 += ["mul x0 c:%d x1" % k, "mul c:%d x0 x1" % k, "mod x0 c:%d x1" % k, "mod c:%d x0 x1" % k]
    for t in t2:
        for a, b in itertools.product(s7, repeat=2):
            cases.append("%s|%s ; %s" % (a, b, t))
    for k in range(-3, 4):
        for a in s7:
            cases.append("%s ; abs c:%d x0" % (a, k))
    if tier == "thorough":
        for t in ["minof x0,x1,x2 x3", "maxof x0,x1,x2 x3"]:
            for a, b, c, d in itertools.product(s4, repeat=4):
                cases.append("%s|%s|%s|%s ; %s" % (a, b, c, d, t))
    return cases

def _wide_dom(rng, big):
    r = rng.random()
    if r < 0.2:
        return [rng.randint(-big, big)]
    if r < 0.6:
        a = rng.randint(-big, big); return list(range(a, a + rng.randint(1, 25) + 1))
    return sorted(set(rng.randint(-big, big) for _ in range(rng.randint(1, 5))))

def fmt_dom(d):
    if len(d) > 1 and d[-1] - d[0] + 1 == len(d): return "%d..%d" % (d[0], d[-1])
    return ",".join(map(str, d))

def _window(rng, big):
    """a small domain at a large offset (SparseSet allocates max-min+1 slots, so spans stay small)"""
    a = rng.randint(-big, big)
    if rng.random() < 0.5:
        return list(range(a, a + rng.randint(0, 12) + 1))
    return sorted(set(a + rng.randint(0, 200) for _ in range(rng.randint(1, 4))))

def wide_cases(rng, n):
    """one mul/mod/abs/minof/maxof over wide or sparse domains: ranges beyond the Modulo enumeration limit (10), dividends and
    divisors of both signs, products up to 2^31 with result values at distance 0/1/2 from exact multiples (the f64 quotient path)"""
    cases = []
    while len(cases) < n:
        k = rng.choice(["mul", "mul", "mod", "mod", "mod", "abs", "minof", "maxof", "mulbig", "mulbig"])
        if k == "mulbig":
            big = rng.choice([300, 5000, 46000])
            x = _window(rng, big); y = _window(rng, big)
            prods = [a * b for a in x for b in y]
            p = rng.choice(prods)
            s = set()
            for _ in range(rng.randint(1, 5)):
                s.add(p + rng.randint(-3000, 3000) if rng.random() < 0.5 else p + rng.choice([-1, 0, 0, 1, 2, -2]))
            for q in prods:
                if abs(q - p) <= 3000 and rng.random() < 0.5: s.add(q + rng.choice([-1, 0, 1]))
            if rng.random() < 0.3:
                lo = min(s); s |= set(range(lo, lo + rng.randint(1, 20)))
            s = sorted(v for v in s if -2**31 + 10 < v < 2**31 - 10)
            if not s or len(x) * len(y) * len(s) > 20000: continue
            ops = ["x0", "x1"]
            if rng.random() < 0.15: ops[1] = "c:%d" % rng.choice(y)
            cases.append("%s ; mul %s %s x2" % ("|".join(map(fmt_dom, [x, y, s])), ops[0], ops[1]))
        elif k in ("mul", "mod"):
            x = _wide_dom(rng, 60); y = _wide_dom(rng, rng.choice([5, 20, 60])); s = _wide_dom(rng, 60)
            if len(x) * len(y) * len(s) > 20000: continue
            ops = ["x0", "x1"]
            if rng.random() < 0.2: ops[1] = "c:%d" % rng.randint(-9, 9)
            if rng.random() < 0.1: ops[0] = "c:%d" % rng.randint(-30, 30)
            cases.append("%s ; %s %s %s x2" % ("|".join(map(fmt_dom, [x, y, s])), k, ops[0], ops[1]))
        elif k == "abs":
            cases.append("%s ; abs x0 x1" % "|".join(map(fmt_dom, [_wide_dom(rng, 60), _wide_dom(rng, 60)])))
        else:
            m = rng.randint(1, 4)
            ds = [_wide_dom(rng, 12) for _ in range(m + 1)]
            prod = 1
            for d in ds: prod *= len(d)
            if prod > 20000: continue
            cases.append("%s ; %s %s x%d" % ("|".join(map(fmt_dom, ds)), k, ",".join("x%d" % i for i in range(m)), m))
    return cases
