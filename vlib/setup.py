"""./check --setup : full offline build of the Coq development (.vo), extraction, driver, harness."""
import os, sys
from . import core
from .core import log

def main():
    with core.Lock():
        ok, out = core.gen_consts()
        log(out)
        if not ok: return 1
        ok, out = core.coq_make([], timeout=5400)
        log(out[-3000:])
        if not ok: return 1
        ok, out = core.build_driver()
        log(out[-2000:])
        if not ok: return 1
        ok, out = core.build_harness()
        log(out[-2000:])
        if not ok: return 1
    return 0
