"""./check --setup : full offline build of the Coq development (.vo), extraction, driver, harness."""
import os, sys
from . import core
from .core import log

def main():
    with core.Lock():
        ok, out = core.gen_consts()
        log(out)
        if not ok: return 1
        ok, out = core.coq_make([], timeout=5400)
        log(out[-3000:])
        if not ok: return 1
        ok, out = run_coqchk()
        log(out[-3000:])
        if not ok: return 1
        ok, out = core.build_driver()
        log(out[-2000:])
        if not ok: return 1
        ok, out = core.build_harness()
        log(out[-2000:])
        if not ok: return 1
    return 0


COQCHK_ALLOWED = {"<none>"} | core.STD_AXIOMS

def run_coqchk():
    """Independent re-check of every compiled property file (and everything it depends on) with coqchk;
    the axiom summary must be empty or inside the standard-library allowlist."""
    import glob, re
    mods = []
    for f in sorted(glob.glob(os.path.join(core.COQ, "Properties", "*.vo"))):
        mods.append("Selen.Properties." + os.path.basename(f)[:-3])
    if not mods:
        return False, "no compiled property files"
    rc, out = core.sh(["timeout", "3000", "coqchk", "-silent", "-o", "-Q", ".", "Selen"] + mods, cwd=core.COQ, timeout=3100)
    os.makedirs(core.BUILD, exist_ok=True)
    open(os.path.join(core.BUILD, "coqchk.txt"), "w").write(out)
    if rc != 0:
        return False, "coqchk failed:\n" + out
    m = re.search(r"\* Axioms:(.*?)\n\s*\n\* Constants", out, re.S)
    axs = [a.strip() for a in (m.group(1).split("\n") if m else []) if a.strip()]
    bad = [a for a in axs if a not in COQCHK_ALLOWED and a.split(".")[-1] not in COQCHK_ALLOWED and not a.startswith("Coq.")]
    for sect in ("type-in-type", "unsafe (co)fixpoints", "positivity is assumed"):
        mm = re.search(re.escape(sect) + r":(.*?)\n\s*\n", out + "\n\n", re.S)
        if mm and mm.group(1).strip() != "<none>":
            return False, "coqchk reports %s: %s" % (sect, mm.group(1).strip())
    if bad:
        return False, "coqchk reports axioms outside the allowlist: %s" % bad
    return True, "coqchk ok over %d property modules; axioms: %s" % (len(mods), axs)
