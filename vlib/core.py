"""Common machinery for /verif/check: builds, sharded execution, judging, evidence, verdicts."""
import fcntl, hashlib, json, os, random, re, subprocess, sys, time

ROOT = os.path.dirname(os.path.dirname(os.path.abspath(__file__)))
REPO = os.environ.get("VERIF_REPO", "/repo")   # override only for pre-testing seeded changes in a scratch worktree
BUILD = os.path.join(ROOT, ".build")
COQ = os.path.join(ROOT, "coq")
NPROC = 16
GUARD = "selen_verif"

def log(*a):
    print(*a, file=sys.stderr, flush=True)

def sh(cmd, timeout=3000, cwd=None, env=None, inp=None):
    e = dict(os.environ)
    e.update({"CARGO_NET_OFFLINE": "true"})
    if env:
        e.update(env)
    p = subprocess.run(cmd, shell=isinstance(cmd, str), cwd=cwd, env=e, input=inp,
                       stdout=subprocess.PIPE, stderr=subprocess.STDOUT, timeout=timeout, text=True)
    out = "\n".join(l for l in p.stdout.splitlines() if not l.startswith("WARNING conda"))
    return p.returncode, out

class Lock:
    def __enter__(self):
        os.makedirs(BUILD, exist_ok=True)
        self.f = open(os.path.join(BUILD, ".lock"), "w")
        fcntl.flock(self.f, fcntl.LOCK_EX)
        return self
    def __exit__(self, *a):
        fcntl.flock(self.f, fcntl.LOCK_UN)
        self.f.close()

# ------------------------------------------------------------------------------------------------
# builds

def gen_consts():
    """Regenerate coq/Generated/Consts.v from /repo (rewritten only when content changes)."""
    rc, out = sh([sys.executable, os.path.join(ROOT, "tools", "gen_consts.py")], timeout=120)
    return rc == 0, out

def coq_files():
    fs = []
    for d, _, names in os.walk(COQ):
        for n in sorted(names):
            if n.endswith(".v"):
                fs.append(os.path.join(d, n))
    return sorted(fs)

def coq_makefile():
    mk = os.path.join(COQ, "Makefile")
    cp = os.path.join(COQ, "_CoqProject")
    if (not os.path.exists(mk)) or os.path.getmtime(mk) < os.path.getmtime(cp):
        rc, out = sh("coq_makefile -f _CoqProject -o Makefile", cwd=COQ, timeout=120)
        if rc != 0:
            return False, out
    return True, ""

def coq_make(targets, timeout=3000):
    ok, out = coq_makefile()
    if not ok:
        return False, out
    rc, out = sh("timeout %d make -j%d %s" % (timeout, NPROC, " ".join(targets)), cwd=COQ, timeout=timeout + 30)
    return rc == 0, out

def strip_comments(src):
    out, depth, i = [], 0, 0
    while i < len(src):
        if src.startswith("(*", i):
            depth += 1; i += 2
        elif src.startswith("*)", i) and depth > 0:
            depth -= 1; i += 2
        else:
            if depth == 0:
                out.append(src[i])
            i += 1
    return "".join(out)

FORBIDDEN = re.compile(r"\b(Admitted|admit|Axiom|Axioms|Parameter|Parameters|Conjecture|Conjectures|Admit\s+Obligations|bypass_check)\b|Unset\s+Guard|Unset\s+Positivity|Unset\s+Universe\s+Checking|type-in-type|impredicative-set|native_compute")
SECTIONED = re.compile(r"^\s*(Variable|Variables|Hypothesis|Hypotheses|Context)\b")

def forbidden_scan():
    """No Admitted/admit/Axiom/... anywhere; Variable/Hypothesis/Context only inside a Section."""
    bad = []
    for f in coq_files() + [os.path.join(COQ, "_CoqProject")]:
        src = strip_comments(open(f).read())
        depth = 0
        for ln, line in enumerate(src.splitlines(), 1):
            if FORBIDDEN.search(line):
                bad.append("%s:%d: %s" % (f, ln, line.strip()))
            if re.match(r"^\s*Section\b", line): depth += 1
            if re.match(r"^\s*End\b", line) and depth > 0: depth -= 1
            if SECTIONED.match(line) and depth == 0:
                bad.append("%s:%d: outside section: %s" % (f, ln, line.strip()))
    return bad

STD_AXIOMS = {
    "ClassicalDedekindReals.sig_forall_dec", "ClassicalDedekindReals.sig_not_dec",
    "FunctionalExtensionality.functional_extensionality_dep", "Classical_Prop.classic",
    "functional_extensionality_dep", "sig_forall_dec", "sig_not_dec", "classic",
}

def proof_gate(pid, extra_targets=()):
    """Build Properties/<pid>.vo, then re-run coqc on the property file to capture Print Assumptions.
    Returns dict(ok, theorems, closed, axioms, log)."""
    res = {"ok": False, "theorems": [], "closed": 0, "axioms": [], "log": ""}
    bad = forbidden_scan()
    if bad:
        res["log"] = "forbidden tokens:\n" + "\n".join(bad)
        return res
    pf = os.path.join(COQ, "Properties", pid + ".v")
    ok, out = coq_make(["Properties/%s.vo" % pid] + list(extra_targets))
    if not ok:
        res["log"] = out[-6000:]
        return res
    os.makedirs(os.path.join(BUILD, "pa"), exist_ok=True)
    args = coqproject_args()
    rc, out = sh(["coqc"] + args + ["-o", os.path.join(BUILD, "pa", pid + ".vo"), pf], cwd=COQ, timeout=1200)
    if rc != 0:
        res["log"] = out[-6000:]
        return res
    src = strip_comments(open(pf).read())
    thms = re.findall(r"^\s*(?:Theorem|Lemma|Corollary)\s+(\w+)", src, re.M)
    pas = re.findall(r"Print\s+Assumptions\s+(\w+)", src)
    missing = [t for t in thms if t not in pas]
    res["theorems"] = thms
    res["closed"] = out.count("Closed under the global context")
    axs = []
    for m in re.finditer(r"^Axioms:\n((?:(?:\S.*|\s+.*)\n?)*?)(?=^\S*$|\Z)", out, re.M):
        pass
    # simpler parse: lines of the form `name : type` following an "Axioms:" header
    cur = False
    for line in out.splitlines():
        if line.startswith("Axioms:"):
            cur = True; continue
        if cur:
            m = re.match(r"^([A-Za-z_][\w\.']*)\s*(:|$)", line)
            if m: axs.append(m.group(1))
            elif line and not line.startswith(" "):
                cur = False
    res["axioms"] = sorted(set(axs))
    notallowed = [a for a in res["axioms"] if a not in STD_AXIOMS and a.split(".")[-1] not in STD_AXIOMS]
    if missing:
        res["log"] = "theorems without Print Assumptions: %s" % missing
        return res
    if notallowed:
        res["log"] = "axioms outside the allowlist: %s" % notallowed
        return res
    if res["closed"] + (1 if axs else 0) == 0 and thms:
        res["log"] = "no Print Assumptions output captured"
        return res
    res["ok"] = True
    res["log"] = out[-2000:]
    return res

def coqproject_args():
    args = []
    for line in open(os.path.join(COQ, "_CoqProject")):
        t = line.split()
        if not t: continue
        if t[0] in ("-Q", "-R"):
            args += [t[0], t[1], t[2]]
        elif t[0] == "-arg":
            i = 0
            while i + 1 < len(t):
                if t[i] == "-arg":
                    args.append(t[i + 1]); i += 2
                else:
                    i += 1
    return args

def build_driver():
    """Extract the model (make Extract/Extract.vo) and compile the OCaml driver."""
    ok, out = coq_make(["Extract/Extract.vo"])
    if not ok:
        return False, out
    d = os.path.join(BUILD, "ocaml")
    os.makedirs(d, exist_ok=True)
    srcs = [os.path.join(COQ, "Extract", "selen_model.mli"), os.path.join(COQ, "Extract", "selen_model.ml")]
    od = os.path.join(ROOT, "ocaml")
    order = [l.strip() for l in open(os.path.join(od, "ORDER")) if l.strip()]
    srcs += [os.path.join(od, n) for n in order]
    h = hashlib.sha256()
    for s in srcs:
        h.update(open(s, "rb").read())
    stamp = os.path.join(d, "stamp")
    exe = os.path.join(d, "driver")
    if os.path.exists(exe) and os.path.exists(stamp) and open(stamp).read() == h.hexdigest():
        return True, "driver up to date"
    for s in srcs:
        sh(["cp", s, d])
    names = [os.path.basename(s) for s in srcs]
    rc, out = sh(["ocamlfind", "ocamlopt", "-package", "str", "-linkpkg", "-O3", "-w", "-a"] + names + ["-o", "driver"], cwd=d, timeout=1200)
    if rc != 0:
        return False, out
    open(stamp, "w").write(h.hexdigest())
    return True, out

def _alt():
    return REPO != "/repo"

def build_harness(release=False):
    """cargo build of the harness against /repo's working tree, hooks on."""
    hd = os.path.join(ROOT, "harness")
    tgt = os.path.join(BUILD, "target")
    if _alt():
        # scratch copy of the harness crate pointing at the alternative repository
        tag = hashlib.sha256(REPO.encode()).hexdigest()[:8]
        alt = os.path.join(BUILD, "harness_" + tag)
        sh(["rm", "-rf", alt]); sh(["cp", "-r", hd, alt])
        ct = open(os.path.join(alt, "Cargo.toml")).read().replace('path = "/repo"', 'path = "%s"' % REPO)
        open(os.path.join(alt, "Cargo.toml"), "w").write(ct)
        hd = alt; tgt = os.path.join(BUILD, "target_" + tag)
    env = {"CARGO_TARGET_DIR": tgt, "RUSTFLAGS": "--cfg " + GUARD}
    cmd = "cargo build --offline" + (" --release" if release else "")
    rc, out = sh(cmd, cwd=hd, env=env, timeout=3000)
    return rc == 0, out

def harness_exe(release=False):
    tgt = "target"
    if _alt():
        tgt = "target_" + hashlib.sha256(REPO.encode()).hexdigest()[:8]
    return os.path.join(BUILD, tgt, "release" if release else "debug", "selen_corr")

def driver_exe():
    return os.path.join(BUILD, "ocaml", "driver")

# ------------------------------------------------------------------------------------------------
# sharded execution

def run_lines(exe, sub, lines, shards=NPROC, timeout=3000, env=None):
    """Feed `lines` to `exe sub` split over processes; returns output lines in input order."""
    if not lines:
        return []
    shards = max(1, min(shards, (len(lines) + 199) // 200))
    chunks = [lines[i::shards] for i in range(shards)]
    e = dict(os.environ)
    if env: e.update(env)
    procs = []
    def big_stack():
        # the extracted model keeps domains as lists: auxiliary variables with computed bounds can have
        # 10^5..10^6 values (a product of large constants), which needs more than the default 8 MB stack
        import resource
        soft, hard = resource.getrlimit(resource.RLIMIT_STACK)
        resource.setrlimit(resource.RLIMIT_STACK, (hard, hard))
    for ch in chunks:
        p = subprocess.Popen([exe, sub], stdin=subprocess.PIPE, stdout=subprocess.PIPE, stderr=subprocess.PIPE, text=True, env=e, preexec_fn=big_stack)
        procs.append(p)
    import threading
    outs = [None] * shards
    def work(i):
        # a shard that does not come back (a case on which the implementation never returns: creeping float propagation,
        # a stalled bisection) is killed and re-run line by line below, each line under its own time limit -> "HANG"
        lim = min(timeout, max(600.0, 0.2 * len(chunks[i])))
        try:
            o, err = procs[i].communicate("\n".join(chunks[i]) + "\n", timeout=lim)
            outs[i] = (o.splitlines(), err, procs[i].returncode)
        except subprocess.TimeoutExpired:
            procs[i].kill()
            try: procs[i].communicate(timeout=10)
            except Exception: pass
            outs[i] = ([], "shard timeout", -9)
    ths = [threading.Thread(target=work, args=(i,)) for i in range(shards)]
    for t in ths: t.start()
    for t in ths: t.join()
    res = [None] * len(lines)
    for i in range(shards):
        o, err, rc = outs[i]
        if len(o) != len(chunks[i]):
            # a crash (abort/stack overflow) loses lines: rerun this shard line by line
            o = []
            for l in chunks[i]:
                try:
                    q = subprocess.run([exe, sub], input=l + "\n", stdout=subprocess.PIPE, stderr=subprocess.PIPE, text=True, timeout=(30 if rc == -9 else 600), env=e, preexec_fn=big_stack)
                    ol = q.stdout.splitlines()
                    o.append(ol[0] if ol else "CRASH rc=%d %s" % (q.returncode, q.stderr.strip()[:100]))
                except subprocess.TimeoutExpired:
                    o.append("HANG")
        for j, l in enumerate(o):
            res[i + j * shards] = l
    return res

# ------------------------------------------------------------------------------------------------
# known findings

def load_known(pid):
    """Entries of /verif/known_findings.txt for this property: list of dicts(state, cls, witness, text)."""
    p = os.path.join(ROOT, "known_findings.txt")
    res = []
    if not os.path.exists(p):
        return res
    for line in open(p):
        line = line.strip()
        if not line or line.startswith("#"):
            continue
        m = re.match(r"^(open|fixed):\s+property=(\w+)\s+(.*)$", line)
        if not m or m.group(2) != pid:
            continue
        rest = m.group(3)
        d = {"state": m.group(1), "raw": rest}
        mc = re.search(r"class=(\S+)", rest)
        d["cls"] = mc.group(1) if mc else None
        mf = re.search(r"family=(\S+)", rest)
        d["family"] = mf.group(1) if mf else None
        mw = re.search(r"witness=\[(.*?)\]", rest)
        d["witness"] = mw.group(1) if mw else None
        d["text"] = rest.split("]", 1)[1].strip() if "]" in rest else rest
        res.append(d)
    return res

# ------------------------------------------------------------------------------------------------
# a check run

class Family:
    """One correspondence family: a sub-command, a generator and a judge.
    gen(tier, rng) -> list of case lines
    split(model_line) -> (model_part, spec_part, known_class or None)
    The judge contract:
      impl == model_part          : correspondence holds on this case
      impl == spec_part           : the property's specification holds on this case
      known_class != None         : the case lies in a listed known-finding class"""
    def __init__(self, name, sub, gen, split=None, nontrivial=None, normal=None, prop_judge=None, exhaustive=False, env=None):
        self.name, self.sub, self.gen = name, sub, gen
        self.split = split or default_split
        self.nontrivial = nontrivial or (lambda case, impl: True)
        self.normal = normal or (lambda s: s)
        self.prop_judge = prop_judge  # optional: (case, impl, spec) -> None | reason ; default: equality
        self.exhaustive = exhaustive
        self.env = env

def default_split(model_line):
    if " ||| " in model_line:
        m, s = model_line.split(" ||| ", 1)
    else:
        m, s = model_line, None
    cls = None
    if s is not None and s.startswith("BAD"):
        t = s.split(" ", 1)
        cls = t[0][3:].lstrip(":") or "known"
        s = t[1] if len(t) > 1 else ""
    return m, s, cls

def write_replay(pid, payload):
    d = os.path.join(ROOT, "replays")
    os.makedirs(d, exist_ok=True)
    h = hashlib.sha256(json.dumps(payload, sort_keys=True).encode()).hexdigest()[:12]
    p = os.path.join(d, "%s-%s.json" % (pid, h))
    payload = dict(payload)
    payload["replay_cmd"] = "./check %s --replay %s" % (pid, p)
    json.dump(payload, open(p, "w"), indent=1)
    return p

def shrink_case(case, still_fails, sep=";"):
    """Delta-debug the op list of a `init ; op ; op …` style case line."""
    parts = [p.strip() for p in case.split(sep)]
    head, ops = parts[0], parts[1:]
    changed = True
    while changed and len(ops) > 0:
        changed = False
        for i in range(len(ops)):
            cand = ops[:i] + ops[i + 1:]
            c = (" %s " % sep).join([head] + cand)
            if still_fails(c):
                ops = cand; changed = True
                break
    return (" %s " % sep).join([head] + ops)
