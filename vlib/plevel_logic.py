"""Group `Logic` (bool_and/or/not/xor, int_*_reif, all_equal, between, if_then_else): pspec generators for the
props-level tie.  Used by vlib/props/c05_logic.py (and, once merged, by vlib/plevel.py rand_prop / vlib/props/c05.py)."""
import itertools

KINDS = ["band", "bor", "bnot", "bxor", "eqr", "ner", "ltr", "ler", "gtr", "ger", "alleq", "between", "ite"]

def rand_prop(rng, n, k, bools=()):
    """one random pspec of kind k over x0..x(n-1); boolean positions are mostly declared 0/1 variables, sometimes any
    variable; repeated variables on purpose"""
    xv = lambda: "x%d" % rng.randrange(n)
    bv = lambda: ("x%d" % rng.choice(bools)) if (bools and rng.random() < 0.8) else xv()
    if k in ("band", "bor"):
        m = rng.choice([0, 1, 2, 2, 3, 3, 4])
        return "%s %s %s" % (k, ",".join(bv() for _ in range(m)) or "-", bv())
    if k == "bnot":
        return "bnot %s %s" % (bv(), bv())
    if k == "bxor":
        return "bxor %s %s %s" % (bv(), bv(), bv())
    if k in ("eqr", "ner", "ltr", "ler", "gtr", "ger"):
        return "%s %s %s %s" % (k, xv(), xv(), bv())
    if k == "alleq":
        m = rng.choice([0, 1, 2, 2, 3, 3, 4])
        return "alleq %s" % (",".join(xv() for _ in range(m)) or "-")
    if k == "between":
        return "between %s %s %s" % (xv(), xv(), xv())
    if k == "ite":
        atom = lambda kinds: "%s:%s:%d" % (rng.choice(kinds), xv(), rng.randint(-3, 5))
        sk = ["eq", "ne", "gt", "lt", "ge", "le"]
        return "ite %s %s%s" % (atom(["eq", "ne", "gt", "lt"]), atom(sk), (" " + atom(sk)) if rng.random() < 0.6 else "")
    raise ValueError(k)

ITE_ATOMS_C = ["%s:x0:%d" % (k, z) for k in ("eq", "ne", "gt", "lt") for z in (0, 1)]
ITE_ATOMS_S = ["%s:x1:%d" % (k, z) for k in ("eq", "ne", "gt", "lt", "ge", "le") for z in (0, 1)]

def templates(tier):
    """exhaustive templates: (number of variables, pspec); aliasing (same variable in several positions) included"""
    t3 = ["band x0,x1 x2", "bor x0,x1 x2", "bxor x0 x1 x2",
          "eqr x0 x1 x2", "ner x0 x1 x2", "ltr x0 x1 x2", "ler x0 x1 x2", "gtr x0 x1 x2", "ger x0 x1 x2",
          "alleq x0,x1,x2", "between x0 x1 x2",
          "band x0,x1,x0 x2", "bor x2,x1 x2", "band x0,x2 x2",
          "ite eq:x0:0 le:x1:0 gt:x2:1", "ite gt:x0:0 ne:x1:1 eq:x2:0", "ite ne:x0:1 ge:x1:1 lt:x2:1", "ite lt:x0:1 eq:x1:0 ne:x2:2"]
    t2 = ["bnot x0 x1", "band x0 x1", "bor x0 x1", "band x0,x0 x1", "bor x0,x1 x0", "band x0,x1 x1",
          "bxor x0 x0 x1", "bxor x0 x1 x0", "bxor x0 x1 x1",
          "eqr x0 x0 x1", "eqr x0 x1 x0", "eqr x0 x1 x1", "ner x0 x0 x1", "ner x0 x1 x0", "ner x0 x1 x1",
          "ltr x0 x0 x1", "ltr x0 x1 x0", "ltr x0 x1 x1", "ler x0 x0 x1", "ler x0 x1 x0", "ler x0 x1 x1",
          "gtr x0 x0 x1", "gtr x0 x1 x0", "gtr x0 x1 x1", "ger x0 x0 x1", "ger x0 x1 x0", "ger x0 x1 x1",
          "alleq x0,x1", "alleq x0,x1,x0", "between x0 x1 x0", "between x0 x0 x1", "between x0 x1 x1",
          "ite eq:x0:1 eq:x0:0 gt:x1:0", "ite gt:x0:0 le:x1:0 le:x0:-1", "ite ne:x0:0 ne:x1:0 ne:x0:0"]
    t2 += ["ite %s %s" % (c, s) for c in ITE_ATOMS_C for s in ITE_ATOMS_S]
    t2 += ["ite %s %s %s" % (c, s, e) for c in ITE_ATOMS_C[:4] for s in ITE_ATOMS_S[::3] for e in ITE_ATOMS_S[1::4]]
    t1 = ["band - x0", "bor - x0", "bnot x0 x0", "bxor x0 x0 x0", "band x0 x0", "bor x0 x0", "band x0,x0 x0",
          "eqr x0 x0 x0", "ner x0 x0 x0", "ltr x0 x0 x0", "ler x0 x0 x0", "gtr x0 x0 x0", "ger x0 x0 x0",
          "alleq x0", "alleq -", "alleq x0,x0", "between x0 x0 x0",
          "ite eq:x0:0 ne:x0:0", "ite gt:x0:0 lt:x0:2 ge:x0:-1", "ite ne:x0:1 eq:x0:0 eq:x0:1", "ite lt:x0:1 gt:x0:-1"]
    t4 = ["band x0,x1,x2 x3", "bor x0,x1,x2 x3", "alleq x0,x1,x2,x3"]
    return [(1, t) for t in t1] + [(2, t) for t in t2] + [(3, t) for t in t3] + [(4, t) for t in t4]

def exhaustive_cases(tier, subsets_fn):
    uni = [-2, -1, 0, 1, 2] if tier == "thorough" else [-1, 0, 1, 2]
    subs = subsets_fn(uni)
    small = subsets_fn([-1, 0, 1, 2] if tier == "thorough" else [0, 1, 2])
    wide = subsets_fn([-2, -1, 0, 1, 2, 3])
    cases = []
    for nv, spec in templates(tier):
        ss = wide if nv == 1 else (subs if nv <= 3 else small)
        for doms in itertools.product(ss, repeat=nv):
            cases.append("%s ; %s" % ("|".join(doms), spec))
    return cases
