"""C02 — solve succeeds exactly on satisfiable models."""
from ..core import Family
from .. import plevel
from . import engine_common as ec
TRUSTED_BASE = ec.TB
ASSUMPTIONS = ec.ASSUME + ["model validation (core/validation.rs) is not part of the committed model yet: this check covers search completeness and soundness of the no-solution verdict at the propagator level"]
RULE = ("case = propagator-level model, entry `first` (= Model::solve's use of the engine); a solution must be returned iff the "
        "brute-force solution set is non-empty; generator keeps roughly half of the models unsatisfiable; non-trivial = verdict decided by search (not trivially empty model)")
def gen(tier, rng):
    base = ec.gen_models(ec.entry_first, 3000, 600000)(tier, rng)
    return base
FAMILIES = [
    Family("solve_random", "solve", gen, nontrivial=lambda c, i: True, prop_judge=plevel.judge_solve),
    Family("solve_structured", "solve", lambda tier, rng: [c for c in ec.structured(tier, rng) if c.endswith("first")], nontrivial=lambda c, i: True, prop_judge=plevel.judge_solve),
]
