"""C02 — solve succeeds exactly on satisfiable models."""
from ..core import Family
from .. import plevel
from . import engine_common as ec
PROPERTY_FILES = ["C02", "C01_Routes"]
TRUSTED_BASE = ec.TB
ASSUMPTIONS = ec.ASSUME + ["model validation (core/validation.rs) is not part of the committed model yet: this check covers search completeness and soundness of the no-solution verdict at the propagator level"]
RULE = ("case = propagator-level model, entry `first` (= Model::solve's use of the engine); a solution must be returned iff the "
        "brute-force solution set is non-empty; generator keeps roughly half of the models unsatisfiable; non-trivial = verdict decided by search (not trivially empty model)")
def gen(tier, rng):
    base = ec.gen_models(ec.entry_first, 12000, 600000)(tier, rng)
    return base
FAMILIES = [
    Family("solve_random", "solve", gen, nontrivial=lambda c, i: True, prop_judge=plevel.judge_solve),
    Family("solve_alldiff_wide", "solve", ec.gen_alldiff_wide(ec.entry_first, 2000, 60000), nontrivial=lambda c, i: True, prop_judge=plevel.judge_solve),
    Family("solve_structured", "solve", lambda tier, rng: [c for c in ec.structured(tier, rng) if c.endswith("first")], nontrivial=lambda c, i: True, prop_judge=plevel.judge_solve),
]

# Model-level posting routes (arithmetic/array/boolean/global/linear/reified API methods): structural and semantic
# families of vlib/props/routes.py; their known classes are recorded under C01/C02/C10/C17 in known_findings.txt
from . import routes as _routes
FAMILIES += _routes.FAMILIES
KNOWN_PIDS = _routes.KNOWN_PIDS
SHARED_CLASSES = _routes.SHARED_CLASSES
TRUSTED_BASE = TRUSTED_BASE + [t for t in _routes.TRUSTED_BASE if t not in TRUSTED_BASE]
ASSUMPTIONS = ASSUMPTIONS + [a for a in _routes.ASSUMPTIONS if a not in ASSUMPTIONS]

