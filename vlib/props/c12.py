"""C12 — bound tightening is exact on integers (and outward-safe on floats: see families added from c12f)."""
import itertools
from ..core import Family
from .. import plevel

PROPERTY_FILES = ["C12", "C12F"]
TRUSTED_BASE = [
    "Coq 8.16.1 kernel (coqc full .vo build)",
    "hand-written model coq/Model/Dom.v of Context::try_set_min/try_set_max (views.rs:185-497, integer branches) over abstract domains; Properties/C12.v remove_below_refines ties the abstract domain operations to the verified SparseSet model (C11)",
    "extraction: ExtrOcamlBasic only, no Extract Constant; OCaml driver ocaml/plevel_cmd.ml; Rust harness harness/src/plevel.rs through hook H1 (Context::new_verif)",
    "the judge of the `ctx` family is an independent python re-statement of the property (filter by the bound; fail iff empty; event iff changed)",
]
ASSUMPTIONS = ["integer variables never have an empty domain when a setter is called (validation rejects empty domains; setters fail before leaving one)",
               "i32 modelled as unbounded Z"]
RULE = ("case = domains (holes, negatives, singletons) + a sequence of try_set_min/try_set_max calls on any variable with bounds "
        "inside, at and outside the domain; exhaustive over subsets of a small universe x bound grid x length<=2, then seeded random "
        "longer sequences; non-trivial = at least one call changed a domain or failed")

def expand(d):
    d = d.strip()
    if ".." in d:
        a, b = d.split(".."); return list(range(int(a), int(b) + 1))
    return [int(x) for x in d.split(",")]

def judge_ctx(case, impl, spec):
    parts = [p.strip() for p in case.split(";")]
    doms = [expand(d) for d in parts[0].split("|")]
    outs = impl.split(" / ") if impl else []
    if impl.startswith("PANIC"): return "implementation panicked: " + impl
    k = 0
    for op in parts[1:]:
        if not op: continue
        t = op.split(); v = int(t[1][1:]); b = int(t[2])
        new = [x for x in doms[v] if (x >= b if t[0] == "min" else x <= b)]
        if k >= len(outs): return "missing output for " + op
        o = outs[k]; k += 1
        if not new:
            if o != "fail": return "%s: no value is left but the call did not fail (%s)" % (op, o)
            return None
        if o == "fail": return "%s: failed although %s would be left" % (op, new)
        f = o.split(" ")
        ret, ev, ds = int(f[0]), int(f[1][3:]), plevel.parse_doms(f[2])
        changed = new != doms[v]
        doms[v] = new
        if ds != doms: return "%s: domains are %s, expected %s" % (op, ds, doms)
        if ev != (1 if changed else 0): return "%s: change reported %d time(s), domain %s" % (op, ev, "shrank" if changed else "did not change")
        if ret != (new[0] if t[0] == "min" else new[-1]): return "%s: returned bound %d" % (op, ret)
    return None

def nontrivial(case, impl):
    return "ev=1" in impl or "fail" in impl

def gen_exhaustive(tier, rng):
    uni = [-2, -1, 0, 1, 3] if tier == "quick" else [-3, -2, -1, 0, 1, 3]
    subs = plevel.subsets(uni)
    bounds = range(min(uni) - 1, max(uni) + 2)
    ops = ["%s x0 %d" % (m, b) for m in ("min", "max") for b in bounds]
    cases = []
    for d in subs:
        for L in (1, 2) if tier == "quick" else (1, 2, 3):
            for seq in itertools.product(ops, repeat=L):
                cases.append(" ; ".join([d] + list(seq)))
    return cases

def gen_random(tier, rng):
    n = 4000 if tier == "quick" else 100000
    cases = []
    for _ in range(n):
        nv = rng.randint(1, 3)
        doms = [plevel.rand_dom(rng, -40, 40) if rng.random() < 0.3 else plevel.rand_dom(rng) for _ in range(nv)]
        ops = []
        for _ in range(rng.randint(1, 8)):
            ops.append("%s x%d %d" % (rng.choice(["min", "max"]), rng.randrange(nv), rng.randint(-45, 45) if rng.random() < 0.3 else rng.randint(-8, 10)))
        cases.append(" ; ".join(["|".join(doms)] + ops))
    return cases

def split(model_line):
    return model_line, "python-judge", None

FAMILIES = [
    Family("int_exhaustive", "ctx", gen_exhaustive, split=split, nontrivial=nontrivial, prop_judge=judge_ctx, exhaustive=True),
    Family("int_random", "ctx", gen_random, split=split, nontrivial=nontrivial, prop_judge=judge_ctx),
]

# float half (FloatInterval primitives, float branches of try_set_min/max): families and judge live in c12f.py
from . import c12f as _f
FAMILIES += _f.FAMILIES
TRUSTED_BASE = TRUSTED_BASE + [t for t in _f.TRUSTED_BASE if t not in TRUSTED_BASE]
ASSUMPTIONS = ASSUMPTIONS + [a for a in _f.ASSUMPTIONS if a not in ASSUMPTIONS]
RULE = RULE + " || float half: " + _f.RULE
