"""./check C01_Routes — stand-alone entry for the posting-routes families (vlib/props/routes.py)."""
from .routes import *          # noqa: F401,F403  (FAMILIES, TRUSTED_BASE, ASSUMPTIONS, RULE, PROPERTY_FILES, KNOWN_PIDS)
from . import routes as _r
FAMILIES = _r.FAMILIES
PROPERTY_FILES = _r.PROPERTY_FILES
KNOWN_PIDS = _r.KNOWN_PIDS
SHARED_CLASSES = _r.SHARED_CLASSES
