"""C05 (group Logic) — bool_and/or/not/xor, int_*_reif, all_equal, between, if_then_else:
propagation removes only unsupported values; fails only if nothing is left.
Stand-alone check of the group: ./check C05_Logic --tier quick|thorough
(proof gate = coq/Properties/C05_Logic.v; the families can be merged into vlib/props/c05.py as for group Global)."""
import re
from ..core import Family
from .. import plevel, plevel_logic
from . import c05 as base

TRUSTED_BASE = base.TRUSTED_BASE + [
    "group Logic: hand-written model coq/Model/Props/Logic.v of props/{bool_logic,reification,allequal,between,conditional}.rs; "
    "ties harness/src/plevel_logic.rs, ocaml/plevel_logic_cmd.ml",
]
ASSUMPTIONS = base.ASSUMPTIONS + [
    "boolean reading of the code: true iff >= 1, false iff <= 0; `sat` adds is01 exactly where the code forces the exact values 0/1 "
    "(header of Model/Props/Logic.v; theorems *_sat01: on 0/1 assignments `sat` is the plain truth table); if_then_else with integer values only",
]
RULE = base.RULE
nontrivial = base.nontrivial

def gen_exhaustive(tier, rng):
    return plevel_logic.exhaustive_cases(tier, plevel.subsets)

_ZERO_LIN = re.compile(r"\blin\w+ 0(,0)* ")
def _other_group_class(props):
    """cases inside known classes of OTHER groups (D11: all-zero coefficients) are left to vlib/props/c05.py"""
    return any(_ZERO_LIN.search(p + " ") for p in props)

def rand_model(rng, maxvars=5, maxprops=4, maxprod=4000):
    while True:
        n = rng.randint(1, maxvars)
        doms, bools = [], []
        for i in range(n):
            if rng.random() < 0.3:
                doms.append("0..1"); bools.append(i)
            else:
                doms.append(plevel.rand_dom(rng))
        prod = 1
        for d in doms: prod *= plevel.dom_size(d)
        if prod <= maxprod: break
    props = []
    for _ in range(rng.randint(0, maxprops)):
        if rng.random() < 0.65:
            props.append(plevel_logic.rand_prop(rng, n, rng.choice(plevel_logic.KINDS), tuple(bools)))
        else:
            props.append(plevel.rand_prop(rng, n, plevel.BASIC_KINDS, tuple(bools)))
    return n, doms, props

def gen_random(tier, rng):
    n = 6000 if tier == "quick" else 150000
    cases = []
    for _ in range(n):
        nv, doms, props = rand_model(rng)
        if not props or _other_group_class(props): continue
        c = " ; ".join(["|".join(doms)] + props)
        if rng.random() < 0.3: c += " ; sched %d" % rng.randint(1, 10**6)
        cases.append(c)
    return cases

def gen_random_nosched(tier, rng):
    return [c.split(" ; sched")[0] for c in gen_random(tier, rng)]

def gen_random_solve(tier, rng):
    n = 1500 if tier == "quick" else 30000
    cases = []
    for _ in range(n):
        nv, doms, props = rand_model(rng, maxprod=600)
        if not props or _other_group_class(props): continue
        cases.append(" ; ".join(["|".join(doms)] + props) + " ; enum")
    return cases

FAMILIES = [
    Family("logic_exhaustive_domains", "prop", gen_exhaustive, nontrivial=nontrivial, prop_judge=plevel.judge_prop, exhaustive=True),
    Family("logic_random_models", "prop", gen_random, nontrivial=nontrivial, prop_judge=plevel.judge_prop),
    Family("logic_random_solve", "solve", gen_random_solve, prop_judge=plevel.judge_solve),
    # one call of prune per propagator, events included (no propagation loop): correspondence only
    Family("logic_single_prune", "prune1", gen_exhaustive, nontrivial=base.nontrivial_prune1, exhaustive=True),
    Family("logic_single_prune_random", "prune1", gen_random_nosched, nontrivial=base.nontrivial_prune1),
]
