"""C17 — invalid or extreme inputs produce errors, not panics.

Sub-command `api`: call sequences against the PUBLIC API, each call under catch_unwind, in the debug
profile (overflow checks + debug assertions, as the test suite) AND in the release profile (wrap-around).
Streams:
  valid     structured, mostly valid, in-range sequences over the whole integer vocabulary with boundary
            arguments (empty slices, duplicates, same variable on both sides, singleton domains)
  malformed every case contains at least one DOCUMENTED invalid input (reversed/empty bounds, empty value set,
            empty min/max list, coefficient/variable length mismatch, zero in a divisor's domain, element index
            out of range, exceeded memory budget)
  extreme   magnitudes near +-2^31 (outside InRange: the property leaves them unspecified; counted, reported,
            never a violation)
The driver prints `model ||| spec`: model = predicted outcome class per call (`?` where the model has no
prediction), spec = the property's verdict for the case: must_not_panic | must_be_err_or_unsat | unspecified.
"""
import os, random, re
from .. import core
from ..core import Family

TRUSTED_BASE = [
    "Coq 8.16.1 kernel (coqc full .vo build)",
    "hand-written checked-arithmetic model coq/Model/Checked.v (i32 range, option-valued +,-,*,neg, saturating ops, checked re-statements of IntLinEq/Le/Ne, of the integer views and of Add/Sum) — modelled, not verified; the unbounded-Z models it is proved equal to are the ones tied to the code by C05/C13",
    "the classification of a call sequence as in-range / documented-invalid / unspecified is the magnitude analysis of ocaml/api_cmd.ml (re-stated from Checked.v's InRange: every bound, constant and sum of |coefficient|*|bound| stays below 2^31) — part of the specification, read it",
    "Rust harness harness/src/api.rs (public API only; every call under catch_unwind; panic location from the panic hook); both cargo profiles (dev with overflow-checks and debug-assertions, release without)",
    "extraction: ExtrOcamlBasic + ExtrOcamlNatInt, no Extract Constant of our own; OCaml driver ocaml/api_cmd.ml",
]
ASSUMPTIONS = [
    "PARTIAL: only the modelled call vocabulary (integer variables; arithmetic, linear, reified, boolean, global constraints; fluent trees; the seven solving entry points); float variables, cumulative, int2float/floor/ceil/round, optimization/* and benchmarks/* are not exercised (element_2d/3d, table_2d/3d, array_int_minimum/maximum, sum_iter, and_all/or_all/all_of/any_of and the array factories are)",
    "absence of panics on in-range input is established by the seeded search (both profiles) for the whole vocabulary, and by proof (no_overflow_in_range, no_oob_index) only for the arithmetic of IntLinEq/Le/Ne, the integer views and Add/Sum",
    "an `abort` (allocation failure, stack overflow) is detected as a lost output line (CRASH) — domain widths are kept below 4*10^6 values so the harness itself cannot exhaust memory",
    "out-of-range element index is read as: the index domain lies entirely outside 0..len-1 (then Err/unsat is demanded); a partially out-of-range index may be pruned and must merely not panic",
]
RULE_BASE = ("case = call sequence (variable creation, constraint posting, 1-3 solving entry points, each entry on a freshly rebuilt model); "
        "judge per profile: no PANIC/CRASH/HANG on a must_not_panic or must_be_err_or_unsat case; on a must_be_err_or_unsat case every solving "
        "entry point answers err/unsat/timeout, never ok; where the model predicts a class (PANIC / err V / ok) the implementation shows it; "
        "non-trivial = at least one constraint call and one entry point")
RULE = RULE_BASE
DISTRIBUTION = {}

I32MAX = 2147483647
I32MIN = -2147483648

# ------------------------------------------------------------------------------------------------
# generators

ENTRIES0 = ["solve", "enum", "enumstats"]
ENTRIESV = ["minimize", "maximize", "miniter", "maxiter"]

class G:
    """builder of one call sequence; tracks the user variables created so far: (kind, lo, hi)"""
    def __init__(self, rng):
        self.rng = rng
        self.calls = []
        self.vars = []      # ('i'|'b', lo, hi)
        self.kinds = []

    def n(self): return len(self.vars)
    def emit(self, s, kind=None):
        self.calls.append(s)
        self.kinds.append(kind or s.split()[0])

    # ---- variables
    def decl(self, big=False):
        r = self.rng
        t = r.random()
        if t < 0.2:
            self.emit("bool"); self.vars.append(('b', 0, 1))
        elif t < 0.4:
            k = r.randint(1, 5)
            base = r.randint(-6, 6)
            vals = sorted(set(base + r.randint(0, 8) for _ in range(k)))
            r.shuffle(vals)
            if r.random() < 0.2: vals = vals + vals[:1]            # duplicate value
            self.emit("intset " + ",".join(map(str, vals))); self.vars.append(('i', min(vals), max(vals)))
        elif t < 0.45:
            n = r.randint(0, 3); lo = r.randint(-3, 3); hi = lo + r.randint(0, 3)
            self.emit("ints %d %d %d" % (n, lo, hi))
            for _ in range(n): self.vars.append(('i', lo, hi))
        else:
            if big and r.random() < 0.5:
                lo = r.choice([-1, 1]) * r.randint(1000, 1000000); hi = lo + r.randint(0, 40)
            else:
                lo = r.randint(-6, 6); hi = lo + r.choice([0, 0, 1, 2, 3, 5, 9])
            self.emit("int %d %d" % (lo, hi)); self.vars.append(('i', lo, hi))

    def x(self): return "x%d" % self.rng.randrange(self.n())
    def xs(self, lo=0, hi=4, dup=True):
        k = self.rng.randint(lo, hi)
        if k == 0: return "-"
        if dup: return ",".join(self.x() for _ in range(k))
        ids = list(range(self.n())); self.rng.shuffle(ids)
        return ",".join("x%d" % i for i in ids[:k]) or "-"
    def bools(self):
        return [i for i, v in enumerate(self.vars) if v[0] == 'b']
    def bvar(self):
        b = self.bools()
        if not b or self.rng.random() < 0.1: return self.x()
        return "x%d" % self.rng.choice(b)
    def opnd(self):
        return self.x() if self.rng.random() < 0.8 else "c:%d" % self.rng.randint(-5, 5)
    def small(self): return self.rng.randint(-4, 4)
    def mag(self, i): return max(abs(self.vars[i][1]), abs(self.vars[i][2]))

    def expr(self, depth):
        r = self.rng
        if depth == 0 or r.random() < 0.4:
            return self.x() if r.random() < 0.75 else str(r.randint(-5, 5))
        op = r.choice(["add", "add", "sub", "sub", "mul", "mod"])
        if op == "mod":
            # divisor: a non-zero constant or a variable whose domain avoids 0
            nz = [i for i, v in enumerate(self.vars) if v[1] > 0 or v[2] < 0]
            d = ("x%d" % r.choice(nz)) if nz and r.random() < 0.6 else str(r.choice([-3, -2, 2, 3, 5]))
            return "mod(%s,%s)" % (self.expr(depth - 1), d)
        return "%s(%s,%s)" % (op, self.expr(depth - 1), self.expr(depth - 1))
    def cons(self, depth):
        r = self.rng
        if depth > 0 and r.random() < 0.25:
            h = r.choice(["and", "or", "not"])
            if h == "not": return "not(%s)" % self.cons(depth - 1)
            return "%s(%s,%s)" % (h, self.cons(depth - 1), self.cons(depth - 1))
        return "%s(%s,%s)" % (r.choice(["eq", "ne", "lt", "le", "gt", "ge"]), self.expr(2), self.expr(1))

    # ---- one in-range constraint call
    def call(self):
        r = self.rng
        k = r.choice(["add", "sub", "mul", "mod", "abs", "min", "max", "sum", "lin", "lin", "linr", "blin", "blinr", "reif",
                      "band", "bor", "bnot", "bxor", "implies", "clause", "alldiff", "alleq", "element", "aelement", "elementf",
                      "table", "count", "atleast", "atmost", "exactly", "between", "gcc", "new", "new", "fn",
                      "amin", "amax", "sumiter", "element2d", "element3d", "table2d", "table3d", "newall", "factory"])
        if k == "factory":
            f = r.choice(["ints2d", "ints3d", "bools", "bools2d", "bools3d"])
            d = [r.randint(0, 2) for _ in range({"ints2d": 2, "ints3d": 3, "bools": 1, "bools2d": 2, "bools3d": 3}[f])]
            n = 1
            for x in d: n *= x
            if f.startswith("ints"):
                lo = r.randint(-3, 3); hi = lo + r.randint(-2, 3)          # reversed bounds are swapped by new_vars
                self.emit("%s %s %d %d" % (f, " ".join(map(str, d)), lo, hi))
                for _ in range(n): self.vars.append(('i', min(lo, hi), max(lo, hi)))
            else:
                self.emit("%s %s" % (f, " ".join(map(str, d))))
                for _ in range(n): self.vars.append(('b', 0, 1))
            return
        if k in ("amin", "amax"):
            self.emit("%s %s" % (k, self.xs(1, 4))); self.vars.append(('i', -100, 100)); return
        if k == "sumiter":
            n = r.randint(0, 4)
            ops = [("c:%d" % r.randint(-5, 5)) for _ in range(n)] if r.random() < 0.3 else [self.x() for _ in range(n)]
            self.emit("sumiter %s" % (",".join(ops) or "-")); self.vars.append(('i', -100, 100)); return
        if k in ("element2d", "element3d", "table2d", "table3d"):
            def row(w): return ",".join(self.x() for _ in range(w)) or "e"
            def mat(rows, cols, ragged):
                if rows == 0: return "-"
                return "/".join(row(cols if not (ragged and r.random() < 0.4) else r.randint(0, 3)) for _ in range(rows))
            ragged = r.random() < 0.15
            rows, cols, dep = r.randint(0 if ragged else 1, 3), r.randint(0 if ragged else 1, 3), r.randint(1, 2)
            def idxv(n):
                # index variable: prefer one whose domain meets 0..n-1, otherwise declare one
                okv = [i for i, v in enumerate(self.vars) if v[2] >= 0 and v[1] <= n - 1]
                if okv and r.random() < 0.7: return "x%d" % r.choice(okv)
                lo = r.randint(-1, 1); hi = max(lo, n - 1 + r.randint(-1, 1))
                self.emit("int %d %d" % (lo, hi)); self.vars.append(('i', lo, hi)); return "x%d" % (self.n() - 1)
            if k == "element2d":
                self.emit("element2d %s %s %s %s" % (mat(rows, cols, ragged), idxv(max(rows, 1)), idxv(max(cols, 1)), self.x()))
            elif k == "element3d":
                cube = "//".join((mat(rows, cols, ragged) if rows else "E") for _ in range(dep))
                self.emit("element3d %s %s %s %s %s" % (cube, idxv(dep), idxv(max(rows, 1)), idxv(max(cols, 1)), self.x()))
            else:
                nt = r.randint(0, 4); tl = r.random()
                rowsT = [",".join(str(r.randint(-3, 6)) for _ in range(cols if tl < 0.85 else max(0, cols + r.choice([-1, 1])))) for _ in range(nt)]
                rowsT = [x for x in rowsT if x]
                m = mat(rows, cols, ragged) if k == "table2d" else "//".join((mat(rows, cols, ragged) if rows else "E") for _ in range(dep))
                self.emit("%s %s %s" % (k, m, "|".join(rowsT) or "-"))
            return
        if k == "newall":
            h = r.choice(["andall", "orall", "allof", "anyof"])
            self.emit("new %s(%s)" % (h, ",".join(self.cons(0) for _ in range(r.randint(0, 3))))); return
        if k in ("add", "sub", "mul"):
            a, b = self.opnd(), self.opnd()
            if k == "mul":      # keep products in range: no operand from the large-magnitude declarations
                sm = [i for i, v in enumerate(self.vars) if max(abs(v[1]), abs(v[2])) <= 1000]
                if not sm: k = "add"
                else: a, b = "x%d" % self.rng.choice(sm), "x%d" % self.rng.choice(sm)
            self.emit("%s %s %s" % (k, a, b)); self.vars.append(('i', -100, 100))
        elif k == "mod":
            nz = [i for i, v in enumerate(self.vars) if v[1] > 0 or v[2] < 0]
            if not nz:
                d = "c:%d" % r.choice([-3, -2, 2, 3])
            else:
                d = "x%d" % r.choice(nz)
            self.emit("mod %s %s" % (self.opnd(), d)); self.vars.append(('i', -100, 100))
        elif k == "abs":
            self.emit("abs %s" % self.opnd()); self.vars.append(('i', 0, 100))
        elif k in ("min", "max"):
            self.emit("%s %s" % (k, self.xs(1, 4))); self.vars.append(('i', -100, 100))
        elif k == "sum":
            self.emit("sum %s" % self.xs(0, 4)); self.vars.append(('i', -100, 100))
        elif k in ("lin", "blin", "linr", "blinr"):
            n = r.randint(0, 4)
            xs = [self.bvar() if k.startswith("b") else self.x() for _ in range(n)]
            cs = [r.choice([0, 1, 1, -1, 2, -3, 5, 10]) for _ in range(n)]
            tail = (" " + self.bvar()) if k.endswith("r") else ""
            self.emit("%s %s %s %s %d%s" % (k, r.choice(["eq", "le", "ne"]), ",".join(map(str, cs)) or "-", ",".join(xs) or "-", r.randint(-8, 12), tail))
        elif k == "reif":
            self.emit("reif %s %s %s %s" % (r.choice(["eq", "ne", "lt", "le", "gt", "ge"]), self.x(), self.x(), self.bvar()))
        elif k in ("band", "bor"):
            self.emit("%s %s" % (k, ",".join(self.bvar() for _ in range(r.randint(0, 3))) or "-")); self.vars.append(('b', 0, 1))
        elif k == "bnot":
            self.emit("bnot %s" % self.bvar()); self.vars.append(('b', 0, 1))
        elif k == "bxor":
            self.emit("bxor %s %s" % (self.bvar(), self.bvar())); self.vars.append(('b', 0, 1))
        elif k == "implies":
            self.emit("implies %s %s" % (self.bvar(), self.bvar()))
        elif k == "clause":
            p = ",".join(self.bvar() for _ in range(r.randint(0, 2))) or "-"
            q = ",".join(self.bvar() for _ in range(r.randint(0, 2))) or "-"
            self.emit("clause %s %s" % (p, q))
        elif k in ("alldiff", "alleq"):
            self.emit("%s %s" % (k, self.xs(0, 4, dup=(r.random() < 0.15))))
        elif k in ("element", "aelement", "elementf"):
            m = r.randint(1, 4)
            arr = ",".join(self.x() for _ in range(m))
            # index variable: prefer one whose domain meets 0..m-1
            okv = [i for i, v in enumerate(self.vars) if v[2] >= 0 and v[1] <= m - 1]
            idx = "x%d" % r.choice(okv) if okv else None
            if idx is None:
                self.emit("int 0 %d" % (m - 1)); self.vars.append(('i', 0, m - 1)); idx = "x%d" % (self.n() - 1)
            if k == "element": self.emit("element %s %s %s" % (arr, idx, self.x()))
            elif k == "aelement": self.emit("aelement %s %s %s" % (idx, arr, self.x()))
            else:
                self.emit("elementf %s %s" % (arr, idx)); self.vars.append(('i', -1000, 1000))
        elif k == "table":
            m = r.randint(0, 3)
            xs = [self.x() for _ in range(m)]
            nt = r.randint(0, 4)
            tl = r.random()
            rows = []
            for _ in range(nt):
                w = m if tl < 0.85 else max(0, m + r.choice([-1, 1]))      # occasionally a tuple of the wrong arity
                rows.append(",".join(str(r.randint(-3, 6)) for _ in range(w)) or "-")
            rows = [x for x in rows if x != "-"]
            self.emit("table %s %s" % (",".join(xs) or "-", "|".join(rows) or "-"))
        elif k == "count":
            self.emit("count %s %s %s" % (self.xs(0, 4), self.opnd(), self.x()))
        elif k in ("atleast", "atmost", "exactly"):
            self.emit("%s %s %d %d" % (k, self.xs(0, 4), self.small(), r.randint(-1, 5)))
        elif k == "between":
            self.emit("between %s %s %s" % (self.x(), self.x(), self.x()))
        elif k == "gcc":
            m = r.randint(0, 3)
            vals = ",".join(str(self.small()) for _ in range(m)) or "-"
            cn = ",".join(self.x() for _ in range(m + (r.choice([-1, 0, 0, 0, 1]) if m else 0))) or "-"
            self.emit("gcc %s %s %s" % (self.xs(0, 4), vals, cn))
        elif k == "new":
            self.emit("new " + self.cons(1))
        elif k == "fn":
            self.emit("fn %s %s %s" % (r.choice(["eq", "ne", "lt", "le", "gt", "ge"]), self.expr(2), self.expr(1)))

    def entries(self, lo=1, hi=3):
        r = self.rng
        for _ in range(r.randint(lo, hi)):
            if self.n() and r.random() < 0.5:
                self.emit("%s %s" % (r.choice(ENTRIESV), self.x()))
            else:
                self.emit(r.choice(ENTRIES0))
    def line(self): return " ; ".join(self.calls)

def gen_valid_one(rng, big=False):
    g = G(rng)
    for _ in range(rng.randint(1, 5)): g.decl(big)
    if g.n() == 0: g.emit("int 0 3"); g.vars.append(('i', 0, 3))
    for _ in range(rng.randint(0, 5)):
        g.call()
        if rng.random() < 0.1: g.decl(big)
    g.entries()
    return g

def gen_valid(tier, rng):
    n = 2500 if tier == "quick" else 60000
    out = []
    for i in range(n):
        out.append(gen_valid_one(rng, big=(i % 5 == 0)).line())
    return out

MAL_KINDS = ["reversed_bounds", "empty_set", "empty_minmax", "len_mismatch", "len_mismatch_reif", "zero_divisor", "zero_divisor_fluent",
             "elem_index_oob", "elem_empty_array", "memory_budget", "memory_then_calls", "empty_aminmax", "elem2d_index_oob", "elem_nd_empty", "gcc_len_mismatch", "empty_domain_posting"]

def gen_malformed_one(rng, kind):
    """a valid prefix, ONE documented invalid input of the given kind, a valid suffix, entries"""
    g = G(rng)
    if kind in ("memory_budget", "memory_then_calls"):
        g.emit("cfg mem %d" % rng.choice([0, 1, 1, 2]), "cfg")
    for _ in range(rng.randint(1, 3)): g.decl()
    if g.n() == 0: g.emit("int 0 3"); g.vars.append(('i', 0, 3))
    for _ in range(rng.randint(0, 2)): g.call()
    r = rng
    if kind == "reversed_bounds":
        lo = r.randint(-5, 5); g.emit("int %d %d" % (lo, lo - r.randint(1, 6)), kind); g.vars.append(('i', lo, lo))
    elif kind == "empty_set":
        g.emit("intset -", kind); g.vars.append(('i', 0, 0))
    elif kind == "empty_minmax":
        g.emit(r.choice(["min -", "max -"]), kind)
    elif kind in ("len_mismatch", "len_mismatch_reif"):
        n = r.randint(0, 4)
        xs = [g.x() for _ in range(n)]
        m = n + r.choice([-2, -1, 1, 2])
        while m < 0 or m == n: m = n + r.choice([-1, 1, 2])
        cs = [r.choice([1, -1, 2, 3]) for _ in range(m)]
        k = r.choice(["lin", "blin"]) if kind == "len_mismatch" else r.choice(["linr", "blinr"])
        tail = (" " + g.bvar()) if k.endswith("r") else ""
        g.emit("%s %s %s %s %d%s" % (k, r.choice(["eq", "le", "ne"]), ",".join(map(str, cs)) or "-", ",".join(xs) or "-", r.randint(-3, 8), tail), kind)
    elif kind == "zero_divisor":
        t = r.random()
        if t < 0.3: d = "c:0"
        else:
            lo = r.randint(-3, 0); hi = r.randint(0, 3)
            if t < 0.5: lo = hi = 0
            g.emit("int %d %d" % (lo, hi)); g.vars.append(('i', lo, hi)); d = "x%d" % (g.n() - 1)
        g.emit("mod %s %s" % (g.opnd(), d), kind); g.vars.append(('i', -100, 100))
    elif kind == "zero_divisor_fluent":
        t = r.random()
        if t < 0.3: d = "0"
        else:
            lo = r.randint(-3, 0); hi = r.randint(0, 3)
            g.emit("int %d %d" % (lo, hi)); g.vars.append(('i', lo, hi)); d = "x%d" % (g.n() - 1)
        g.emit("new %s(mod(%s,%s),%s)" % (r.choice(["eq", "le", "ne"]), g.expr(1), d, g.expr(0)), kind)
    elif kind == "elem_index_oob":
        m = r.randint(1, 3)
        arr = ",".join(g.x() for _ in range(m))
        if r.random() < 0.5: lo = m + r.randint(0, 3); hi = lo + r.randint(0, 2)
        else: hi = -1 - r.randint(0, 3); lo = hi - r.randint(0, 2)
        g.emit("int %d %d" % (lo, hi)); g.vars.append(('i', lo, hi)); idx = "x%d" % (g.n() - 1)
        t = r.random()
        if t < 0.4: g.emit("element %s %s %s" % (arr, idx, g.x()), kind)
        elif t < 0.7: g.emit("aelement %s %s %s" % (idx, arr, g.x()), kind)
        else: g.emit("elementf %s %s" % (arr, idx), kind); g.vars.append(('i', -1000, 1000))
    elif kind == "elem_empty_array":
        g.emit("element - %s %s" % (g.x(), g.x()), kind)
    elif kind == "gcc_len_mismatch":
        m = r.randint(0, 3)
        k = m + r.choice([-2, -1, 1, 2])
        while k < 0 or k == m: k = m + r.choice([-1, 1, 2])
        g.emit("gcc %s %s %s" % (g.xs(0, 4), ",".join(str(g.small()) for _ in range(m)) or "-", ",".join(g.x() for _ in range(k)) or "-"), kind)
    elif kind == "empty_domain_posting":
        # an operand with an EMPTY domain (reversed bounds, empty value set, or emptied by x == c) is read by a posting method
        # that derives a result variable from its operands' bounds: Err(InvalidDomain) / unsat from the solving call, no panic
        t = r.random()
        if t < 0.35:
            lo = r.randint(-5, 5); g.emit("int %d %d" % (lo, lo - r.randint(1, 6)), "reversed_bounds"); g.vars.append(('i', lo, lo))
        elif t < 0.6:
            g.emit("intset -", "empty_set"); g.vars.append(('i', 0, 0))
        else:
            lo = r.randint(-3, 3); hi = lo + r.randint(0, 3)
            g.emit("int %d %d" % (lo, hi)); g.vars.append(('i', lo, hi))
            g.emit("new eq(x%d,%d)" % (g.n() - 1, r.choice([lo - 1 - r.randint(0, 3), hi + 1 + r.randint(0, 3)])), kind)
        e = "x%d" % (g.n() - 1)
        for _ in range(r.randint(1, 3)):
            k = r.choice(["add", "sub", "mul", "mod", "abs", "min", "max", "amin", "amax", "sum", "sumiter", "elementf", "neweq"])
            o = lambda: e if r.random() < 0.6 else g.opnd()
            if k in ("add", "sub", "mul"):
                a, b = (e, o()) if r.random() < 0.5 else (o(), e)
                g.emit("%s %s %s" % (k, a, b), kind); g.vars.append(('i', 0, 0))
            elif k == "mod":
                g.emit("mod %s c:%d" % (e, r.choice([-3, 2, 3])) if r.random() < 0.5 else "mod %s %s" % (g.opnd(), e), kind); g.vars.append(('i', 0, 0))
            elif k == "abs":
                g.emit("abs " + e, kind); g.vars.append(('i', 0, 0))
            elif k in ("min", "max", "amin", "amax", "sum", "sumiter"):
                xs = [g.x() for _ in range(r.randint(0, 2))] + [e]; r.shuffle(xs)
                g.emit("%s %s" % (k, ",".join(xs)), kind); g.vars.append(('i', 0, 0))
            elif k == "elementf":
                xs = [g.x() for _ in range(r.randint(0, 2))] + [e]; r.shuffle(xs)
                g.emit("int 0 %d" % (len(xs) - 1)); g.vars.append(('i', 0, len(xs) - 1))
                g.emit("elementf %s x%d" % (",".join(xs), g.n() - 1), kind); g.vars.append(('i', 0, 0))
            else:
                g.emit("new eq(%s,%s)" % (e, g.x()), kind)
    elif kind == "empty_aminmax":
        g.emit(r.choice(["amin -", "amax -"]), "empty_minmax")
    elif kind == "elem2d_index_oob":
        # rectangular matrix / cube, ONE index variable wholly outside its range (negative values included)
        rows, cols, dep = r.randint(1, 3), r.randint(1, 3), r.randint(1, 2)
        three = r.random() < 0.4
        dims = ([dep] if three else []) + [rows, cols]
        bad = r.randrange(len(dims))
        idx = []
        for j, n in enumerate(dims):
            if j == bad:
                if r.random() < 0.5: lo = n + r.randint(0, 3); hi = lo + r.randint(0, 2)
                else: hi = -1 - r.randint(0, 3); lo = hi - r.randint(0, 2)
            else: lo, hi = 0, n - 1
            g.emit("int %d %d" % (lo, hi)); g.vars.append(('i', lo, hi)); idx.append("x%d" % (g.n() - 1))
        m = lambda: "/".join(",".join(g.x() for _ in range(cols)) for _ in range(rows))
        if three: g.emit("element3d %s %s %s" % ("//".join(m() for _ in range(dep)), " ".join(idx), g.x()), "elem_index_oob")
        else: g.emit("element2d %s %s %s" % (m(), " ".join(idx), g.x()), "elem_index_oob")
    elif kind == "elem_nd_empty":
        t = r.random()
        if t < 0.5: g.emit("element2d %s %s %s %s" % (r.choice(["-", "e", "e/e"]), g.x(), g.x(), g.x()), "elem_empty_array")
        else: g.emit("element3d %s %s %s %s %s" % (r.choice(["-", "E", "e", "E//E"]), g.x(), g.x(), g.x(), g.x()), "elem_empty_array")
    elif kind == "memory_budget":
        for _ in range(r.randint(1, 4)):
            g.emit("int 0 %d" % r.choice([300000, 1000000, 2000000]), kind); g.vars.append(('i', 0, 100))
    elif kind == "memory_then_calls":
        # the budget is exceeded, the program goes on using the handles it got
        g.emit("int 0 %d" % r.choice([1000000, 2000000, 3000000]), kind); g.vars.append(('i', 0, 100))
        g.emit("int 0 %d" % r.choice([1000000, 2000000, 3000000]), kind); g.vars.append(('i', 0, 100))
    for _ in range(rng.randint(0, 2)): g.call()
    g.entries(1, 3)
    return g

def gen_malformed(tier, rng):
    n = 1500 if tier == "quick" else 30000
    out = []
    for i in range(n):
        out.append(gen_malformed_one(rng, MAL_KINDS[i % len(MAL_KINDS)]).line())
    # memory budget exceeded before the first variable exists
    out += ["cfg mem 0 ; int 0 10 ; solve", "cfg mem 0 ; int 0 10 ; add x0 x0 ; solve", "cfg mem 0 ; bool ; bnot x0 ; enum",
            "cfg mem 0 ; int 0 10 ; int 0 10 ; lin eq 1,1 x0,x1 3 ; solve ; enum ; minimize x0 ; miniter x0"]
    return out

def gen_modelled_one(rng):
    """only the vocabulary of Model/Lower.v (int/bool/intset/ints, new, lin, add/sub/mul on variables): every call gets a
    prediction from the model; ~45 % of the cases carry an invalid input the model knows about"""
    g = G(rng); r = rng
    for _ in range(r.randint(1, 4)):
        t = r.random()
        if t < 0.08:
            lo = r.randint(-4, 4); g.emit("int %d %d" % (lo, lo - r.randint(1, 4)), "reversed_bounds"); g.vars.append(('i', lo, lo))
        elif t < 0.14:
            g.emit("intset -", "empty_set"); g.vars.append(('i', 0, 0))
        else:
            g.decl()
    if g.n() == 0: g.emit("int 0 3"); g.vars.append(('i', 0, 3))
    for _ in range(r.randint(0, 4)):
        t = r.random()
        if t < 0.3:
            g.emit("new " + g.cons(1))
        elif t < 0.4:
            # Var == Val with a value that may lie outside the domain, Var == Var (post-time bounds)
            g.emit("new eq(%s,%d)" % (g.x(), r.randint(-8, 12)) if r.random() < 0.6 else "new eq(%s,%s)" % (g.x(), g.x()))
        elif t < 0.5:
            lo = r.randint(-2, 0); hi = r.randint(0, 2)
            g.emit("int %d %d" % (lo, hi)); g.vars.append(('i', lo, hi))
            g.emit("new %s(mod(%s,x%d),%s)" % (r.choice(["eq", "le"]), g.expr(1), g.n() - 1, g.expr(0)), "zero_divisor_fluent")
        elif t < 0.75:
            n = r.randint(0, 3)
            m = n if r.random() < 0.7 else max(0, n + r.choice([-1, 1]))
            g.emit("lin %s %s %s %d" % (r.choice(["eq", "le", "ne"]), ",".join(str(r.choice([0, 1, -1, 2, 3])) for _ in range(m)) or "-",
                                        ",".join(g.x() for _ in range(n)) or "-", r.randint(-4, 8)), "lin" if m == n else "len_mismatch")
        else:
            g.emit("%s %s %s" % (r.choice(["add", "sub", "mul"]), g.x(), g.x())); g.vars.append(('i', -100, 100))
    g.entries(1, 3)
    return g

def gen_modelled(tier, rng):
    n = 2000 if tier == "quick" else 40000
    return [gen_modelled_one(rng).line() for _ in range(n)]

EXTREMES = [I32MIN, I32MIN + 1, I32MAX, I32MAX - 1, 2 ** 30, -2 ** 30, 2 ** 30 + 7, 1500000000, -1500000000, 46341, 65536, -65536, 100000000]

def gen_extreme_one(rng):
    g = G(rng)
    r = rng
    g.emit("cfg mem 8 timeout 500", "cfg")     # caps the size of derived domains (a product with a large constant), not a limit under test
    for _ in range(r.randint(1, 3)):
        t = r.random()
        c = r.choice(EXTREMES)
        if t < 0.5:
            w = r.choice([0, 1, 5, 19])
            lo, hi = (c, c + w) if c + w <= I32MAX else (c - w, c)
            g.emit("int %d %d" % (lo, hi)); g.vars.append(('i', lo, hi))
        elif t < 0.7:
            # value sets containing i32::MIN / i32::MIN+1 are left out of the quick stream: the solving call then allocates
            # gigabytes and needs > 10 s before it answers InvalidDomain (a resource blow-up, not a panic; see the report)
            # (likewise i32::MAX in a value set in the release profile: 20-40 s of wrapped-around loops)
            if c <= I32MIN + 1: c = I32MIN + 2
            if c >= I32MAX: c = I32MAX - 1
            vals = [c, max(I32MIN + 2, min(I32MAX - 1, c + r.choice([-3, 2, 1])))]
            if abs(vals[0] - vals[1]) > 100: vals = [c]
            g.emit("intset " + ",".join(map(str, vals))); g.vars.append(('i', min(vals), max(vals)))
        else:
            g.decl()
    if g.n() == 0: g.emit("int 0 3"); g.vars.append(('i', 0, 3))
    for _ in range(r.randint(1, 3)):
        t = r.random()
        if t < 0.25:
            n = r.randint(1, 3)
            g.emit("%s %s %s %s %d" % (r.choice(["lin", "blin"]), r.choice(["eq", "le", "ne"]), ",".join(str(r.choice(EXTREMES + [1, -1, 2])) for _ in range(n)),
                                       ",".join(g.x() for _ in range(n)), r.choice(EXTREMES + [0, 5])))
        elif t < 0.35:
            n = r.randint(1, 3)
            g.emit("linr %s %s %s %d %s" % (r.choice(["eq", "le", "ne"]), ",".join(str(r.choice(EXTREMES + [1, -1, 2])) for _ in range(n)),
                                            ",".join(g.x() for _ in range(n)), r.choice(EXTREMES + [0, 5]), g.x()))
        elif t < 0.5:
            g.emit("%s %s %s" % (r.choice(["add", "sub", "mul", "mod"]), g.x(), r.choice([g.x(), "c:%d" % r.choice(EXTREMES)]))); g.vars.append(('i', 0, 0))
        elif t < 0.6:
            g.emit("abs %s" % g.x()); g.vars.append(('i', 0, 0))
        elif t < 0.7:
            g.emit("sum %s" % g.xs(1, 3)); g.vars.append(('i', 0, 0))
        elif t < 0.85:
            a = r.choice([g.x(), str(r.choice(EXTREMES))]); b = r.choice([g.x(), str(r.choice(EXTREMES))])
            op = r.choice(["add", "sub", "mul"])
            g.emit("new %s(%s(%s,%s),%s)" % (r.choice(["eq", "le", "lt", "gt", "ne"]), op, a, b, r.choice([g.x(), str(r.choice(EXTREMES))])))
        elif t < 0.92:
            g.emit("%s %s %d %d" % (r.choice(["atleast", "atmost", "exactly"]), g.xs(1, 3), r.choice(EXTREMES), r.choice(EXTREMES + [1])))
        else:
            g.call()
    g.entries(1, 2)
    return g

SLOW_EXTREMES = [      # thorough tier only: each needs 10-40 s in one of the profiles
    "cfg mem 8 ; intset -2147483648,-2147483646 ; solve",
    "cfg mem 8 ; intset 2147483647 ; solve ; enum",
    "cfg mem 8 ; bool ; intset 2147483647,2147483647 ; abs x1 ; maximize x0 ; enum",
]

def gen_extreme(tier, rng):
    n = 200 if tier == "quick" else 20000
    out = [gen_extreme_one(rng).line() for _ in range(n)]
    if tier != "quick": out += SLOW_EXTREMES
    return out

# ------------------------------------------------------------------------------------------------
# judging

REL = {}        # case -> release-profile output (filled by prejudge)
DIST = {}

def _classes(out):
    return [p.strip() for p in out.split(";")]

def _entry_positions(case):
    """indices (in the output list) of the solving entry points: building calls first, then entries"""
    st = [p.split() for p in case.split(";") if p.split()]
    nb = sum(1 for t in st if t[0] != "cfg" and t[0] not in ("solve", "enum", "enumstats", "minimize", "maximize", "miniter", "maxiter", "validate"))
    ents = [t for t in st if t[0] in ("solve", "enum", "enumstats", "minimize", "maximize", "miniter", "maxiter", "validate")]
    return nb, ents

def judge_one(case, impl, spec, profile):
    v = spec.split()[0] if spec else "unspecified"
    if v == "unspecified":
        return None
    if impl.startswith("CRASH") or impl.startswith("HANG") or impl == "MISSING":
        return "%s build: the harness process died or hung on this sequence: %s" % (profile, impl)
    cl = _classes(impl)
    for c in cl:
        if c.startswith("PANIC"):
            return "%s build panics: %s" % (profile, c)
    m = re.search(r"at=([\d,]+)", spec)
    if m:
        for i in m.group(1).split(","):
            i = int(i)
            if i < len(cl) and not cl[i].startswith("err"):
                return "%s build: call %d must return Err itself (%s) but gave `%s`" % (profile, i, spec, cl[i])
    if v == "must_be_err_or_unsat":
        nb, ents = _entry_positions(case)
        for j, e in enumerate(ents):
            if e[0] == "validate": continue
            k = nb + j
            if k < len(cl) and cl[k] == "ok":
                return "%s build: documented invalid input (%s) but %s answers with a solution" % (profile, " ".join(spec.split()[1:]), e[0])
    return None

def judge(case, impl, spec):
    w = judge_one(case, impl, spec, "debug")
    if w: return w
    if case in REL:
        return judge_one(case, REL[case], spec, "release")
    return None

def corr(case, impl, mpart):
    """model prediction per call: `?` = no prediction; `run` = the entry reaches the search (ok/unsat/timeout)"""
    if mpart is None or mpart.strip() in ("", "-"): return True
    mp, ip = _classes(mpart), _classes(impl)
    for i, m in enumerate(mp):
        if m == "?": continue
        if i >= len(ip): return ip and ip[-1].startswith("PANIC") and False
        a = ip[i]
        if m == "PANIC":
            if not a.startswith("PANIC"): return False
            return True            # nothing follows a panic in the building phase
        if m == "run":
            if a not in ("ok", "unsat", "timeout"): return False
        elif a != m: return False
    return True

def prejudge(cases, impl, model):
    """second profile: run the same cases on the --release harness"""
    with core.Lock():
        ok, out = core.build_harness(release=True)
    if not ok:
        core.log("release harness build failed:\n" + out[-2000:])
        return
    rel = core.run_lines(core.harness_exe(release=True), "api", cases)
    for c, o in zip(cases, rel):
        REL[c] = o if o is not None else "MISSING"
    _record_distribution(cases, impl, rel, model)

def _record_distribution(cases, impl, rel, model):
    """input and outcome distribution of this family, appended to RULE (evidence.coverage.rule)"""
    global RULE
    calls, kinds, verdicts, classes = {}, {}, {}, {}
    outd, outr = {}, {}
    for c, d, r, m in zip(cases, impl, rel, model):
        for p in c.split(";"):
            t = p.split()
            if t: calls[t[0]] = calls.get(t[0], 0) + 1
        sp = (m or "").split(" ||| ", 1)[-1]
        if sp.startswith("BAD:"):
            k, sp = sp.split(" ", 1); classes[k[4:]] = classes.get(k[4:], 0) + 1
        v = sp.split()[0] if sp else "?"
        verdicts[v] = verdicts.get(v, 0) + 1
        mk = re.search(r"kinds=(\S+)", sp)
        for k in (mk.group(1).split(",") if mk else []):
            kinds[k] = kinds.get(k, 0) + 1
        for o, acc in ((d, outd), (r, outr)):
            for q in (o or "MISSING").split(" ; "):
                q = "PANIC" if q.startswith("PANIC") else q
                acc[q] = acc.get(q, 0) + 1
    key = "family%d" % (len(DISTRIBUTION) + 1)
    DISTRIBUTION[key] = {"cases": len(cases), "calls": calls, "invalid_kinds": kinds, "verdicts": verdicts, "known_classes": classes,
                         "outcomes_debug": outd, "outcomes_release": outr}
    RULE = RULE_BASE + " | input distribution of this run: " + repr(DISTRIBUTION)

def classify(case, impl, cls):
    return cls

def nontrivial(case, impl):
    nb, ents = _entry_positions(case)
    return nb >= 2 and len(ents) >= 1

def _fam(name, gen):
    f = Family(name, "api", gen, nontrivial=nontrivial, prop_judge=judge)
    f.corr = corr
    f.prejudge = prejudge
    f.classify = classify
    return f

FAMILIES = [_fam("valid_stream", gen_valid), _fam("malformed_stream", gen_malformed), _fam("modelled_stream", gen_modelled), _fam("extreme_stream", gen_extreme)]

def distribution(cases):
    d = {}
    for c in cases:
        for p in c.split(";"):
            t = p.split()
            if t: d[t[0]] = d.get(t[0], 0) + 1
    return d
