"""C06 — float/mixed models: returned solutions stay in bounds and satisfy every posted constraint within the
precision tolerance; integer variables stay exact; a constraint between two float variables is never silently ignored.

Families (sub-commands of harness/src/fsolve.rs and ocaml/fsolve_cmd.ml):
  fsolve_random   solvef   random float/mixed models through the public Model API, all posting routes (lin_* with f64 and
                           i32 coefficients, fluent comparisons var-var / var-const / linear expressions, props-level
                           propagators, int2float/floor/ceil/round), entries solve/minimize/maximize, root LP on/off,
                           fast path on/off, precisions 1..12.  ORACLE-ONLY (the Model-level float path has no Coq model):
                           every returned assignment is judged with exact rationals (vlib/fmodel.py).
  fne_routes      solvef   models made of `!=` rows over float (and some integer) variables through every route that posts one
                           (lin_ne with f64 / i32 coefficients, fluent x.ne(y) / x.ne(c), props.float_lin_ne), constants chosen so
                           that the first point the search reaches violates the row; satisfiable by construction: a returned
                           point is judged exactly (`!=` has no tolerance) and NoSolution is a failure.  ORACLE-ONLY.
  flower_cover    lowerf   the same models lowered through hook H2 (Model::verif_lower): every posted constraint that
                           relates a float variable to another variable must be covered by a propagator that can act on
                           floats (structural reading of "never silently ignored"); the lowering DECISION (IntLin* or
                           FloatLin* per linear post) is a Coq function (linear_lowering) compared with the lowered model.
  farith_random   solvef   the ARITHMETIC and ELEMENT routes on float / mixed operands: m.add/sub/mul/div/abs/min/max/sum (variable and
                           Val operands), array_float_minimum/maximum/element, element over a float array with an integer index,
                           non-linear fluent expressions (x.mul(y), x.div(y), x.mul(y).add(z).le(c), expression == variable) with
                           their hidden auxiliary variables; result handles feed further posts and linear rows.  ORACLE-ONLY:
                           z = f(operands) judged in exact rationals within the tolerance derived in vlib/fmodel.py.
  fprop_exact     propf    props-level float propagators (FloatLinEq/Le/Ne, LessThanOrEquals/Eq with float operands):
                           extracted Coq model (coq/Model/FloatProps.v) == implementation, bit for bit.
  fsearch_exact   searchf  props-level float/mixed search (propagation + bisection): extracted model
                           (coq/Model/FloatSearch.v) == implementation, bit for bit, and every reported point judged."""
import random
from fractions import Fraction
from ..core import Family
from .. import fmodel as fm
from ..fmodel import hq

TRUSTED_BASE = [
    "Coq 8.16.1 kernel (coqc full .vo build); vm_compute for closed witnesses",
    "Flocq 4.1.0 as installed; its theorems depend on the standard library's real-number axioms (ClassicalDedekindReals.sig_forall_dec, sig_not_dec, FunctionalExtensionality.functional_extensionality_dep, Classical_Prop.classic where listed)",
    "hand-written bit-exact models coq/Model/FloatProps.v (props/linear.rs:460-810, leq.rs, eq.rs over float views) and coq/Model/FloatSearch.v (search/{mod,branch,mode}.rs on float/mixed stores) over Model/{B64,FloatInterval,CtxFloat}.v: modelled, not verified; tied by this run's bit-for-bit differentials (families fprop_exact, fsearch_exact)",
    "the Model-level float path (runtime_api lowering of float constraints, Model::minimize/maximize dispatch, root LP step, optimisation fast path) is NOT modelled in Coq: families fsolve_random, flower_cover and farith_random are oracle-only",
    "arithmetic / element / non-linear fluent routes (family farith_random): m.add/sub/mul/div/abs/min/max/sum, array_float_minimum/maximum/element, ModelExt::elem and fluent x.mul(y) / x.div(y) trees are judged by z = f(operands) in exact rationals within tol_f = spread_f + w(s) + P(s) + 2^-40*magnitude (W = 3/2 step, P(s) = max(3 step, 1e-5(|s|+W)); spreads per operation and the error propagation through hidden auxiliary variables: docstring of vlib/fmodel.py); of these propagators Add / Sub / Mul have a Coq model (Model/FloatProps.v prune_fadd, prune_fmul, tied bit for bit by fprop_exact kinds add / sub / mul; for Mul the proved part is integers-only-shrink and the divisor guard, Proofs/FloatMulProofs.v); Div, Abs, Min, Max, Sum, Element on floats are NOT modelled",
    "this run's exact-rational judge vlib/fmodel.py (fractions.Fraction on f64 bit patterns) with the tolerance derived in its docstring: tol(row) = sum_{float j}|c_j|*(5*step + 1e-5*B_j) + 2^-40*(|K| + sum|c_j|*B_j)",
    "extraction ExtrOcamlBasic + ExtrOcamlNatInt, no Extract Constant of our own; ocaml/fsolve_cmd.ml glue; Rust harness harness/src/fsolve.rs (hooks H2, H5)",
]
ASSUMPTIONS = [
    "no time or memory limit fires: a Timeout answer is not judged (C15); the harness sets a per-case timeout (default 400 ms in the random family)",
    "`!=` is judged exactly, strict inequalities as non-strict ones within the tolerance",
    "theorems float_values_in_bounds / float_lin_le_fixpoint_within_tol carry the magnitude hypothesis magn_b of C12F (|values| <= 2^50*step, 2^-60 <= step <= 2^60)",
    "NOT proved: numerical closeness of the binary64 accumulation in FloatLin* to the exact-rational reading beyond one pruning step (declared gap); the tolerance formula itself is validated only by this run's judge",
]
RULE_ARITH = ("farith_random: 2-4 declared variables (float; ~22 % int; bounds on and off the step grid, zero-crossing, negative, single-valued, magnitudes 1e3..1e6 at precisions 1..3), "
              "1-3 arithmetic posts chained through their result handles (add sub mul div abs min max sum fmin fmax with variable and Val operands; element posts through all three routes with a "
              "partly out-of-range index; non-linear fluent constraints mul / div / mul+add / nested, compared with constants and with variables), 0-2 linear rows or bounds on results; divisors "
              "keep |y| >= 1/2; every node stays below 2^45 steps in magnitude")
RULE = ("random float/mixed models (1-4 variables, 0-4 constraints, bounds multiples of 1/2, coefficients multiples of 1/4 plus a share of non-dyadic values, precisions 1..12) "
        "posted through every route; a returned assignment must keep every float value inside its declared bounds +- step, every int value inside its domain, and satisfy every posted "
        "constraint within tol(row); non-trivial = a solution was returned; " + RULE_ARITH)

# ------------------------------------------------------------------------------------------------ generator
def rand_point(rng, decls, step):
    pt = []
    for d in decls:
        t = d.split()
        if t[0] == "I":
            pt.append(Fraction(rng.randint(int(t[1]), int(t[2]))))
        else:
            lo, hi = fm.h2q(t[1]), fm.h2q(t[2])
            pt.append(lo + (hi - lo) * Fraction(rng.randint(0, 16), 16))
    return pt

UGLY = [0.1, 0.3, 1.0 / 3.0, 2.7, 1e-3, 0.7, 1.1, 12.5, 100.0, 33.3]
def rand_coeff(rng):
    r = rng.random()
    if r < 0.05: return Fraction(0)
    if r < 0.17: return Fraction(rng.choice(UGLY)) * rng.choice([1, -1])
    return rng.choice(fm.NICE)

def rand_post(rng, decls, pt, route=None):
    """one posted constraint (text), roughly satisfiable at pt"""
    nv = len(decls)
    isf = [d.startswith("F") for d in decls]
    route = route or rng.choice(["lin", "lin", "lin", "new", "new", "new", "props", "props", "ilin", "conv"])
    k = min(nv, rng.choice([1, 1, 2, 2, 2, 3]))
    xs = rng.sample(range(nv), k)
    if route in ("lin", "props") and (route == "lin" or rng.random() < 0.5):
        cs = [rand_coeff(rng) for _ in xs]
        rel = rng.choice(["le", "le", "le", "le", "eq", "eq", "ne"])
        lhs = sum(Fraction(float(c)) * pt[x] for c, x in zip(cs, xs))
        if rel == "le": K = lhs + Fraction(rng.randint(-2, 12), 4)
        elif rel == "eq": K = lhs if rng.random() < 0.85 else lhs + 1
        else: K = lhs if rng.random() < 0.5 else lhs + Fraction(1, 2)
        body = "%s %s %s" % (",".join(hq(c) for c in cs), ",".join("x%d" % x for x in xs), hq(K))
        return ("lin %s " % rel + body) if route == "lin" else ("props flin%s " % rel + body)
    if route == "ilin":
        cs = [rng.choice([-3, -2, -1, 1, 1, 2, 3]) for _ in xs]
        rel = rng.choice(["le", "le", "eq", "ne"])
        lhs = sum(c * pt[x] for c, x in zip(cs, xs))
        K = int(lhs // 1) + (rng.randint(0, 3) if rel == "le" else 0)
        return "ilin %s %s %s %d" % (rel, ",".join(map(str, cs)), ",".join("x%d" % x for x in xs), K)
    if route == "props":
        rel = rng.choice(["leq", "leq", "lt", "geq", "gt", "eq"])
        a = xs[0]
        if len(xs) >= 2 and rng.random() < 0.6:
            b = "x%d" % xs[1]; bv = pt[xs[1]]
        else:
            bv = pt[a] + Fraction(rng.randint(-3, 6), 4)
            b = ("f:" + hq(bv)) if (isf[a] or rng.random() < 0.5) else "i:%d" % int(bv // 1)
        if rng.random() < 0.3:
            return "props %s %s x%d" % (rel, b, a)
        return "props %s x%d %s" % (rel, a, b)
    if route == "conv":
        fi = [i for i in range(nv) if isf[i]]; ii = [i for i in range(nv) if not isf[i]]
        if not fi or not ii:
            return rand_post(rng, decls, pt, "lin")
        f, i = rng.choice(fi), rng.choice(ii)
        kind = rng.choice(["i2f", "floor", "ceil", "round"])
        return "conv i2f x%d x%d" % (i, f) if kind == "i2f" else "conv %s x%d x%d" % (kind, f, i)
    # fluent
    rel = rng.choice(["le", "le", "lt", "ge", "gt", "eq", "ne"])
    def cst(v, allow_int=True):
        if allow_int and rng.random() < 0.4: return str(int(v // 1))
        return "f:" + hq(v)
    shape = rng.random()
    a = xs[0]
    if shape < 0.35 and len(xs) >= 2:
        l, r = "x%d" % a, "x%d" % xs[1]
    elif shape < 0.65:
        l, r = "x%d" % a, cst(pt[a] + Fraction(rng.randint(-2, 6), 4))
        if rng.random() < 0.25: l, r = r, l
    else:
        terms = []
        tot = Fraction(0)
        for x in xs:
            c = rand_coeff(rng)
            if c == 0: c = Fraction(1)
            if c == 1 and rng.random() < 0.5: terms.append("x%d" % x)
            elif c.denominator == 1 and rng.random() < 0.5: terms.append("mul(x%d,%d)" % (x, int(c)))
            else: terms.append("mul(x%d,f:%s)" % (x, hq(c)))
            tot += Fraction(float(c)) * pt[x]
        l = terms[0]
        for t in terms[1:]:
            l = "%s(%s,%s)" % (rng.choice(["add", "add", "sub"]), l, t)
        # recompute the value of l at pt exactly through the parser
        co, k0, _ = fm._lin_expr(l)
        val = sum(c * pt[v] for v, c in co.items()) + k0
        r = cst(val + Fraction(rng.randint(-2, 8), 4))
    return "new %s(%s,%s)" % (rel, l, r)

def gen_model(rng, tier):
    nv = rng.choice([1, 2, 2, 2, 3, 3, 4])
    prec = rng.choice([1, 2, 2, 3, 3, 4, 4, 6, 6, 6, 8, 10, 12])
    decls = fm.rand_decls(rng, nv, mixed=True, wide=rng.random() < 0.15)
    if not any(d.startswith("F") for d in decls):
        decls[0] = "F %s %s" % (hq(Fraction(-2)), hq(Fraction(7)))
    pt = rand_point(rng, decls, fm.step_of(prec))
    posts = [rand_post(rng, decls, pt) for _ in range(rng.choice([0, 1, 1, 2, 2, 3, 3, 4]))]
    r = rng.random()
    if r < 0.55: entry = ["solve"]
    else:
        entry = ["%s x%d" % (rng.choice(["min", "max"]), rng.randrange(nv))]
        if rng.random() < 0.6: entry.append("lp")
        if rng.random() < 0.4: entry.append("fp")
    return " ; ".join([str(prec), "|".join(decls)] + posts + entry + ["to 400"])

def gen_random(tier, rng):
    n = 1500 if tier == "quick" else 40000
    return [gen_model(rng, tier) for _ in range(n)]

# ------------------------------------------------------------------------------------------------ judges
def split_oracle(model_line):
    from ..core import default_split
    m, s, cls = default_split(model_line)
    return None, (s if s is not None else "-"), cls

def failing(case, impl):
    """list of (reason, class-or-None) for a returned assignment"""
    st, vals, kinds, lp = fm.parse_impl(impl)
    if st != "ok":
        return []
    out = []
    if len(vals) < len(case.decls):
        return [("wrong number of values", None)]
    vals, kinds = vals[:len(case.decls)], kinds[:len(case.decls)]
    for i, ((k, lo, hi), v, kk) in enumerate(zip(case.decls, vals, kinds)):
        if v is None:
            out.append(("x%d is not finite" % i, None)); continue
        if k == "I":
            if kk != "I" or not (lo <= v <= hi):
                out.append(("int variable x%d = %s outside its declared domain" % (i, v), None))
        elif i in case.derived:
            if kk != "F":
                out.append(("result handle x%d of a float operation reported as an integer" % i, None))
        else:
            if kk != "F" or not (lo - case.step <= v <= hi + case.step):
                cls = None
                out.append(("x%d = %.12g outside its declared bounds [%.12g, %.12g]" % (i, float(v), float(lo), float(hi)), cls))
    if any(v is None for v in vals):
        return out
    for r in case.rows:
        w = fm.row_violation(case, r, vals)
        if w:
            out.append((w, fm.row_class(case, r)))
    return out

def judge_solve(line, impl, spec):
    if impl.startswith("PANIC") or impl in ("MISSING", "HANG") or impl.startswith("CRASH"):
        return None                     # C17's matter; counted as trivial here
    f = failing(fm.Case(line), impl)
    return "; ".join(w for w, _ in f[:3]) if f else None

def classify_solve(line, impl, cls):
    case = fm.Case(line)
    f = failing(case, impl)
    if not f:
        return cls
    cs = [c for _, c in f]
    return cs[0] if all(c is not None for c in cs) else None

def nontrivial(line, impl):
    return impl.startswith("ok ")

# structural cover check on the lowering dump
import re
FLOAT_OK = {"FloatLinEq", "FloatLinLe", "FloatLinNe", "FloatLinEqReif", "FloatLinLeReif", "FloatLinNeReif", "LessThanOrEquals", "LessThan", "Eq", "Add", "Mul", "Sum", "Div"}
def uncovered(line, impl):
    if not impl.startswith("ok "):
        return []
    case = fm.Case(line)
    props = []
    for p in impl.split(" ; ")[2:]:
        kind = re.match(r"\s*(\w+)", p).group(1) if re.match(r"\s*(\w+)", p) else "?"
        props.append((kind, set(int(x) for x in re.findall(r"VarId\((\d+)\)", p))))
    out = []
    for r in case.rows:
        vs = set(r.coeffs)
        if r.route == "conv" or len(vs) < 2 or not any(case.is_float(v) for v in vs):
            continue
        if any(c == 0 for c in r.coeffs.values()):
            continue
        if not any(k in FLOAT_OK and vs <= ids for k, ids in props):
            out.append(r)
    return out
def judge_lower(line, impl, spec):
    u = uncovered(line, impl)
    if not u: return None
    return "no float-capable propagator covers [%s] (propagators: %s)" % (u[0].text, impl.split(" ; ", 2)[2][:200] if impl.count(" ; ") >= 2 else "-")
def classify_lower(line, impl, cls):
    case = fm.Case(line)
    u = uncovered(line, impl)
    if not u: return cls
    return None      # no known class: every `!=` row over float variables is lowered to FloatLinNe (class float_ne repaired in /repo)
def gen_lower(tier, rng):
    return [c for c in gen_random(tier, rng)][: (800 if tier == "quick" else 20000)]

def split_kinds(model_line):
    from ..core import default_split
    m, s, cls = default_split(model_line)
    return m, "-", cls
def corr_lower(line, impl, mpart):
    """correspondence of the lowering DECISION: the Coq function linear_lowering (Model/FloatDispatch.v; printed by the driver
    as `kinds=F:0,1 I:2 ...`, one item per linear post) against the IntLin* / FloatLin* propagators found in the lowered
    model (hook H2), compared as multisets of (family, variable list)"""
    if not impl.startswith("ok ") or mpart is None or not mpart.startswith("kinds="):
        return True
    from collections import Counter
    want = Counter(t for t in mpart[6:].split() if t != "-")
    got = Counter()
    for p in impl.split(" ; ")[2:]:
        m = re.match(r"\s*(IntLin|FloatLin)(Eq|Le|Ne) \{", p)
        if m:
            vs = sorted(int(x) for x in re.findall(r"VarId\((\d+)\)", p.split("variables:")[1].split("]")[0]))
            got[("I:" if m.group(1) == "IntLin" else "F:") + ",".join(map(str, vs))] += 1
    return want == got
# ------------------------------------------------------------------------------------------------ disequalities over float variables
def gen_ne(tier, rng):
    """models whose only constraints are `!=` rows over float (and some integer) variables, through every route that posts one
    (m.lin_ne with f64 / i32 coefficients, fluent x.ne(y) / x.ne(c), m.props.float_lin_ne), plus at most one interior bound.
    Every variable has a domain at least 8 steps wide, so the model is satisfiable (a `!=` row excludes a null set): NoSolution
    is a failure too.  Most constants are chosen so that the point the search reaches FIRST (every variable at its lower
    bound) - or the one at the upper bounds - violates the row: an inert propagator returns exactly that point."""
    out = []
    for _ in range(600 if tier == "quick" else 20000):
        prec = rng.choice([1, 2, 2, 3, 4, 6, 6])
        st = Fraction(fm.step_of(prec))
        nv = rng.choice([1, 2, 2, 3])
        decls, lohi = [], []
        for i in range(nv):
            if rng.random() < 0.25 and i > 0:
                lo = rng.randint(-3, 3); hi = lo + rng.randint(1, 4); decls.append("I %d %d" % (lo, hi))
            else:
                lo = Fraction(rng.randint(-8, 8), 4); hi = lo + rng.choice([8 * st, 20 * st, Fraction(1, 2), 3, 10]); decls.append("F %s %s" % (hq(lo), hq(hi)))
            lohi.append((Fraction(lo), Fraction(hi)))
        fl = [i for i, d in enumerate(decls) if d.startswith("F")]
        posts = []
        for _ in range(rng.choice([1, 1, 2, 3])):
            k = min(nv, rng.choice([1, 2, 2, 3]))
            xs = rng.sample(range(nv), k)
            if not any(x in fl for x in xs): xs[0] = rng.choice(fl)
            xs = list(dict.fromkeys(xs))
            corner = rng.choice([0, 0, 0, 1])
            route = rng.choice(["lin", "ilin", "new", "new", "props"])
            if route == "new" and len(xs) <= 2:
                if len(xs) == 2:
                    posts.append("new ne(x%d,x%d)" % (xs[0], xs[1]))
                else:
                    c = lohi[xs[0]][corner] if rng.random() < 0.7 else lohi[xs[0]][0] + st * rng.randint(0, 8)
                    posts.append("new ne(x%d,%s)" % (xs[0], ("f:" + hq(c)) if (c.denominator != 1 or rng.random() < 0.5) else str(int(c))))
                continue
            if route == "ilin":
                cs = [rng.choice([-2, -1, 1, 1, 2]) for _ in xs]
                K = sum(c * lohi[x][corner if c > 0 else 1 - corner] for c, x in zip(cs, xs))
                if K.denominator != 1 or rng.random() < 0.3: K = Fraction(rng.randint(-3, 3))
                posts.append("ilin ne %s %s %d" % (",".join(map(str, cs)), ",".join("x%d" % x for x in xs), int(K)))
                continue
            cs = [rng.choice(fm.NICE) for _ in xs]
            K = sum(c * lohi[x][corner if c > 0 else 1 - corner] for c, x in zip(cs, xs))
            if rng.random() < 0.25: K += st * rng.randint(-3, 3)
            body = "%s %s %s" % (",".join(hq(c) for c in cs), ",".join("x%d" % x for x in xs), hq(K))
            posts.append(("props flinne " if route == "props" else "lin ne ") + body)
        if rng.random() < 0.3:
            v = rng.choice(fl); lo, hi = lohi[v]
            posts.append("new %s(x%d,f:%s)" % (rng.choice(["le", "ge"]), v, hq(lo + (hi - lo) / 2)))
        entry = "solve" if (prec > 3 or rng.random() < 0.7) else "%s x%d" % (rng.choice(["min", "max"]), rng.randrange(nv))
        out.append(" ; ".join([str(prec), "|".join(decls)] + posts + [entry, "to 400"]))
    return out
def judge_ne(line, impl, spec):
    if impl.startswith("err NoSolution"):
        return "NoSolution for a model that only has `!=` rows (and one interior bound) over domains at least 8 steps wide"
    return judge_solve(line, impl, spec)
def nontrivial_ne(line, impl):
    return impl.startswith("ok ") or impl.startswith("err NoSolution")

FAMILIES = [
    Family("fsolve_random", "solvef", gen_random, split=split_oracle, nontrivial=nontrivial, prop_judge=judge_solve),
    Family("fne_routes", "solvef", gen_ne, split=split_oracle, nontrivial=nontrivial_ne, prop_judge=judge_ne),
    Family("flower_cover", "lowerf", gen_lower, split=split_kinds, nontrivial=lambda c, i: i.startswith("ok "), prop_judge=judge_lower),
]
FAMILIES[2].corr = corr_lower
FAMILIES[0].classify = classify_solve
FAMILIES[1].classify = classify_solve
FAMILIES[2].classify = classify_lower

# ------------------------------------------------------------------------------------------------ arithmetic / element routes (oracle-only)
def _qf(x):
    """exact rational of the f64 nearest to x"""
    return Fraction(float(x))
def _rand_fdom(rng, style):
    if style == "half":
        lo = Fraction(rng.randint(-20, 10), 2); hi = lo + Fraction(rng.randint(1, 30), 2)
    elif style == "offgrid":
        lo = _qf(round(rng.uniform(-10, 10), rng.choice([2, 4, 7]))); hi = _qf(float(lo) + round(rng.uniform(0.05, 8), rng.choice([1, 3, 7])))
    elif style == "zero":
        lo = _qf(-round(rng.uniform(0.1, 5), 3)); hi = _qf(round(rng.uniform(0.1, 5), 3))
    elif style == "neg":
        hi = -Fraction(rng.randint(1, 12), 2); lo = hi - Fraction(rng.randint(1, 20), 2)
    elif style == "pos":
        lo = Fraction(rng.randint(1, 8), 2); hi = lo + Fraction(rng.randint(1, 12), 2)
    elif style == "big":
        mag = 10 ** rng.randint(3, 6)
        lo = _qf(rng.choice([1, 1, -1]) * round(rng.uniform(0.1, 1), 3) * mag); hi = lo + _qf(rng.choice([1, 10, 1000, mag // 10]) * rng.choice([0.5, 1, 2.5]))
    else:  # single
        lo = hi = _qf(rng.choice([Fraction(rng.randint(-12, 12), 4), round(rng.uniform(-6, 6), 3), 0.1, -2.7, 1 / 3.0]))
    return lo, hi
def _away(lo, hi):
    """the box excludes (-1/2, 1/2): usable as a divisor"""
    return lo >= Fraction(1, 2) or hi <= Fraction(-1, 2)
def _expr_box(case, e):
    """(lo, hi) of a fluent expression over the declared / derived boxes (interval arithmetic); None = unbounded (division by a
    box touching zero)"""
    e = e.strip()
    if e.startswith("x") and e[1:].isdigit(): return case.decls[int(e[1:])][1], case.decls[int(e[1:])][2]
    if e.startswith("f:"): return fm.h2q(e[2:]), fm.h2q(e[2:])
    try: return Fraction(int(e)), Fraction(int(e))
    except ValueError: pass
    op = e[:e.index("(")]
    a, b = fm._split_top(e[e.index("(") + 1:-1])
    ba, bb = _expr_box(case, a), _expr_box(case, b)
    if ba is None or bb is None: return None
    if op == "add": return ba[0] + bb[0], ba[1] + bb[1]
    if op == "sub": return ba[0] - bb[1], ba[1] - bb[0]
    if op == "div":
        if bb[0] <= 0 <= bb[1]: return None
        c = [x / y for x in ba for y in bb]
    else: c = [x * y for x in ba for y in bb]
    return min(c), max(c)
def _sub_exprs(e):
    e = e.strip(); out = [e]
    if "(" in e:
        for a in fm._split_top(e[e.index("(") + 1:-1]): out += _sub_exprs(a)
    return out
def _mag_ok(case, exprs=()):
    """every result handle and every node of the given fluent expressions stays below 2^45 steps in magnitude: beyond 2^52 steps
    an f64 cannot tell two neighbouring grid points apart, bisection makes no progress and the engine does not look at its
    limits while it descends (observed: a product of three values near 1e6 at precision 2 runs for minutes under a 400 ms
    timeout; C15's matter, not this property's)"""
    cap = case.step * 2 ** 45
    for i in case.derived:
        if max(abs(case.decls[i][1]), abs(case.decls[i][2])) > cap: return False
    for e in exprs:
        for sub in _sub_exprs(e):
            b = _expr_box(case, sub)
            if b is None or max(abs(b[0]), abs(b[1])) > cap: return False
    return True
NL_REL = ["le", "le", "ge", "ge", "eq", "eq", "lt", "gt"]
def gen_farith_model(rng, entry_opt=False):
    big = rng.random() < 0.15
    prec = rng.choice([1, 1, 2, 2, 3]) if big else rng.choice([1, 2, 2, 3, 3, 3, 4, 4, 6, 6])
    nv = rng.choice([2, 2, 3, 3, 4])
    decls, pt = [], []
    for _ in range(nv):
        if rng.random() < 0.22:
            lo = rng.randint(-4, 4); hi = lo + rng.choice([0, 1, 2, 3, 5])
            if rng.random() < 0.3: lo, hi = rng.randint(1, 3), rng.randint(3, 6)
            decls.append("I %d %d" % (lo, hi)); pt.append(Fraction(rng.randint(lo, hi)))
        else:
            style = rng.choice(["big", "big", "half", "pos"]) if big else rng.choice(["half", "half", "offgrid", "offgrid", "zero", "neg", "pos", "pos", "single"])
            lo, hi = _rand_fdom(rng, style)
            decls.append("F %s %s" % (hq(lo), hq(hi)))
            pt.append(lo + (hi - lo) * Fraction(rng.randint(0, 16), 16) if rng.random() < 0.7 else _qf(rng.uniform(float(lo), float(hi))))
            if not (lo <= pt[-1] <= hi): pt[-1] = lo
    if not any(d.startswith("F") for d in decls):
        decls[0] = "F %s %s" % (hq(Fraction(-2)), hq(Fraction(7))); pt[0] = Fraction(3, 2)
    elem_vars, elem_done = None, False
    if rng.random() < 0.2:
        # an element post: dedicated index (partly outside 0..n-1 now and then) and a result covering the declared floats
        if nv == 4: decls.pop(); pt.pop(); nv = 3
        if not any(d.startswith("F") for d in decls):
            decls[0] = "F %s %s" % (hq(Fraction(-2)), hq(Fraction(7))); pt[0] = Fraction(3, 2)
        fl = [fm.Case("1 ; " + d + " ; solve").decls[0] for d in decls if d.startswith("F")]
        lo = rng.choice([-1, 0, 0, 0, 1]); hi = max(lo + rng.randint(0, 3), 0)
        decls.append("I %d %d" % (lo, hi)); pt.append(Fraction(rng.randint(max(lo, 0), hi)))
        rlo, rhi = min(d[1] for d in fl) - rng.choice([0, 1, 1]), max(d[2] for d in fl) + rng.choice([0, 1, 1])
        if rng.random() < 0.2: rlo = (rlo + rhi) / 2
        decls.append("F %s %s" % (hq(rlo), hq(rhi))); pt.append(_qf(rlo))
        elem_vars = (nv, nv + 1); nv += 2
    head = [str(prec), "|".join(decls)]
    posts = []
    def cur():
        return fm.Case(" ; ".join(head + posts + ["solve"]))
    def const_tok(v, as_opd):
        if rng.random() < 0.35 and v.denominator == 1 and abs(v) < 10 ** 9: return ("i:%d" if as_opd else "%d") % int(v)
        return "f:" + hq(v)
    n_arith = rng.choice([1, 1, 2, 2, 3])
    for it in range(n_arith):
        case = cur()
        n = len(case.decls)
        boxes = [(case.decls[i][1], case.decls[i][2]) for i in range(n)]
        divisors = [i for i in range(n) if _away(*boxes[i])]
        r = rng.random()
        if r < 0.24:
            # non-linear fluent constraint
            def leaf():
                if rng.random() < 0.12: return "f:" + hq(rng.choice(fm.NICE + [Fraction(0.1), Fraction(2.7)]))
                return "x%d" % rng.randrange(n)
            shape = rng.choice(["mul", "mul", "div", "muladd", "muladd", "mulsub", "divadd", "mulc", "nested"])
            a, b, c = "x%d" % rng.randrange(n), "x%d" % rng.randrange(n), leaf()
            dv = "x%d" % rng.choice(divisors) if divisors else "f:" + hq(rng.choice([Fraction(2), Fraction(-4), Fraction(1, 2), Fraction(0.3)]))
            if shape == "mul": e = "mul(%s,%s)" % (a, b)
            elif shape == "div": e = "div(%s,%s)" % (a, dv)
            elif shape == "muladd": e = "add(mul(%s,%s),%s)" % (a, b, c)
            elif shape == "mulsub": e = "sub(%s,mul(%s,%s))" % (c, a, b)
            elif shape == "divadd": e = "add(div(%s,%s),%s)" % (a, dv, c)
            elif shape == "mulc": e = "mul(%s,add(%s,%s))" % (a, b, const_tok(Fraction(rng.randint(-4, 6), 2), False))
            else: e = "mul(mul(%s,%s),%s)" % (a, b, c)
            ev = fm._expr_eval(case, e, pt)
            val = ev[0] if ev is not None else Fraction(0)
            rel = rng.choice(NL_REL)
            if rng.random() < 0.3:
                # expression compared with a VARIABLE (x.mul(y).eq(z) style)
                other = "x%d" % rng.randrange(n)
            else:
                off = Fraction(rng.randint(0, 8), 4) * (1000 if big else 1)
                if rel in ("le", "lt"): other = const_tok(val + off, False)
                elif rel in ("ge", "gt"): other = const_tok(val - off, False)
                else: other = const_tok(val if rng.random() < 0.8 else val + 1, False)
            if not _mag_ok(case, [e]): continue
            posts.append("new %s(%s,%s)" % ((rel, e, other) if rng.random() < 0.8 else ({"le": "ge", "lt": "gt", "ge": "le", "gt": "lt", "eq": "eq"}[rel], other, e)))
            continue
        if elem_vars and not elem_done and (r < 0.6 or it == n_arith - 1):
            ix, rs = elem_vars
            pool = [i for i in range(n) if i not in (ix, rs)]
            lo_ix = int(case.decls[ix][1])
            arr = [rng.choice(pool) for _ in range(rng.randint(max(1, lo_ix + 1), max(2, lo_ix + 1, 4)))]
            elem_done = True
            k = int(pt[ix]) if 0 <= pt[ix] < len(arr) else None
            if k is not None and boxes[rs][0] <= pt[arr[k]] <= boxes[rs][1]: pt[rs] = pt[arr[k]]
            posts.append("%s x%d %s x%d" % (rng.choice(["elem", "elem", "elemi", "elemx"]), ix, ",".join("x%d" % a for a in arr), rs))
            continue
        op = rng.choice(["add", "add", "sub", "sub", "mul", "mul", "mul", "div", "div", "abs", "min", "max", "sum", "sum", "fmin", "fmax"])
        def opd(v=None):
            if v is None: v = rng.randrange(n)
            return "x%d" % v, pt[v]
        if op in ("add", "sub", "mul", "div"):
            (ta, va) = opd()
            if op == "div":
                if divisors and rng.random() < 0.85: tb, vb = opd(rng.choice(divisors))
                else:
                    vb = rng.choice([Fraction(2), Fraction(-4), Fraction(1, 2), _qf(0.3), Fraction(3), Fraction(-1, 2)]); tb = const_tok(vb, True)
            elif rng.random() < 0.12:
                vb = rng.choice(fm.NICE + [_qf(0.1), _qf(2.7), Fraction(0)]); tb = const_tok(vb, True)
                if rng.random() < 0.3 and op != "div": ta, va, tb, vb = tb, vb, ta, va
            else: tb, vb = opd()
            if op == "mul" and big and abs(va * vb) > 10 ** 9: op = "add"
            posts.append("arith %s %s %s" % (op, ta, tb))
            pt.append({"add": va + vb, "sub": va - vb, "mul": va * vb}[op] if op != "div" else va / vb)
        elif op == "abs":
            ta, va = opd(); posts.append("arith abs %s" % ta); pt.append(abs(va))
        else:
            xs = [rng.randrange(n) for _ in range(rng.choice([1, 2, 2, 3, 3, 4]))]
            if op in ("fmin", "fmax") and rng.random() < 0.8: xs = [v for v in xs if case.decls[v][0] == "F"] or xs
            posts.append("arith %s %s" % (op, ",".join("x%d" % v for v in xs)))
            vs = [pt[v] for v in xs]
            pt.append(sum(vs) if op == "sum" else (min(vs) if op in ("min", "fmin") else max(vs)))
        if not _mag_ok(cur()):
            posts.pop(); pt.pop()
    # 0-2 linear rows / bounds, preferably on result handles
    case = cur()
    n = len(case.decls)
    while len(pt) < n: pt.append(Fraction(0))
    results = sorted(case.derived)
    scale = 1000 if big else 1
    for _ in range(rng.choice([0, 1, 1, 2])):
        v = rng.choice(results) if results and rng.random() < 0.75 else rng.randrange(n)
        kind = rng.choice(["bound", "bound", "lin", "lin", "new", "newvv"])
        off = Fraction(rng.randint(0, 8), 4) * scale
        if kind == "bound":
            rel = rng.choice(["leq", "geq", "leq", "geq", "eq"])
            c = pt[v] + (off if rel == "leq" else -off if rel == "geq" else 0)
            tok = ("f:" + hq(c)) if case.decls[v][0] == "F" or c.denominator != 1 else "i:%d" % int(c)
            posts.append("props %s x%d %s" % (rel, v, tok))
        elif kind == "lin":
            u = rng.randrange(n)
            cs = [rand_coeff(rng) or Fraction(1), rand_coeff(rng) or Fraction(1)]
            rel = rng.choice(["le", "le", "eq"])
            lhs = Fraction(float(cs[0])) * pt[v] + Fraction(float(cs[1])) * pt[u]
            K = lhs + (off if rel == "le" else 0)
            posts.append("lin %s %s,%s x%d,x%d %s" % (rel, hq(cs[0]), hq(cs[1]), v, u, hq(K)))
        elif kind == "new":
            rel = rng.choice(["le", "ge", "lt", "gt", "eq"])
            c = pt[v] + (off if rel in ("le", "lt") else -off if rel in ("ge", "gt") else 0)
            posts.append("new %s(x%d,%s)" % (rel, v, "f:" + hq(c)))
        else:
            u = rng.randrange(n)
            if u != v: posts.append("new %s(x%d,x%d)" % (rng.choice(["le", "ge", "eq"]), v, u))
    entry = ["solve"]
    return " ; ".join(head + posts + entry + ["to 400"])

def gen_farith(tier, rng):
    n = 1500 if tier == "quick" else 40000
    return [gen_farith_model(rng) for _ in range(n)]

FAMILIES.append(Family("farith_random", "solvef", gen_farith, split=split_oracle, nontrivial=nontrivial, prop_judge=judge_solve))
FAMILIES[-1].classify = classify_solve

# ------------------------------------------------------------------------------------------------ props-level families (bit-exact tie)
import math, struct
def _nudge(x, k):
    if k == 0 or math.isinf(x) or math.isnan(x): return x
    for _ in range(abs(k)):
        x = math.nextafter(x, math.inf if k > 0 else -math.inf)
    return x
STEPS = [10.0 ** -p for p in range(1, 13)]
def rand_step(rng):
    r = rng.random()
    if r < 0.75: return float("1e-%d" % rng.choice([1, 2, 2, 3, 3, 4, 6, 6, 6, 8, 10, 12]))
    if r < 0.9: return 2.0 ** -rng.randint(1, 30)
    return rng.choice([0.25, 0.5, 1.0, 0.03125, 9.5367432e-7])
def rand_fdom(rng, step, small=False):
    r = rng.random()
    lo = rng.randint(-40, 30) * rng.choice([1, 1, 1, 5, 100]) * step * rng.choice([1, 1, 10, 1000]) if rng.random() < 0.5 else float(Fraction(rng.randint(-20, 10), 2))
    if small and abs(lo) > 1000 * step: lo = rng.randint(-40, 30) * step
    if r < 0.08: hi = lo
    elif r < 0.16: hi = lo + step * rng.choice([0.3, 0.49, 0.5, 0.51, 1.0, 1.4, 1.5, 1.6, 2.0])
    elif small: hi = lo + step * rng.randint(2, 60)
    else: hi = lo + rng.choice([step * rng.randint(2, 2000), float(Fraction(rng.randint(1, 30), 2)), 1000.0])
    lo, hi = _nudge(lo, rng.choice([0, 0, 0, 1, -1])), _nudge(hi, rng.choice([0, 0, 0, 1, -1, 2]))
    if lo > hi: lo, hi = hi, lo          # an inverted interval is an invalid declaration (Model::float does not swap either): C17's matter
    if rng.random() < 0.01: hi = math.inf
    if rng.random() < 0.01: lo = -math.inf
    return lo, hi
def rand_pdoms(rng, nv, small=False):
    step = rand_step(rng)
    if small: step = rng.choice([0.1, 0.01, 0.25, 0.5, 0.001])
    doms, info = [], []
    for _ in range(nv):
        if rng.random() < 0.25:
            if rng.random() < 0.7:
                lo = rng.randint(-3, 3); hi = lo + rng.randint(0, 4); doms.append("%d..%d" % (lo, hi)); info.append(("I", lo, hi))
            else:
                vs = sorted(set(rng.randint(-3, 5) for _ in range(rng.randint(1, 4)))); doms.append(",".join(map(str, vs))); info.append(("I", vs[0], vs[-1]))
        else:
            st = step if rng.random() < 0.85 else rand_step(rng)
            lo, hi = rand_fdom(rng, st, small)
            doms.append("F %s %s %s" % (fm.f2h(lo), fm.f2h(hi), fm.f2h(st))); info.append(("F", lo, hi, st))
    return doms, info
def rand_fcoeff(rng):
    r = rng.random()
    if r < 0.6: return float(rng.choice(fm.NICE))
    if r < 0.8: return rng.choice(UGLY) * rng.choice([1, -1])
    if r < 0.86: return rng.choice([0.0, -0.0, 1e-13, -1e-13, 1e-12, 2e-12])
    return rng.choice([1e3, -1e3, 1e-3, 7.0, -0.1, 1e6])
def rand_pspec(rng, info, allow_reif=True):
    nv = len(info)
    r = rng.random()
    def bound(i, which):
        t = info[i]
        return float(t[1] if which == 0 else t[2])
    if r < 0.6:
        k = min(nv, rng.choice([1, 2, 2, 3]))
        xs = rng.sample(range(nv), k) if rng.random() < 0.95 else [rng.randrange(nv) for _ in range(k)]
        cs = [rand_fcoeff(rng) for _ in xs]
        # constant near a combination of bounds so that tolerance branches are hit
        K = sum(c * bound(x, rng.randint(0, 1)) for c, x in zip(cs, xs) if not math.isinf(bound(x, 0)) and not math.isinf(bound(x, 1)))
        st = next((t[3] for t in info if t[0] == "F"), 1e-6)
        K += rng.choice([0, 0, st, -st, 0.5 * st, -0.5 * st, 3 * st, -3 * st, 1e-5 * abs(K), -1e-5 * abs(K), 1.0, -1.0, 0.25, 1e-4, -1e-4, 1e-6, 1e-9])
        K = _nudge(K, rng.choice([0, 0, 1, -1]))
        if math.isnan(K) or math.isinf(K): K = 1.0
        kind = rng.choice(["flinle", "flinle", "flinle", "flineq", "flineq", "flinne"])
        body = "%s %s %s" % (",".join(fm.f2h(c) for c in cs), ",".join("x%d" % x for x in xs), fm.f2h(K))
        if allow_reif and rng.random() < 0.12:
            bs = [i for i, t in enumerate(info) if t[0] == "I" and t[1] >= 0 and t[2] <= 1]
            if bs: return "%sr %s x%d" % (kind, body, rng.choice(bs))
        return "%s %s" % (kind, body)
    if r < 0.68:
        k = min(nv, rng.choice([1, 2, 2, 3]))
        xs = rng.sample(range(nv), k)
        cs = [rng.choice([-3, -2, -1, 0, 1, 1, 2, 3]) for _ in xs]
        K = int(sum(c * bound(x, rng.randint(0, 1)) for c, x in zip(cs, xs) if not math.isinf(bound(x, 0)) and not math.isinf(bound(x, 1)))) + rng.randint(-2, 3)
        return "ilinle %s %s %d" % (",".join(map(str, cs)), ",".join("x%d" % x for x in xs), K)
    rel = rng.choice(["leq", "leq", "lt", "geq", "gt", "eq"])
    a = rng.randrange(nv)
    def operand(i):
        q = rng.random()
        if q < 0.5 and nv > 1:
            j = rng.choice([x for x in range(nv) if x != i]); return "x%d" % j
        base = bound(i, rng.randint(0, 1))
        if math.isinf(base): base = 0.0
        st = info[i][3] if info[i][0] == "F" else 0.5
        v = base + rng.choice([0, st, -st, 0.5 * st, 2.5 * st, -2.5 * st, 10 * st, -10 * st, 0.25, -0.25, 1.0])
        if q < 0.85: return "f:" + fm.f2h(_nudge(v, rng.choice([0, 0, 1, -1])))
        return "i:%d" % int(math.floor(v))
    b = operand(a)
    xa = "x%d" % a
    if rng.random() < 0.15: xa = "next(%s)" % xa
    if rng.random() < 0.1: b = "next(%s)" % b
    return ("%s %s %s" % (rel, b, xa)) if rng.random() < 0.3 else ("%s %s %s" % (rel, xa, b))

def gen_propf_arith(rng):
    """props-level Add / Sub (Propagators::add / sub over Var / Val / Next views): the result variable's domain is built around
    the sum / difference of the operand boxes, shifted and resized by a few steps so that every branch of the six setter
    calls (no change, quantise, clamp, precision tolerance, fail) is visited; 1-2 further propagators on the same variables"""
    doms, info = rand_pdoms(rng, rng.choice([2, 2, 3]), small=rng.random() < 0.5)
    kind = rng.choice(["add", "sub", "mul", "mul"])
    a, b = rng.randrange(len(info)), rng.randrange(len(info))
    def box(t): return (float(t[1]), float(t[2]))
    (alo, ahi), (blo, bhi) = box(info[a]), box(info[b])
    if kind == "sub": blo, bhi = -bhi, -blo
    st = next((t[3] for t in info if t[0] == "F"), 0.5)
    both_int = info[a][0] == "I" and info[b][0] == "I"
    if kind == "mul":
        # Mul (props/mul.rs): the divisor guard range_contains_unsafe_divisor is exercised by operand boxes that end at 0,
        # at +-f64::EPSILON and just beyond, cross zero, or stay strictly on one side
        for i in (a, b):
            if info[i][0] == "F" and rng.random() < 0.45:
                t = info[i]; w = max(t[2] - t[1], t[3])
                edge = rng.choice([0.0, -0.0, 2.220446049250313e-16, -2.220446049250313e-16, 2.3e-16, -2.3e-16, 2.2e-13, -2.2e-13, 2.3e-13, -2.3e-13, t[3], -t[3]])
                nl, nh = (edge, edge + w) if rng.random() < 0.5 else (edge - w, edge)
                info[i] = ("F", nl, nh, t[3]); doms[i] = "F %s %s %s" % (fm.f2h(nl), fm.f2h(nh), fm.f2h(t[3]))
        (alo, ahi), (blo, bhi) = box(info[a]), box(info[b])
        cs = [alo * blo, alo * bhi, ahi * blo, ahi * bhi]
        cs = [q for q in cs if not (math.isnan(q) or math.isinf(q))] or [0.0]
        lo, hi = min(cs), max(cs)
        if rng.random() < 0.5:   # a result box strictly inside the product box makes the back-propagation blocks prune
            m0 = lo + rng.random() * (hi - lo); lo, hi = m0, m0 + rng.random() * (hi - m0)
    else:
        lo, hi = alo + blo, ahi + bhi
    if math.isinf(lo) or math.isnan(lo): lo = -50.0
    if math.isinf(hi) or math.isnan(hi): hi = 50.0
    r = rng.random()
    if both_int and r < 0.6:
        l2 = int(lo) + rng.randint(-2, 2); h2 = max(l2, int(hi) + rng.randint(-2, 2))
        doms.append("%d..%d" % (l2, h2)); info.append(("I", l2, h2))
    else:
        d = [0, 0, st, -st, 0.5 * st, -0.5 * st, 2.5 * st, -2.5 * st, 3.5 * st, -3.5 * st, 10 * st, -10 * st, 0.3, -0.3, 1e-5 * abs(hi)]
        l2, h2 = lo + rng.choice(d), hi + rng.choice(d)
        if r < 0.15: l2 = h2 = (lo + hi) / 2 + rng.choice(d)
        elif r < 0.3: w = rng.choice([0.3, 0.5, 1.0, 1.5, 2.0, 5.0]) * st; l2 = lo + rng.random() * (hi - lo); h2 = l2 + w
        if l2 > h2: l2, h2 = h2, l2
        l2, h2 = _nudge(l2, rng.choice([0, 0, 1, -1])), _nudge(h2, rng.choice([0, 0, 1, -1]))
        if l2 > h2: l2, h2 = h2, l2
        st2 = st if rng.random() < 0.9 else rand_step(rng)
        doms.append("F %s %s %s" % (fm.f2h(l2), fm.f2h(h2), fm.f2h(st2))); info.append(("F", l2, h2, st2))
    s = len(info) - 1
    def opd(i):
        q = rng.random()
        if q < 0.8: return "x%d" % i
        if q < 0.9:
            v = box(info[i])[rng.randint(0, 1)]
            if math.isinf(v): v = 0.0
            return "f:" + fm.f2h(v + rng.choice([0, st, 0.5 * st, -0.25])) if rng.random() < 0.7 else "i:%d" % int(math.floor(v))
        return "next(x%d)" % i
    ps = ["%s %s %s x%d" % (kind, opd(a), opd(b), s)]
    for _ in range(rng.choice([0, 0, 1, 1, 2])):
        ps.append(rand_pspec(rng, info, allow_reif=False) if rng.random() < 0.6 else "%s x%d x%d x%d" % (rng.choice(["add", "sub", "mul"]), rng.randrange(len(info)), rng.randrange(len(info)), rng.randrange(len(info))))
    rng.shuffle(ps)
    return " ; ".join(["|".join(doms)] + ps)

def gen_propf(tier, rng):
    n = 6000 if tier == "quick" else 60000
    out = [gen_propf_arith(rng) for _ in range(n // 4)]
    for _ in range(n):
        nv = rng.choice([1, 2, 2, 3, 3])
        doms, info = rand_pdoms(rng, nv)
        if rng.random() < 0.3 and not any(t[0] == "I" and t[1] >= 0 and t[2] <= 1 for t in info):
            doms.append("0..1"); info.append(("I", 0, 1))
        ps = [rand_pspec(rng, info) for _ in range(rng.choice([1, 1, 2, 2, 3]))]
        out.append(" ; ".join(["|".join(doms)] + ps))
    return out
def gen_searchf(tier, rng):
    n = 600 if tier == "quick" else 6000
    out = []
    for _ in range(n):
        nv = rng.choice([1, 2, 2, 3])
        small = rng.random() < 0.45
        doms, info = rand_pdoms(rng, nv, small=small)
        ps = [rand_pspec(rng, info, allow_reif=False) for _ in range(rng.choice([0, 1, 1, 2, 2, 3]))]
        ps = [p for p in ps if not p.startswith("flinne") or rng.random() < 0.3]
        e = "first" if (not small or rng.random() < 0.4) else "%s x%d" % (rng.choice(["min", "max"]), rng.randrange(nv))
        out.append(" ; ".join(["|".join(doms)] + ps + [e]))
    return out

def _parse_doms(txt):
    res = []
    for d in txt.split("|"):
        d = d.strip()
        if d.startswith("F "):
            t = d.split(); res.append(("F", fm.h2f(t[1]), fm.h2f(t[2]), t[3]))
        elif d == "-": res.append(("I", []))
        else:
            vs = []
            for seg in d.split(","):
                if ".." in seg:
                    a, b = seg.split(".."); vs += list(range(int(a), int(b) + 1))
                else: vs.append(int(seg))
            res.append(("I", vs))
    return res
def judge_propf(line, impl, spec):
    """no widening at the propagation level: every output domain is contained in the input domain (bitwise step unchanged)"""
    if not impl.startswith("ok "): return None
    din = _parse_doms(line.split(";")[0]); dout = _parse_doms(impl.split(" ", 2)[2])
    for i, (a, b) in enumerate(zip(din, dout)):
        if a[0] == "F":
            if math.isnan(b[1]) or math.isnan(b[2]): return "x%d has a NaN bound after propagation" % i
            if a[3] != b[3]: return "x%d: step changed" % i
            if a[1] <= a[2] and not (a[1] <= b[1] and b[2] <= a[2]): return "x%d widened: [%r,%r] -> [%r,%r]" % (i, a[1], a[2], b[1], b[2])
        else:
            if not set(b[1]) <= set(a[1]): return "int x%d gained values" % i
    return None
def split_model(model_line):
    from ..core import default_split
    m, s, cls = default_split(model_line)
    return m, "-", cls
def magn_ok(line):
    """every float domain of the case satisfies the magnitude hypothesis of C12F (finite, min <= max, 2^-60 <= step <= 2^60, |bounds| <= 2^50*step)"""
    for d in _parse_doms(line.split(";")[0]):
        if d[0] == "F":
            st = fm.h2f(d[3])
            if not (math.isfinite(d[1]) and math.isfinite(d[2]) and d[1] <= d[2] and 2.0 ** -60 <= st <= 2.0 ** 60 and max(abs(d[1]), abs(d[2])) <= 2.0 ** 50 * st): return False
    return True
def classify_propf(line, impl, cls):
    return cls or (None if magn_ok(line) else "outside_magn")
def corr_search(line, impl, mpart):
    # FUEL = the model's work budget exhausted; TIMEOUT / HANG = the engine's time limit fired / the harness watchdog gave up on
    # a propagation that creeps (the engine checks its limit only between top-level iterations): not compared further.
    # A HANG where the model terminates within its budget IS a mismatch.
    if mpart in ("FUEL",) or impl in ("TIMEOUT",): return True
    return impl == mpart

FAMILIES += [
    Family("fprop_exact", "propf", gen_propf, split=split_model, nontrivial=lambda c, i: i == "fail" or (i.startswith("ok ") and i.split(" ", 2)[2].strip() != c.split(";")[0].strip()), prop_judge=judge_propf),
    Family("fsearch_exact", "searchf", gen_searchf, nontrivial=lambda c, i: i.startswith("sols ") and i != "sols -"),
]
def corr_prop(line, impl, mpart):
    # HANG = search::propagate still running after 2 s; FUEL = the model's 30000 propagator runs exhausted: a creeping
    # (practically non-terminating) propagation on both sides is not compared further
    if mpart == "FUEL": return True
    return impl == mpart
_byname = {f.name: f for f in FAMILIES}
_byname["fprop_exact"].classify = classify_propf
_byname["fprop_exact"].corr = corr_prop
_byname["fsearch_exact"].corr = corr_search
