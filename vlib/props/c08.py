"""C08 — float/mixed optimisation returns a feasible point at the true optimum.

Oracle: the exact optimum of the linear model, computed by the VERIFIED exact-rational simplex coq/Model/LP.v (`lp_solve`,
whose Optimal / Infeasible answers have passed the certificate checkers proved sound in Proofs/LPProofs.v), called through the
driver's `lp` sub-command; integer variables of mixed models are enumerated (one LP per integer assignment, <= 36).
Strict rows are read as non-strict ones (the optimum is then a supremum; the tolerance covers the difference).

Judge (exact rationals): Ok(point) -> the point is feasible within the tolerance of vlib/fmodel.py (bounds +- step, rows within
tol(row), ints exact) AND its objective is not worse than the exact optimum by more than
      tol_obj = 4 * max( tol(row)/|c_obj(row)| over rows containing the objective variable, 5*step + 1e-5*B_obj )
(being BETTER than the optimum is bounded by the feasibility clause).  Err(NoSolution) -> the exact model must be infeasible.
Err(Timeout) is a limit and is not judged.  A model with strict rows that is feasible only ON THE BOUNDARY of a strict row (the
exact model with every strict row demanded with a margin is infeasible, e.g. `x0 < x1` together with `x0 > x1`) has no optimum to
attain: NoSolution is accepted there, and so is any point that passes the feasibility clause (the objective clause is waived).

Root LP step (finding D10, repaired): the LP vertex is tried first and the untouched root is searched when the vertex cannot be
applied, fails to propagate, or has no solution below it.  The former known class `lp_root` is gone; its witnesses are kept in
corpus/solvef.opt_{default,lp_only,fixed_vars}.cases.  What the repaired step still ASSUMES of the f64 simplex (a solution found
below the vertex is answered without looking further; an `Infeasible` verdict is trusted) is judged here against the exact LP.

Families (solvef, all ORACLE-ONLY: minimize/maximize dispatch, the root LP step with its f64 simplex and the optimisation
fast path have no Coq model; what IS compared with a model is the DISPATCH: the harness reports through hook H5 whether the
root LP step ran, and `corr` checks it against the re-statement `lp_gate` of search/mod.rs:176-212 below, which is also the
Coq predicate C08.root_lp_gate):
  opt_default    lp on, fast path on   (the production configuration)
  opt_lp_only    lp on, fast path off
  opt_search     lp off, fast path off (pure branch and bound; precisions 1..3, small ranges, so that it terminates)"""
import random
from fractions import Fraction
from ..core import Family
from .. import core
from .. import fmodel as fm
from ..fmodel import hq
from . import c06

TRUSTED_BASE = c06.TRUSTED_BASE + [
    "C08 oracle: coq/Model/LP.v lp_solve (exact rationals, certificate-checked; Properties/C09.v) through ocaml/lp_cmd.ml; enumeration of integer assignments and the comparison with the implementation's answer are done in this file with fractions.Fraction",
]
ASSUMPTIONS = [
    "models are linear: rows <=, >=, =, <, > over 1..4 float/int variables with coefficients and bounds that are small dyadic rationals (so that the exact LP is posed without rounding)",
    "no limit fires: Timeout answers are not judged",
    "strict rows are read as non-strict",
    "the f64 simplex (known findings of C09), the fast-path optimisers and the B&B termination are NOT modelled: proof-partial; only the dispatch predicates (root_lp_gate, fast_path_consulted) are Coq definitions compared with the implementation; the acceptance of a fast-path candidate (FloatDispatch.fp_accepts = Model::accepts_candidate: feasible by propagation on the fixed store, optimal against the root-propagated bound) is a Coq definition read off the source with theorem fast_path_answers_are_checked, not compared case by case (the families with `fp` judge its effect: 0 infeasible or non-optimal answers)",
    "root LP step (repaired, finding D10): ORACLE assumption of coq/Model/LpRoot.v -- the step hands the engine nothing or a vertex store; the integer-model theorems (Properties/C04.v lp_tentative_sound, minimize_lp_ok_iff_sat) hold for every such answer; that a first-phase answer is optimal and that an LP verdict Infeasible is right rests on the LP being a relaxation solved accurately enough, which is judged here case by case against the exact LP and not proved",
    "a model feasible only on the boundary of a strict row has no optimum: NoSolution and any tolerance-feasible point are both accepted",
]
RULE = ("random linear float/mixed models built around an interior point (so ~90 % feasible), 1-4 variables, 1-4 rows, three posting routes mixed per model, both directions; "
        "non-trivial = the implementation returned a point or NoSolution")

def qs(q):
    q = Fraction(q)
    return str(q.numerator) if q.denominator == 1 else "%d/%d" % (q.numerator, q.denominator)

# ------------------------------------------------------------------------------------------------ generator
COEF = [Fraction(k, 4) for k in (-12, -8, -6, -4, -3, -2, -1, 1, 2, 3, 4, 6, 8, 12)]
def gen_lin_model(rng, precs, flags, small=False, to=400, fixed=False):
    prec = rng.choice(precs)
    nv = rng.choice([1, 2, 2, 2, 3, 3, 4]) if not fixed else rng.choice([2, 3, 3, 4])
    decls, pt = [], []
    nint = 0
    fx = rng.randrange(nv) if fixed else -1      # a single-valued variable: the LP builder substitutes it as a constant
    for i in range(nv):
        if i == fx:
            if rng.random() < 0.5:
                v = rng.randint(-4, 5); decls.append("I %d %d" % (v, v)); pt.append(Fraction(v)); nint += 1
            else:
                v = Fraction(rng.randint(-8, 10), 2); decls.append("F %s %s" % (hq(v), hq(v))); pt.append(v)
        elif rng.random() < 0.2 and nint < 2 and i > 0:
            lo = rng.randint(-2, 2); hi = lo + rng.randint(0, 3); nint += 1
            decls.append("I %d %d" % (lo, hi)); pt.append(Fraction(rng.randint(lo, hi)))
        else:
            lo = Fraction(rng.randint(-8, 6), 2); hi = lo + Fraction(rng.randint(1, 8 if small else 20), 2)
            decls.append("F %s %s" % (hq(lo), hq(hi))); pt.append(lo + (hi - lo) * Fraction(rng.randint(1, 7), 8))
    posts = []
    for _ in range(rng.choice([1, 2, 2, 3, 3, 4])):
        k = min(nv, rng.choice([1, 2, 2, 2, 3]))
        xs = rng.sample(range(nv), k)
        if fixed and fx not in xs and rng.random() < 0.7:
            xs = [fx] + (xs[:-1] if len(xs) > 1 and rng.random() < 0.5 else xs)
        cs = [rng.choice(COEF) for _ in xs]
        rel = rng.choice(["le", "le", "le", "ge", "ge", "lt", "gt", "eq"] if not fixed else ["le", "ge", "ge", "ge", "gt", "eq", "eq"])
        lhs = sum((c * pt[x] for c, x in zip(cs, xs)), Fraction(0))
        slack = Fraction(rng.randint(0, 8), 4) if rng.random() < 0.9 else Fraction(-rng.randint(1, 40), 4)
        K = lhs + slack if rel in ("le", "lt") else lhs - slack if rel in ("ge", "gt") else lhs
        xsn = ",".join("x%d" % x for x in xs)
        route = rng.choice(["lin", "lin", "new", "new", "props"] if not fixed else ["lin", "new", "new", "new", "props"])
        if route == "lin":
            if rel in ("ge", "gt"): cs2, K2, r2 = [-c for c in cs], -K, "le"
            else: cs2, K2, r2 = cs, K, ("le" if rel == "lt" else rel)
            posts.append("lin %s %s %s %s" % (r2, ",".join(hq(c) for c in cs2), xsn, hq(K2)))
        elif route == "props":
            if len(xs) == 1 and rng.random() < 0.6:
                prel = {"le": "leq", "lt": "lt", "ge": "geq", "gt": "gt", "eq": "eq"}[rel]
                if cs[0] < 0: prel = {"leq": "geq", "lt": "gt", "geq": "leq", "gt": "lt", "eq": "eq"}[prel]
                posts.append("props %s x%d f:%s" % (prel, xs[0], hq(K / cs[0])))
            elif len(xs) == 2 and rng.random() < 0.3:
                prel = rng.choice(["leq", "geq", "lt"])
                posts.append("props %s x%d x%d" % (prel, xs[0], xs[1]))
            else:
                posts.append(c07_flin(rel, cs, xsn, K))
        else:
            if len(xs) == 2 and rng.random() < 0.15:
                posts.append("new %s(x%d,x%d)" % (rel, xs[0], xs[1])); continue
            terms = []
            for c, x in zip(cs, xs):
                if c == 1: terms.append("x%d" % x)
                elif c.denominator == 1 and rng.random() < 0.3: terms.append("mul(x%d,%d)" % (x, int(c)))
                else: terms.append("mul(x%d,f:%s)" % (x, hq(c)))
            l = terms[0]
            for t in terms[1:]: l = "add(%s,%s)" % (l, t)
            kk = str(int(K)) if (K.denominator == 1 and rng.random() < 0.3) else "f:" + hq(K)
            posts.append("new %s(%s,%s)" % (rel, l, kk))
    fl = [i for i in range(nv) if decls[i].startswith("F") and i != fx]
    obj = rng.choice(fl) if (fl and rng.random() < 0.85) else rng.randrange(nv)
    entry = "%s x%d" % (rng.choice(["min", "max"]), obj)
    return " ; ".join([str(prec), "|".join(decls)] + posts + [entry] + flags + ["to %d" % to])

def c07_flin(rel, cs, xsn, K):
    if rel in ("ge", "gt"): cs, K, rel = [-c for c in cs], -K, "le"
    if rel == "lt": rel = "le"
    return "props flin%s %s %s %s" % (rel, ",".join(hq(c) for c in cs), xsn, hq(K))

PRECS = [1, 2, 2, 3, 3, 4, 4, 6, 6, 6, 8, 10, 12]
def gen_default(tier, rng):
    return [gen_lin_model(rng, PRECS, ["lp", "fp"]) for _ in range(1200 if tier == "quick" else 30000)]
def gen_lp_only(tier, rng):
    return [gen_lin_model(rng, PRECS, ["lp"]) for _ in range(800 if tier == "quick" else 20000)]
def gen_fixed(tier, rng):
    # single-valued variables inside >= / = rows: to_lp_problem moves them to the right-hand side per standard-form row
    return [gen_lin_model(rng, PRECS, rng.choice([["lp", "fp"], ["lp"]]), fixed=True) for _ in range(800 if tier == "quick" else 20000)]
def gen_fastpath_simple(tier, rng):
    """models the optimisation fast path is meant for: 1-3 variables, ONLY comparisons of one variable with a constant posted at
    the props level (several bounds on the same variable, redundant and binding ones, both directions), objective = one of them"""
    out = []
    for _ in range(1500 if tier == "quick" else 40000):
        prec = rng.choice(PRECS)
        nv = rng.choice([1, 1, 2, 2, 3])
        decls, lo_hi = [], []
        for i in range(nv):
            if rng.random() < 0.2 and i > 0:
                lo = rng.randint(-4, 2); hi = lo + rng.randint(2, 8); decls.append("I %d %d" % (lo, hi))
            else:
                lo = Fraction(rng.randint(-12, 6), 2); hi = lo + Fraction(rng.randint(4, 24), 2); decls.append("F %s %s" % (hq(lo), hq(hi)))
            lo_hi.append((Fraction(lo), Fraction(hi)))
        posts = []
        for _ in range(rng.choice([1, 2, 2, 3, 4])):
            v = rng.randrange(nv); lo, hi = lo_hi[v]
            c = lo + (hi - lo) * Fraction(rng.randint(-1, 9), 8)
            if decls[v].startswith("I") and rng.random() < 0.5: c = Fraction(int(c))
            posts.append("props %s x%d f:%s" % (rng.choice(["leq", "geq", "leq", "geq", "lt", "gt", "eq"]), v, hq(c)))
        obj = rng.randrange(nv)
        out.append(" ; ".join([str(prec), "|".join(decls)] + posts + ["%s x%d" % (rng.choice(["min", "max"]), obj)] + rng.choice([["lp", "fp"], ["fp"]]) + ["to 400"]))
    return out
def gen_search(tier, rng):
    return [gen_lin_model(rng, [1, 1, 2, 2, 3], [], small=True, to=1500) for _ in range(300 if tier == "quick" else 6000)]

# ------------------------------------------------------------------------------------------------ exact oracle
def lp_lines(case, tighten=False):
    """LP lines (driver `lp` grammar: max c.x, A x <= b, l <= x <= u) for every assignment of the integer variables;
    returns list of (line or None-if-trivially-decided, const_objective_part, feasible_flag_for_trivial)"""
    import itertools
    iv = [i for i, d in enumerate(case.decls) if d[0] == "I"]
    fv = [i for i, d in enumerate(case.decls) if d[0] == "F"]
    sign = -1 if case.entry[0] == "min" else 1
    obj = int(case.entry[1][1:])
    out = []
    for asg in itertools.product(*[range(int(case.decls[i][1]), int(case.decls[i][2]) + 1) for i in iv]):
        val = dict(zip(iv, asg))
        A, b, ok = [], [], True
        for r in case.rows:
            if not r.linear or r.rel == "ne": continue
            k = r.const - sum((c * val[v] for v, c in r.coeffs.items() if v in val), Fraction(0))
            if (tighten and r.rel in ("lt", "gt")) or (tighten == "all" and r.rel in ("le", "ge")):
                # strict row: demand it with a margin (the code lowers `<` to `<= K - step`), so that an answer NoSolution
                # is only held against the implementation when the model is feasible with strict rows ROBUSTLY satisfied
                mg = case.tol(r) + case.step * (1 + sum((abs(c) for c in r.coeffs.values()), Fraction(0)))
                if tighten == "all":
                    mg = Fraction(-((-mg.numerator * 2 ** 20) // mg.denominator), 2 ** 20)   # rounded up to 2^-20: the driver reads 63-bit numerators
                k = k - mg if r.rel in ("lt", "le") else k + mg
            row = [r.coeffs.get(v, Fraction(0)) for v in fv]
            rels = {"le": [1], "lt": [1], "ge": [-1], "gt": [-1], "eq": [1, -1]}[r.rel]
            for sg in rels:
                if all(c == 0 for c in row):
                    if sg * k < 0: ok = False
                    # a strict row over integer variables only, with integer coefficients and constant, is exact: no tolerance
                    # applies (x1 < x0 with x0 = 2 excludes x1 = 2)
                    if r.rel in ("lt", "gt") and sg * k == 0 and r.const.denominator == 1 and \
                            all(c.denominator == 1 for c in r.coeffs.values()) and not any(v in fv for v in r.coeffs):
                        ok = False
                else:
                    A.append([sg * c for c in row]); b.append(sg * k)
        if not ok:
            out.append((None, None, False)); continue
        if not fv:
            out.append((None, sign * Fraction(val[obj]), True)); continue
        c = [Fraction(sign) if v == obj else Fraction(0) for v in fv]
        k0 = sign * Fraction(val[obj]) if obj in val else Fraction(0)
        line = "c %s ; A%s ; b%s ; l %s ; u %s" % (" ".join(map(qs, c)), (" " + " | ".join(" ".join(map(qs, r)) for r in A)) if A else "",
                                                   (" " + " ".join(map(qs, b))) if b else "", " ".join(qs(case.decls[v][1]) for v in fv), " ".join(qs(case.decls[v][2]) for v in fv))
        out.append((line, k0, True))
    return out

class Oracle:
    def __init__(self, tighten=False):
        self.memo = {}
        self.tighten = tighten
    def solve_many(self, cases):
        todo, index = [], []
        for line in cases:
            if line in self.memo: continue
            case = fm.Case(line)
            ls = lp_lines(case, self.tighten)
            index.append((line, case, ls))
            todo += [l for l, _, _ in ls if l is not None]
        outs = core.run_lines(core.driver_exe(), "lp", todo) if todo else []
        it = iter(outs)
        for line, case, ls in index:
            best, unknown = None, False
            for l, k0, ok in ls:
                if l is None:
                    if ok: best = k0 if best is None else max(best, k0)
                    continue
                o = next(it) or ""
                head = o.split(" ||| ")[0].strip()
                if head == "Optimal":
                    z = Fraction(o.split("opt=")[1].split()[0]) + k0
                    best = z if best is None else max(best, z)
                elif head == "Infeasible": pass
                else: unknown = True
            sign = -1 if case.entry[0] == "min" else 1
            self.memo[line] = ("unknown",) if unknown else (("infeasible",) if best is None else ("opt", sign * best))
    def get(self, line):
        if line not in self.memo: self.solve_many([line])
        return self.memo[line]
ORACLE = Oracle()
ORACLE_STRICT = Oracle(tighten=True)
ORACLE_ROBUST = Oracle(tighten="all")     # every inequality row demanded with the margin (class ineq_pinned_offgrid)
def prejudge(cases, impls, models):
    ORACLE.solve_many(cases)

def tol_obj(case):
    obj = int(case.entry[1][1:])
    base = fm.K_STEP * case.step + fm.REL * case.bmag(obj) if case.is_float(obj) else Fraction(0)
    t = base
    for r in case.rows:
        if r.linear and obj in r.coeffs and r.coeffs[obj] != 0:
            t = max(t, case.tol(r) / abs(r.coeffs[obj]))
    return 4 * t

def verdict(line, impl):
    """(reason or None, list of classes of the failing clauses)"""
    if impl.startswith("PANIC") or impl in ("MISSING", "HANG") or impl.startswith("CRASH"):
        return None, []
    case = fm.Case(line)
    ex = ORACLE.get(line)
    st, vals, kinds, lp = fm.parse_impl(impl)
    if ex[0] == "unknown":
        return None, []
    if st == "err":
        if vals == "NoSolution" and ex[0] == "opt":
            if any(r.rel in ("lt", "gt") for r in case.rows) and ORACLE_STRICT.get(line)[0] != "opt":
                return None, []      # feasible only on the boundary of a strict row: NoSolution is a correct answer
            return "NoSolution although the exact optimum is %s" % float(ex[1]), []
        return None, []
    if st != "ok":
        return None, []
    f = c06.failing(case, impl)
    if f:
        return "returned point infeasible: " + f[0][0], [c for _, c in f]
    if ex[0] == "infeasible":
        return None, []          # exactly infeasible but feasible within the tolerance: the property does not demand an error
    obj = int(case.entry[1][1:])
    z, t = ex[1], tol_obj(case)
    d = (vals[obj] - z) if case.entry[0] == "min" else (z - vals[obj])
    if d > t and any(r.rel in ("lt", "gt") for r in case.rows):
        exs = ORACLE_STRICT.get(line)
        if exs[0] != "opt":
            return None, []      # feasible only on the boundary of a strict row: no optimum to attain (cf. the NoSolution clause)
        # the code enforces a strict row with a margin of one step on its constant (`<` is `<= K - step`); with an INTEGER
        # variable in such a row the margin can cost a whole unit of that variable and more than the tolerance of the
        # objective.  The answer is held against the optimum of the model whose strict rows are demanded with that margin
        # (ORACLE_STRICT); the permissive optimum z (strict read as non-strict) stays the bound from the other side.
        # (false alarm of the thorough tier: -0.5*x1 < -1.5 over an integer x1 excludes x1 = 3)
        zs = exs[1]
        d = (vals[obj] - zs) if case.entry[0] == "min" else (zs - vals[obj])
        z = zs
    if d > t:
        return "objective %.9g is worse than the exact optimum %.9g by %.3g (tolerance %.3g)" % (float(vals[obj]), float(z), float(d), float(t)), []
    return None, []

def judge(line, impl, spec):
    return verdict(line, impl)[0]

def row_classes(case):
    return set(c for c in (fm.row_class(case, r) for r in case.rows) if c)

def lp_gate(case):
    """re-statement of the gate of the root LP step (search/mod.rs:140-212 + props/mod.rs:144-219 + runtime_api/mod.rs:264-373):
    it runs iff the mode has a plain-variable objective (always, here), the linear system has >= 1 row and >= 2 variables, and
    the objective variable occurs in the system.  Rows come from: fluent `m.new` comparisons whose converted AST is LinearInt /
    LinearFloat with op in {=, <=, >=} (pending_lp_constraints; NOT Var==Val, which is materialised at once; NOT m.lin_*, which
    pushes no LP row) and, after lowering, every FloatLinEq / FloatLinLe propagator and every LessThanOrEquals<VarId,VarId>."""
    if "lp" not in case.flags or case.entry[0] not in ("min", "max"):
        return False
    vs, rows = set(), 0
    import re
    for r in case.rows:
        t = r.text.split()
        allv = set(int(x) for x in re.findall(r"x(\d+)", r.text))
        anyf = any(case.is_float(v) for v in allv)
        if r.route == "lin" and r.rel in ("eq", "le"):
            vs |= allv; rows += 1
        elif r.route == "ilin" and r.rel in ("eq", "le") and anyf:
            vs |= allv; rows += 1                 # posted as FloatLinEq/Le since the repair (was IntLin*: not scanned)
        elif r.route == "props" and t[1] in ("flineq", "flinle"):
            vs |= allv; rows += 1
        elif r.route == "props" and t[1] in ("leq", "geq") and t[2].startswith("x") and t[3].startswith("x"):
            vs |= {int(t[2][1:]), int(t[3][1:])}; rows += 1
        elif r.route == "new" and r.linear:
            if fm._simple_eq(r): continue
            if r.rel in ("eq", "le", "ge"):
                vs |= allv; rows += 1             # pending LP row (extract_lp_constraint)
            if (not r.extra["all_int"] or anyf) and r.rel != "ne":
                vs |= allv; rows += 1             # the FloatLinEq/Le propagator is scanned as well (also for < and >)
    obj = int(case.entry[1][1:])
    return rows >= 1 and len(vs) >= 2 and obj in vs

def classify(line, impl, cls):
    why, cs = verdict(line, impl)
    if why is None:
        return cls
    case = fm.Case(line)
    # attribution, most specific first: a failing clause that is itself a constraint of a known row class; then, for
    # NoSolution / a wrong optimum, the row classes present in the model.  Nothing is attributed to an OPTIMISER any more:
    # the root LP vertex is tentative since 0ca81bd (finding D10 repaired: a NoSolution with lp=1 is the verdict of the plain
    # search on the root, or of an LP that claims infeasibility -- a VIOLATION unless the model lies in a row class below),
    # and fast-path candidates are verified since 6338bfe (former class fast_path).
    if cs and all(c is not None for c in cs): return cs[0]
    rc = row_classes(case)
    if rc: return sorted(rc)[0]
    if fm.mixed_eq_chain(case):
        return "floatlineq_mixed_chain"   # a mixed float equality chained to a second float equality (see fm.mixed_eq_chain)
    if impl.startswith("err NoSolution") and any(r.linear and r.rel == "eq" and any(case.is_float(v) for v in r.coeffs) for r in case.rows):
        return "float_eq_offgrid"    # equality rows over float variables whose solution set misses the step grid
    if impl.startswith("err NoSolution") and ORACLE_ROBUST.get(line)[0] == "infeasible":
        # the inequality analogue: <= / >= rows that pin a float variable between two bounds closer than the margin
        # (x0 >= 0.75 and x0 <= 0.75 at precision 1): no grid point passes the propagators.  Decided exactly: the model
        # with every inequality row tightened by tol(row) + step*(1 + sum|c|) is infeasible.  (These cases used to be
        # counted under lp_root, because the unrepaired LP step answered NoSolution on them as well.)
        return "ineq_pinned_offgrid"
    if impl.startswith("ok "):
        # the same finding under optimisation: every point better than the answer lies in a region where some inequality rows
        # pin a float variable closer than the margin (x1 = 3 leaves x0 the single off-grid value 5.9375), so the search can
        # only answer from the robust part of the model.  Decided exactly: the answer is not worse than the optimum of the
        # model with every inequality row tightened by the margin (ORACLE_ROBUST).  (Thorough tier, 1 of 30198 cases.)
        exr = ORACLE_ROBUST.get(line)
        st, vals, kinds, lp = fm.parse_impl(impl)
        obj = int(case.entry[1][1:])
        if exr[0] == "infeasible":
            return "ineq_pinned_offgrid"
        if exr[0] == "opt":
            dr = (vals[obj] - exr[1]) if case.entry[0] == "min" else (exr[1] - vals[obj])
            if dr <= tol_obj(case):
                return "ineq_pinned_offgrid"
    return None

def split_gate(model_line):
    from ..core import default_split
    m, s, cls = default_split(model_line)
    return m, "-", cls
def corr_dispatch(line, impl, mpart):
    """correspondence for these families = the DISPATCH: the extracted Coq predicates root_lp_gate / fast_path_consulted
    (coq/Model/FloatDispatch.v, printed by the driver as `gate=<0|1> fp=<0|1>`) against hook H5's "root LP step ran" flag.
    When the fast path is consulted it answers before the search is entered iff its candidate is accepted
    (Model::accepts_candidate, FloatDispatch.fp_accepts), so the LP flag is not compared; otherwise the step must have run
    exactly when the gate says so.  The python re-statement lp_gate above must agree with the Coq predicate."""
    if impl.startswith("PANIC") or impl.startswith("CRASH") or not impl or mpart is None or not mpart.startswith("gate="): return True
    gate = mpart.split()[0] == "gate=1"; fpc = mpart.split()[1] == "fp=1"
    case = fm.Case(line)
    if gate != lp_gate(case) or fpc != fm.fast_path_applies(case):
        return False
    if fpc:
        return True
    return impl.endswith("lp=1") == gate

def nontrivial(line, impl):
    return impl.startswith("ok ") or impl.startswith("err NoSolution")

def fam(name, gen):
    f = Family(name, "solvef", gen, split=split_gate, nontrivial=nontrivial, prop_judge=judge)
    f.prejudge = prejudge
    f.classify = classify
    f.corr = corr_dispatch
    return f
FAMILIES = [fam("opt_default", gen_default), fam("opt_lp_only", gen_lp_only), fam("opt_fixed_vars", gen_fixed), fam("opt_fastpath_simple", gen_fastpath_simple), fam("opt_search", gen_search)]
