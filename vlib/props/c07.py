"""C07 — robustly feasible float/mixed models are not reported infeasible.

Family fwitness (solvef, ORACLE-ONLY at the Model level): the generator first draws a witness point w (float coordinates
on the step grid: k*step in f64 that is a fixpoint of the code's own quantisation ceil(v/step)*step = v = floor(v/step)*step;
int coordinates integers), then bounds that contain w with a margin >= 1/2, then rows around w:
   inequalities   sum c_i x_i <= K   (or >=, <, >)  with  K - sum c_i w_i >= MARGIN(row)
   equalities     sum c_i x_i  = K   with K = sum c_i w_i EXACTLY (checked in rationals; the row is dropped otherwise)
MARGIN(row) = 4*tol(row) + 20*step*max(1, sum|c_i|), tol(row) being the tolerance derived in vlib/fmodel.py from the code's own
tolerances (so the margin is >= 40 steps per unit coefficient and >= 4e-5 relative: "well above the float step").
Judge: `solve` must not answer NoSolution (a Timeout is a limit, not judged).  The returned point is additionally
judged as in C06 (it lies in the known classes of C06 when it fails).
Family fwitness_props (searchf): the same construction at the props level, where the extracted Coq model
(Model/FloatSearch.v) must agree bit for bit."""
import random
from fractions import Fraction
from ..core import Family
from .. import fmodel as fm
from ..fmodel import hq
from . import c06

TRUSTED_BASE = c06.TRUSTED_BASE
ASSUMPTIONS = [
    "no time or memory limit fires: Timeout answers are not judged (C15)",
    "robustly feasible := a witness exists on the step grid whose slack in every inequality is >= MARGIN(row) = 4*tol(row) + 20*step*max(1, sum|c_i|) (so never below 20 float steps in the row's own units: the property asks for a margin well above the float step, and the code lowers a strict row by shifting its CONSTANT by one step whatever the coefficients are) and which satisfies every equality exactly in rational arithmetic",
    "PROVED (Properties/C07.v, bit-exact model): robust_never_nosolution -- if every propagator of the model satisfies the per-propagator contract wsafe_below (succeeds and keeps the witness, up to T >= 2.01 steps, on every store below the declared one) and every split point satisfies split_ok_hyp, the search never answers NoSolution, for every fuel and budget, every agenda order; propagation_keeps_witness, split_keeps_witness (int pivots exactly, float pivots with tolerance); the contract is proved for int-var/int-const comparisons and for float x <= c, c <= x (margin T steps), x <= y (margin 2T steps) inside Magn (wsafe_int_comparisons, wsafe_float_comparisons, near_setters); bisect_progress",
    "PROVED IN TWO HALVES: FloatLinLe satisfies the contract if the bound it computes leaves the witness T steps (flin_le_wsafe_partial); the binary64 accumulation of n terms is within n*(2^-52*(|acc0|+sum|t_j|) + 2^-1074) of the exact sum (fsum_error_linear). NOT PROVED: the composition (rounding of the products, of K - sum and of the division) that would derive the accuracy hypothesis from slack >= 2.01*sum|c_j|*step_j + (n+3)*2^-52*(|K|+sum|c_j|*B_j), which MARGIN(row) exceeds",
    "NOT PROVED: FloatLinEq, strict comparisons and == constant over floats (Eq<VarId,Val> is not wsafe under tolerance containment), split_ok_hyp (the fall-back mid passes fi_split_ok; floor(m/step)*step <= m <= ceil(m/step)*step as computed), termination (a solution is returned for enough fuel): these are carried by this run's witness-constructed families only",
]
RULE = ("witness-constructed float/mixed models, 1-4 variables, 1-4 rows, all posting routes, precisions 1..12; Model::solve must not return NoSolution; non-trivial = at least one row")

def on_grid(v, step):
    """v is a fixpoint of the code's own quantisation ceil(v/step)*step / floor(v/step)*step (views.rs:248-249, 418-419), in f64"""
    import math
    return math.ceil(v / step) * step == v and math.floor(v / step) * step == v
def grid(rng, step):
    while True:
        k = rng.randint(-8, 8) * rng.choice([1, 10, 100, 1000, 12345]) + rng.randint(-50, 50)
        v = float(k) * step
        if abs(v) > 50: v = float(rng.randint(-20, 20)) * step
        if on_grid(v, step):
            return v

def margin(step, cs, Bs, isf):
    s = Fraction(step)
    tol = sum((abs(c) * (fm.K_STEP * s + fm.REL * B) for c, B, f in zip(cs, Bs, isf) if f), Fraction(0))
    tol += fm.EPS_REL * sum((abs(c) * B for c, B in zip(cs, Bs)), Fraction(0))
    return 4 * tol + 20 * s * max(Fraction(1), sum((abs(c) for c in cs), Fraction(0)))

def up(q):
    """smallest f64 >= q"""
    x = float(q)
    if Fraction(x) < q:
        import math
        x = math.nextafter(x, float("inf"))
    return x
def dn(q):
    x = float(q)
    if Fraction(x) > q:
        import math
        x = math.nextafter(x, float("-inf"))
    return x

def gen_witness_model(rng, props_only=False, eq_heavy=False):
    prec = rng.choice([1, 2, 2, 3, 3, 4, 4, 6, 6, 6, 8, 10, 12])
    step = fm.step_of(prec)
    nv = rng.choice([1, 2, 2, 3, 3, 4]) if not eq_heavy else rng.choice([3, 3, 4])
    w, decls, B, isf = [], [], [], []
    for i in range(nv):
        if rng.random() < (0.2 if nv > 1 else 0.0) and i > 0:
            v = rng.randint(-3, 4); lo = v - rng.randint(0, 3); hi = v + rng.randint(0, 3)
            w.append(Fraction(v)); decls.append("I %d %d" % (lo, hi)); B.append(Fraction(max(abs(lo), abs(hi)))); isf.append(False)
        else:
            v = grid(rng, step)
            lo = dn(Fraction(v) - Fraction(rng.choice([1, 2, 4, 15]), 2)); hi = up(Fraction(v) + Fraction(rng.choice([1, 2, 4, 15]), 2))
            w.append(Fraction(v)); decls.append("F %s %s" % (fm.f2h(lo), fm.f2h(hi))); B.append(max(abs(Fraction(lo)), abs(Fraction(hi)))); isf.append(True)
    posts = []
    nrows = rng.choice([1, 1, 2, 2, 3, 4]) if not eq_heavy else rng.choice([2, 3, 3, 4])
    for ri in range(nrows):
        k = min(nv, rng.choice([1, 2, 2, 3]))
        xs = rng.sample(range(nv), k)
        route = rng.choice(["props", "props"] if props_only else ["lin", "lin", "lin", "new", "new", "props", "ilin"])
        rel = rng.choice(["le", "le", "le", "lt", "ge", "gt", "eq"])
        if eq_heavy:
            # row 0: an equality over 3+ variables whose coefficients have BOTH signs (the bounds of the other terms then
            # depend on the sign of each coefficient); the other rows: one- or two-variable inequalities around the witness
            if ri == 0: xs = rng.sample(range(nv), rng.choice([3, nv])); rel = "eq"; route = rng.choice(["lin", "lin", "new", "props"])
            else: xs = rng.sample(range(nv), rng.choice([1, 1, 2])); rel = rng.choice(["le", "ge", "lt", "gt"])
        if eq_heavy and ri == 0:
            while True:
                cs = [Fraction(rng.choice([-3, -2, -1, -1, 1, 1, 2, 3, 4]), rng.choice([1, 1, 2, 4])) for _ in xs]
                if min(cs) < 0 < max(cs): break
        elif route == "ilin":
            cs = [Fraction(rng.choice([-3, -2, -1, 1, 1, 2, 3])) for _ in xs]
        else:
            cs = [Fraction(float(c)) for c in (c06.rand_coeff(rng) for _ in xs)]
            cs = [c if c != 0 else Fraction(1) for c in cs]
        lhs = sum((c * w[x] for c, x in zip(cs, xs)), Fraction(0))
        M = margin(step, cs, [B[x] for x in xs], [isf[x] for x in xs]) * rng.choice([1, 1, 2, 5, 50])
        if rel == "eq":
            K = lhs
            if Fraction(float(K)) != K: continue
        elif rel in ("le", "lt"): K = Fraction(up(lhs + M))
        else: K = Fraction(dn(lhs - M))
        xsn = ",".join("x%d" % x for x in xs)
        if route == "ilin":
            if rel not in ("le", "eq"): rel = "le"; K = Fraction(up(lhs + M))
            import math
            Ki = math.ceil(K) if rel == "le" else K
            if rel == "eq" and Ki.denominator != 1: continue
            posts.append("ilin %s %s %s %d" % (rel, ",".join(str(int(c)) for c in cs), xsn, int(Ki)))
        elif route == "lin":
            if rel in ("lt", "gt", "ge"):           # lin_* has only eq / le / ne: write >= as a negated <=
                if rel == "lt": rel2, cs2, K2 = "le", cs, K
                else: rel2, cs2, K2 = "le", [-c for c in cs], -K
            else: rel2, cs2, K2 = rel, cs, K
            posts.append("lin %s %s %s %s" % (rel2, ",".join(hq(c) for c in cs2), xsn, hq(K2)))
        elif route == "props":
            if len(xs) <= 2 and all(abs(c) == 1 for c in cs) and rng.random() < 0.7 and (len(xs) == 1 or cs[0] == -cs[1]):
                prel = {"le": "leq", "lt": "lt", "ge": "geq", "gt": "gt", "eq": "eq"}[rel]
                if len(xs) == 1:
                    a, b = "x%d" % xs[0], "f:" + hq(K * cs[0])
                    if cs[0] < 0:
                        prel = {"leq": "geq", "lt": "gt", "geq": "leq", "gt": "lt", "eq": "eq"}[prel]
                    posts.append("props %s %s %s" % (prel, a, b))
                else:
                    # c*(x_a - x_b) rel K  only when K == 0 can it be written as a plain comparison; otherwise use flin
                    M0 = margin(step, [Fraction(1), Fraction(-1)], [B[x] for x in xs], [isf[x] for x in xs])
                    if K == 0 and rel == "eq":
                        posts.append("props eq x%d x%d" % (xs[0], xs[1]))
                    elif rel != "eq" and rng.random() < 0.6 and abs(w[xs[0]] - w[xs[1]]) >= M0:
                        # a plain comparison of two variables that the witness satisfies with the row margin
                        a, b = (xs[0], xs[1]) if w[xs[0]] < w[xs[1]] else (xs[1], xs[0])
                        if rng.random() < 0.5: posts.append("props %s x%d x%d" % (rng.choice(["lt", "leq"]), a, b))
                        else: posts.append("props %s x%d x%d" % (rng.choice(["gt", "geq"]), b, a))
                    else:
                        posts.append(_flin(rel, cs, xsn, K))
            else:
                posts.append(_flin(rel, cs, xsn, K))
        else:  # fluent
            terms = []
            for c, x in zip(cs, xs):
                if c == 1: terms.append("x%d" % x)
                elif c.denominator == 1 and rng.random() < 0.4: terms.append("mul(x%d,%d)" % (x, int(c)))
                else: terms.append("mul(x%d,f:%s)" % (x, hq(c)))
            l = terms[0]
            for t in terms[1:]: l = "add(%s,%s)" % (l, t)
            kk = str(int(K)) if (K.denominator == 1 and rng.random() < 0.5) else "f:" + hq(K)
            posts.append("new %s(%s,%s)" % (rel, l, kk))
    return prec, decls, posts, w

def _flin(rel, cs, xsn, K):
    if rel in ("ge", "gt"): cs, K, rel = [-c for c in cs], -K, "le"
    if rel == "lt": rel = "le"
    return "props flin%s %s %s %s" % (rel, ",".join(hq(c) for c in cs), xsn, hq(K))

def gen_witness(tier, rng):
    n = 1500 if tier == "quick" else 40000
    out = []
    while len(out) < n:
        prec, decls, posts, w = gen_witness_model(rng)
        if posts:
            out.append(" ; ".join([str(prec), "|".join(decls)] + posts + ["solve", "to 400"]))
    return out

C07_CLASSES = ()      # float_intlin_single / float_cmp_intlin / bisect_stall / mixed_strict_int_succ / floatlineq_mixed were repaired in /repo
def judge(line, impl, spec):
    if impl.startswith("err NoSolution"):
        return "solve answered NoSolution on a model built around a robust witness"
    if impl.startswith("CRASH") or impl == "HANG":
        return "solve did not return: the harness process died (address space capped at 2.5 GB) -- %s" % impl[:60]
    return None
def stalls_prefix(line):
    """HISTORICAL (before the repair of FloatInterval::mid): decidable re-statement (f64 arithmetic = python floats) of the
    bisection stall for ONE unconstrained float variable [lo, hi] with step s: on the leftmost path some interval is not assigned
    (round((max-min)/s) > 1) while try_set_max(mid) is a no-op (mid >= max - s/2).  It agreed with the unrepaired implementation
    on every generated case (9 of 150); kept so that the family keeps generating exactly those widths."""
    import math
    def rnd(x): return math.floor(x + 0.5) if x >= 0 else -math.floor(-x + 0.5)
    case = fm.Case(line)
    if case.rows or len(case.decls) != 1 or case.decls[0][0] != "F": return False
    s = fm.step_of(case.prec); lo, hi = float(case.decls[0][1]), float(case.decls[0][2])
    for _ in range(200):
        if rnd((hi - lo) / s) <= 1: return False
        mid = lo + rnd(((lo + (hi - lo) / 2.0) - lo) / s) * s
        mid = min(max(mid, lo), hi)
        if not (mid < hi - s / 2.0): return True
        nm = math.floor(mid / s) * s
        if nm < lo: nm = lo
        if nm == hi: return True
        hi = nm
    return False
def classify(line, impl, cls):
    if not (impl.startswith("err NoSolution") or impl.startswith("CRASH") or impl == "HANG"):
        return cls
    case = fm.Case(line)
    cs = [fm.row_class(case, r) for r in case.rows]
    cs = [c for c in cs if c in C07_CLASSES]
    return cs[0] if cs else None

def gen_witness_eq(tier, rng):
    n = 600 if tier == "quick" else 15000
    out = []
    while len(out) < n:
        prec, decls, posts, w = gen_witness_model(rng, eq_heavy=True)
        if posts and (" eq " in posts[0] or "eq(" in posts[0] or "flineq" in posts[0]):
            out.append(" ; ".join([str(prec), "|".join(decls)] + posts + ["solve", "to 400"]))
    return out

def gen_witness_int_const(tier, rng):
    """integer variables compared with NON-INTEGER float constants at the props level, in both operand orders and all four
    relations (the strict ones go through LessThan's constant cases: x <= ceil(c) - 1, x >= floor(c) + 1), negative ranges
    included; the witness integer lies 1/4 .. 3/4 of a unit inside every comparison.  One float variable with a loose row is
    added to half of the models so that they are mixed.  (seeded change C07c truncated instead of flooring for negative c)"""
    out = []
    for _ in range(500 if tier == "quick" else 12000):
        prec = rng.choice([1, 2, 3, 6, 6, 8])
        nv = rng.choice([1, 2, 2])
        decls, w = [], []
        for _ in range(nv):
            v = rng.randint(-9, 6); lo = v - rng.randint(0, 4); hi = v + rng.randint(0, 4)
            decls.append("I %d %d" % (lo, hi)); w.append(v)
        posts = []
        for _ in range(rng.choice([1, 2, 2, 3])):
            i = rng.randrange(nv)
            d = Fraction(rng.choice([1, 2, 3]), 4) + rng.choice([0, 0, 1, 2])
            below = rng.random() < 0.5
            c = Fraction(w[i]) - d if below else Fraction(w[i]) + d
            if below: rel, order = rng.choice([("gt", "vc"), ("geq", "vc"), ("lt", "cv"), ("leq", "cv")])
            else: rel, order = rng.choice([("lt", "vc"), ("leq", "vc"), ("gt", "cv"), ("geq", "cv")])
            posts.append("props %s x%d f:%s" % (rel, i, hq(c)) if order == "vc" else "props %s f:%s x%d" % (rel, hq(c), i))
        if rng.random() < 0.5:
            step = fm.step_of(prec); v = grid(rng, step)
            decls.append("F %s %s" % (fm.f2h(dn(Fraction(v) - 2)), fm.f2h(up(Fraction(v) + 2))))
            posts.append("props leq x%d f:%s" % (nv, hq(Fraction(v) + 1)))
        out.append(" ; ".join([str(prec), "|".join(decls)] + posts + ["solve", "to 400"]))
    return out

def gen_unconstrained(tier, rng):
    """one float variable, NO constraint: every point of the interval is a (maximally robust) witness"""
    out = ["2 ; F 0000000000000000 3f8eb851eb851eb8 ; solve ; to 400"]       # the known witness: precision 2, [0, 0.015]
    n = 150 if tier == "quick" else 3000
    while len(out) < n:
        prec = rng.choice([1, 2, 2, 3, 4, 6])
        st = fm.step_of(prec)
        lo = rng.choice([0.0, 1.0, -1.0, 0.5, 2.5, rng.randint(-50, 50) * st])
        hi = lo + rng.choice([1.5, 2.5, 3.5, 1.25, 1.75, 2.25, 6.5, 10.5, float(rng.randint(2, 40)), rng.randint(3, 80) / 2.0]) * st
        out.append("%d ; F %s %s ; solve ; to 400" % (prec, fm.f2h(lo), fm.f2h(hi)))
    return out
def gen_witness_mul(tier, rng):
    """one product s = x * y posted through Model::mul (Mul propagator, props/mul.rs) around a witness whose product is exactly
    representable (x a small integer or half-integer, y a multiple of 1/4), with the operand boxes chosen where the divisor guard
    Val::range_contains_unsafe_divisor decides: a float operand box that ENDS AT 0 (either side), crosses 0, or stays away from it;
    then two inequalities on s that the witness satisfies with a margin of at least 1/2 (far above every step used here)"""
    n = 400 if tier == "quick" else 8000
    out = []
    while len(out) < n:
        prec = rng.choice([1, 2, 3, 4, 6])
        sgn = rng.choice([1, -1])
        wy = Fraction(sgn * rng.randint(1, 12), 4)                      # witness of the float operand: never 0
        shape = rng.choice(["end0", "end0", "end0", "cross", "away"])
        far = Fraction(rng.randint(1, 8)) + abs(wy)
        if shape == "end0": lo, hi = (Fraction(0), far) if sgn > 0 else (-far, Fraction(0))
        elif shape == "cross": lo, hi = (-Fraction(rng.randint(1, 3)), far) if sgn > 0 else (-far, Fraction(rng.randint(1, 3)))
        else: lo, hi = (Fraction(1, 4), far) if sgn > 0 else (-far, -Fraction(1, 4))
        ydecl = "F %s %s" % (hq(lo), hq(hi))
        if rng.random() < 0.6:
            wx = Fraction(rng.randint(1, 12)); xl, xh = int(wx) - rng.randint(0, 6), int(wx) + rng.randint(0, 10)
            if rng.random() < 0.7: xl = max(xl, 1)
            xdecl = "I %d %d" % (xl, xh)
        else:
            wx = Fraction(rng.randint(-8, 24), 2)
            xdecl = "F %s %s" % (hq(wx - rng.randint(0, 6)), hq(wx + rng.randint(0, 10)))
        ws = wx * wy
        decls = [xdecl, ydecl] if rng.random() < 0.5 else [ydecl, xdecl]
        a, b = rng.choice([("x0", "x1"), ("x1", "x0")])
        m1 = Fraction(rng.choice([1, 2, 4, 10]), 2); m2 = Fraction(rng.choice([1, 2, 4, 10, 40]), 2)
        posts = ["arith mul %s %s" % (a, b)]
        rows = ["lin le %s x2 %s" % (hq(Fraction(1)), hq(ws + m1)), "lin le %s x2 %s" % (hq(Fraction(-1)), hq(-(ws - m2)))]
        if rng.random() < 0.3: rows = rows[:1] if rng.random() < 0.5 else rows[1:]
        out.append(" ; ".join([str(prec), "|".join(decls)] + posts + rows + ["solve", "to 400"]))
    return out

FAMILIES = [
    Family("fwitness_mul", "solvef", gen_witness_mul, split=c06.split_oracle, nontrivial=lambda c, i: True, prop_judge=judge),
    Family("fwitness", "solvef", gen_witness, split=c06.split_oracle, nontrivial=lambda c, i: True, prop_judge=judge),
    Family("fwitness_eq", "solvef", gen_witness_eq, split=c06.split_oracle, nontrivial=lambda c, i: True, prop_judge=judge),
    Family("fwitness_int_const", "solvef", gen_witness_int_const, split=c06.split_oracle, nontrivial=lambda c, i: True, prop_judge=judge),
    Family("funconstrained", "solvef", gen_unconstrained, split=c06.split_oracle, nontrivial=lambda c, i: True, prop_judge=judge),
]
for _f in FAMILIES: _f.classify = classify
