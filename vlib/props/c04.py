"""C04 — minimize/maximize return a feasible assignment with the true optimum."""
from ..core import Family
from .. import plevel
from . import engine_common as ec
LP_ORACLE = ("root LP step (search/mod.rs, repaired: finding D10): modelled as an ORACLE refinement (coq/Model/LpRoot.v) -- the f64 simplex, "
             "to_lp_problem and apply_lp_solution are NOT modelled; the step hands the engine either nothing or some store s_lp (a copy of the "
             "variables fixed to the LP vertex), the engine searches s_lp first and falls back to the untouched root when that yields nothing. "
             "Proved for EVERY such answer with s_lp a well-formed sub-store of the root (C04.lp_tentative_sound, minimize_lp_ok_iff_sat): the "
             "answer is a solution of the model, `no solution` is exact, and an answer of the fallback phase is optimal. ASSUMED, not proved: "
             "an answer of the FIRST phase is optimal only if the LP bound is a valid bound of the model that the vertex store holds the "
             "objective to (hypothesis first_phase_optimal / lp_bound_attained), and an LP verdict `Infeasible` is still trusted by the code "
             "(same assumption: the LP is a relaxation of the model); both are judged here by the brute-force oracle on every opt_lp_on case")
TRUSTED_BASE = [t for t in ec.TB if "root LP step" not in t] + [
    "the optimisation fast path is switched off in the correspondence runs through hook H5 and is NOT modelled; the root LP step is switched off "
    "in the sequence-exact families and ON in family opt_lp_on", LP_ORACLE]
ASSUMPTIONS = ec.ASSUME + ["opt_lp_on: the LP oracle assumption above (the vertex store is whatever apply_lp_solution produced; only the gate -- whether "
                           "the step runs -- is compared with a model, through hook H5)"]
RULE = ("case = propagator-level model + `min <view>` / `max <view>` (decision variables, result variables, negated/offset/scaled "
        "views); the iterating sequence must equal the model's, be strictly improving, consist of solutions, and end at the brute-force "
        "optimum; Ok iff satisfiable. Root-LP step off (hook H5); family opt_lp_on runs with the LP step ON and is judged by the same oracle "
        "(finding D10 repaired: no known class is attached to the LP step any more; the former witnesses are corpus/solve.opt_lp_on.cases)")
def lp_on(tier, rng):
    return [c + " ; lp" for c in ec.gen_models(ec.entry_opt, 6000, 300000)(tier, rng)]
def split_lp(model_line):
    from ..core import default_split
    m, s, cls = default_split(model_line)
    return None, s, cls           # the LP vertex is an oracle of the model (Model/LpRoot.v): no sequence correspondence for this family, brute-force oracle only
import re
_PLAIN = re.compile(r"^x\d+$")
def lp_gate(case):
    """Re-statement of the root-LP gate (search/mod.rs:96-212, props/mod.rs extract_linear_system,
    mode.rs lp_objective) for propagator-level models: the step runs iff the objective is a plain variable
    or its opposite, that variable occurs in a row extracted from Add<VarId,VarId> / LessThanOrEquals<VarId,VarId>
    propagators, and the system has >= 1 row and >= 2 variables."""
    parts = [p.strip() for p in case.split(";")]
    lpvars, rows, obj = set(), 0, None
    for p in parts[1:]:
        t = p.split()
        if not t: continue
        if t[0] == "add" and all(_PLAIN.match(x) for x in t[1:4]):
            lpvars |= set(t[1:4]); rows += 1
        elif t[0] in ("leq", "geq") and all(_PLAIN.match(x) for x in t[1:3]):
            lpvars |= set(t[1:3]); rows += 1
        elif t[0] == "min":
            v = t[1]
            obj = v if _PLAIN.match(v) else (v[4:-1] if v.startswith("opp(") and _PLAIN.match(v[4:-1]) else None)
        elif t[0] == "max":
            obj = t[1] if _PLAIN.match(t[1]) else None       # max v = minimize(opposite v)
    return obj is not None and obj in lpvars and rows >= 1 and len(lpvars) >= 2
def classify_lp(case, impl, cls):
    # finding D10 (class lp_root: the LP vertex fixed on every LP variable made satisfiable models unsatisfiable) is repaired:
    # the vertex is tried first and the root is searched when it yields nothing.  No failure is attributed to the LP step any
    # more; a failing case of this family is a VIOLATION unless the model itself lies in a class of the other families.
    return cls
def corr_lp(case, impl, mpart):
    # correspondence for this family = the implementation runs the LP step exactly when the gate predicts it
    return impl.endswith(" lp=1") == lp_gate(case)
def judge_lp(case, impl, spec):
    return plevel.judge_solve(case, impl[:-5] if impl.endswith(" lp=1") else impl, spec)
def gen_deadends(tier, rng):
    """branch-and-bound under incomplete propagation: 4-6 small variables tied by 2-4 linear equalities with coefficients
    of magnitude 2-3 (parity clashes that bounds propagation only sees after branching), built around a witness so that most
    models are satisfiable.  Dead-end subtrees under an incumbent cut are frequent here; the objective is a plain variable or
    its negation.  (seeded change C04_fresh_node_skips_cut was caught by 1 of 2957 generic cases only)"""
    cases = []
    for _ in range(20000 if tier == "quick" else 300000):
        nv = rng.choice([4, 5, 5, 6])
        los = [rng.randint(-2, 1) for _ in range(nv)]
        his = [lo + rng.choice([1, 1, 2, 3, 3]) for lo in los]
        o = rng.choice([nv - 1, nv - 1, nv - 2, rng.randrange(nv)])     # objective late in the branching order: right siblings
        his[o] = los[o] + rng.choice([3, 4, 5, 6])                     # higher up still contain every objective value
        w = [rng.randint(lo, hi) for lo, hi in zip(los, his)]
        props = []
        for _ in range(rng.choice([2, 3, 3, 4])):
            k = rng.choice([2, 3, 3])
            xs = rng.sample(range(nv), k)
            cs = [rng.choice([-3, -2, -2, -1, 1, 1, 2, 2, 3]) for _ in xs]
            K = sum(c * w[x] for c, x in zip(cs, xs))
            if rng.random() < 0.15: K += rng.choice([-1, 1])          # some infeasible / shifted rows
            props.append("%s %s %s %d" % (rng.choice(["lineq", "lineq", "lineq", "linle"]), ",".join(map(str, cs)), ",".join("x%d" % x for x in xs), K))
        obj = rng.choice(["x%d", "opp(x%d)"]) % o
        cases.append(" ; ".join(["|".join("%d..%d" % (lo, hi) for lo, hi in zip(los, his))] + props + ["%s %s" % (rng.choice(["min", "max"]), obj)]))
    return cases

FAMILIES = [
    Family("opt_random", "solve", ec.gen_models(ec.entry_opt, 12000, 600000), nontrivial=ec.nontrivial_solve, prop_judge=plevel.judge_solve),
    Family("opt_deadends", "solve", gen_deadends, nontrivial=ec.nontrivial_solve, prop_judge=plevel.judge_solve),
    Family("opt_structured", "solve", lambda tier, rng: [c for c in ec.structured(tier, rng) if " max " in c or " min " in c], nontrivial=ec.nontrivial_solve, prop_judge=plevel.judge_solve),
    Family("opt_lp_on", "solve", lp_on, split=split_lp, nontrivial=ec.nontrivial_solve, prop_judge=judge_lp),
]
FAMILIES[-1].classify = classify_lp
FAMILIES[-1].corr = corr_lp

# ---------------------------------------------------------------------------------------------------------------------
# Model level: Model::minimize / Model::maximize themselves (model/core.rs: maximize as minimize of the opposite view, the
# search fallback, how the Solution is read back) are exercised through the posting-routes and fluent families of C01/C10
# restricted to optimisation entries, and rewritten so that EVERY case is an optimisation (the seeded change C04c —
# an early exit in Model::minimize comparing the raw variable with the view's bound — was invisible to the engine-level
# families above).  Same family names as in vlib/props/routes.py / c10.py, so their known-finding entries apply.
import copy as _copy, random as _random
from . import routes as _routes, c10 as _c10
def _as_opt(f, frac):
    g = _copy.copy(f)
    base = f.gen
    def gen(tier, rng):
        out = []
        for c in base(tier, rng):
            parts = [p.strip() for p in c.split(";")]
            e = _c10.entry_of(c)
            if e[0] in ("min", "max"):
                out.append(c); continue
            if e[0] in ("enum", "first") and parts[-1].split()[0] in ("enum", "first") and rng.random() < frac:
                if "(" in parts[0] or not parts[0]: continue          # array factories: the number of handles is not the number of tokens
                nd = len(parts[0].split("|"))
                out.append(" ; ".join(parts[:-1] + ["%s x%d" % (rng.choice(["min", "max"]), rng.randrange(nd))]))
        return out
    g.gen = gen
    g.takes_witnesses = False      # C04's own witnesses are propagator-level case lines (other grammar)
    return g
_model_level = [_as_opt(f, 0.25) for f in _routes.FAMILIES if f.sub == "rsolve"] + [_as_opt(f, 0.5) for f in _c10.FAMILIES if f.sub == "msolve"]
FAMILIES += _model_level
KNOWN_PIDS = sorted(set(["C04"] + list(_routes.KNOWN_PIDS) + list(getattr(_c10, "KNOWN_PIDS", []))))
SHARED_CLASSES = tuple(sorted(set(_routes.SHARED_CLASSES) | set(getattr(_c10, "SHARED_CLASSES", ()))))
