"""C04 — minimize/maximize return a feasible assignment with the true optimum."""
from ..core import Family
from .. import plevel
from . import engine_common as ec
TRUSTED_BASE = ec.TB
ASSUMPTIONS = ec.ASSUME
RULE = ("case = propagator-level model + `min <view>` / `max <view>` (decision variables, result variables, negated/offset/scaled "
        "views); the iterating sequence must equal the model's, be strictly improving, consist of solutions, and end at the brute-force "
        "optimum; Ok iff satisfiable. Root-LP step off (hook H5); a second family runs with the LP step ON and is judged by the same oracle (known finding D10)")
def lp_on(tier, rng):
    return [c + " ; lp" for c in ec.gen_models(ec.entry_opt, 1500, 300000)(tier, rng)]
def split_lp(model_line):
    from ..core import default_split
    m, s, cls = default_split(model_line)
    return None, s, cls           # the LP step is not modelled: no correspondence for this family, oracle only
import re
_PLAIN = re.compile(r"^x\d+$")
def lp_gate(case):
    """Re-statement of the root-LP gate (search/mod.rs:96-212, props/mod.rs extract_linear_system,
    mode.rs lp_objective) for propagator-level models: the step runs iff the objective is a plain variable
    or its opposite, that variable occurs in a row extracted from Add<VarId,VarId> / LessThanOrEquals<VarId,VarId>
    propagators, and the system has >= 1 row and >= 2 variables."""
    parts = [p.strip() for p in case.split(";")]
    lpvars, rows, obj = set(), 0, None
    for p in parts[1:]:
        t = p.split()
        if not t: continue
        if t[0] == "add" and all(_PLAIN.match(x) for x in t[1:4]):
            lpvars |= set(t[1:4]); rows += 1
        elif t[0] in ("leq", "geq") and all(_PLAIN.match(x) for x in t[1:3]):
            lpvars |= set(t[1:3]); rows += 1
        elif t[0] == "min":
            v = t[1]
            obj = v if _PLAIN.match(v) else (v[4:-1] if v.startswith("opp(") and _PLAIN.match(v[4:-1]) else None)
        elif t[0] == "max":
            obj = t[1] if _PLAIN.match(t[1]) else None       # max v = minimize(opposite v)
    return obj is not None and obj in lpvars and rows >= 1 and len(lpvars) >= 2
def classify_lp(case, impl, cls):
    # attribution: a failure is put down to finding D10 only when the gate says the root LP step runs on the
    # UNCHANGED code for this case and the hook-H5 flag confirms that it ran
    return cls or ("lp_root" if (lp_gate(case) and impl.endswith(" lp=1")) else None)
def corr_lp(case, impl, mpart):
    # correspondence for this family = the implementation runs the LP step exactly when the gate predicts it
    return impl.endswith(" lp=1") == lp_gate(case)
def judge_lp(case, impl, spec):
    return plevel.judge_solve(case, impl[:-5] if impl.endswith(" lp=1") else impl, spec)
FAMILIES = [
    Family("opt_random", "solve", ec.gen_models(ec.entry_opt, 3000, 600000), nontrivial=ec.nontrivial_solve, prop_judge=plevel.judge_solve),
    Family("opt_structured", "solve", lambda tier, rng: [c for c in ec.structured(tier, rng) if " max " in c or " min " in c], nontrivial=ec.nontrivial_solve, prop_judge=plevel.judge_solve),
    Family("opt_lp_on", "solve", lp_on, split=split_lp, nontrivial=ec.nontrivial_solve, prop_judge=judge_lp),
]
FAMILIES[-1].classify = classify_lp
FAMILIES[-1].corr = corr_lp
