"""C04 — minimize/maximize return a feasible assignment with the true optimum."""
from ..core import Family
from .. import plevel
from . import engine_common as ec
TRUSTED_BASE = ec.TB
ASSUMPTIONS = ec.ASSUME
RULE = ("case = propagator-level model + `min <view>` / `max <view>` (decision variables, result variables, negated/offset/scaled "
        "views); the iterating sequence must equal the model's, be strictly improving, consist of solutions, and end at the brute-force "
        "optimum; Ok iff satisfiable. Root-LP step off (hook H5); a second family runs with the LP step ON and is judged by the same oracle (known finding D10)")
def lp_on(tier, rng):
    return [c + " ; lp" for c in ec.gen_models(ec.entry_opt, 1500, 40000)(tier, rng)]
def split_lp(model_line):
    from ..core import default_split
    m, s, cls = default_split(model_line)
    return None, s, cls           # the LP step is not modelled: no correspondence for this family, oracle only
def classify_lp(case, impl, cls):
    # attribution: a failure is put down to finding D10 only when the root LP step actually ran (hook H5 flag)
    return cls or ("lp_root" if impl.endswith(" lp=1") else None)
def judge_lp(case, impl, spec):
    return plevel.judge_solve(case, impl[:-5] if impl.endswith(" lp=1") else impl, spec)
FAMILIES = [
    Family("opt_random", "solve", ec.gen_models(ec.entry_opt, 3000, 80000), nontrivial=ec.nontrivial_solve, prop_judge=plevel.judge_solve),
    Family("opt_structured", "solve", lambda tier, rng: [c for c in ec.structured(tier, rng) if " max " in c or " min " in c], nontrivial=ec.nontrivial_solve, prop_judge=plevel.judge_solve),
    Family("opt_lp_on", "solve", lp_on, split=split_lp, nontrivial=ec.nontrivial_solve, prop_judge=judge_lp),
]
FAMILIES[-1].classify = classify_lp
