"""C09 — LP solver: Optimal means feasible and optimal; Infeasible means infeasible; objective = c.x;
warm-started dual solve agrees with cold primal solve.

Shape of the tie for this property.  The model's simplex (coq/Model/LP.v: Bland's rule, one artificial
column, exact rationals) is deliberately NOT a mirror of the Rust pivoting (Dantzig rule, one artificial per
row, LU in f64), so outputs are not compared token by token.  The model answers with a *certified* status
and optimal value (the certificate checkers are proved sound for every dimension in
coq/Proofs/LPProofs.v), and "correspondence" for C09 is exactly the following judgement of the
implementation's answer, made by the extracted verified functions through `driver lpjudge`:
  (a) status equals the certified exact status (exact Infeasible is matched by LpStatus::Infeasible and by
      Err(NumericalInstability), the code's only way to say "Phase I ended with a positive artificial sum");
  (b) |reported objective - certified optimum| <= tol*(1+|optimum|);
  (c) the returned point (f64 bit patterns decoded to exact rationals) passes the verified feasible_tol P tol;
  (d) |reported objective - c.x(returned point)| <= tol*(1+|c.x|);
  (e) solve_warmstart (dual simplex from the cold solve's basis, same problem) is Optimal with the cold
      objective within tol and itself passes (a)-(d);
  (f) solve_warmstart of the full problem from the solution of the problem without its last row (the
      documented use: "adding constraints to a previously solved problem") passes (a)-(d).
tol is the configured LpConfig::default().feasibility_tol, read from /repo/src/lpsolver/types.rs on every run.
Families `*_cold` judge (a)-(d) on lpsolver::solve, families `*_warm` judge (e),(f), so that a failure of the
warm start cannot hide a failure of the cold solve.  The runner's correspondence bit for these families (hook
`corr`) only says that the comparison could be made (certified solver answered, harness line well-formed, judge
gave a verdict); every disagreement, including a status disagreement, is a property failure with a concrete input."""
import fractions, itertools, os, re
from .. import core
from ..core import Family

TRUSTED_BASE = [
    "Coq 8.16.1 kernel (coqc full .vo build); vm_compute used only for the non-vacuity examples",
    "coq/Model/LP.v: specification `feasible`/`objective`, certificate checkers, exact simplex `lp_solve` (simplex-then-check), `feasible_tol`, `close_rel`, `f64_to_Q`; the LP record transcribes src/lpsolver/types.rs:122-149 (modelled by reading)",
    "extraction: ExtrOcamlBasic only, no Extract Constant; ocamlfind ocamlopt 4.13.1; ocaml/lp_cmd.ml glue (parsing of case lines and harness lines, dispatch of clauses a-f, printing)",
    "Rust harness harness/src/lp.rs (drives selen::lpsolver::{solve, solve_warmstart} with LpConfig::default()), cargo/rustc, debug profile with debug assertions as the crate's own test suite",
    "f64 bit patterns are decoded to exact rationals by the extracted f64_to_Q (definition in LP.v, not proved against Flocq); all case data are dyadic rationals, exact in f64",
    "tolerance read by regex from LpConfig::default() in src/lpsolver/types.rs",
]
ASSUMPTIONS = [
    "exact rational arithmetic in the model: f64 rounding, LU pivoting and tolerance effects inside the implementation are not modelled; they are observed only through the judged outputs",
    "finite bounds with l <= u (the C09 scope); infinite upper bounds are not generated",
    "the optimum value is compared, never the optimal point (alternative optima)",
    "clause (a) counts Err(NumericalInstability) as the implementation's 'infeasible' answer because no code path produces LpStatus::Infeasible (simplex_primal.rs:386-391)",
]
RULE = ("case = dense LP with 1..4 variables, 0..5 rows, integer or half-integer data in [-4,4], finite bounds with negative "
        "lower bounds, negative right-hand sides (Phase I), duplicate / scaled / opposite / zero rows, rows through a common "
        "vertex (degenerate), fixed variables, zero objective, infeasible systems; grid families are exhaustive over a small "
        "alphabet for n<=2, m<=2, the random families are seeded; non-trivial = at least one row with a non-zero coefficient")

# ------------------------------------------------------------------------------------------------
# configured tolerance, from the source

def read_tol():
    src = open(os.path.join(core.REPO, "src/lpsolver/types.rs")).read()
    m = re.search(r"impl Default for LpConfig\s*\{.*?feasibility_tol:\s*([0-9.eE+-]+)\s*,", src, re.S)
    if not m:
        raise RuntimeError("c09: feasibility_tol not found in LpConfig::default() (src/lpsolver/types.rs)")
    fr = fractions.Fraction(m.group(1))
    return "%d/%d" % (fr.numerator, fr.denominator)

# ------------------------------------------------------------------------------------------------
# case lines

def q(v):
    """v is an int number of halves -> 'p' or 'p/2'"""
    return str(v // 2) if v % 2 == 0 else "%d/2" % v

def line(c, A, b, l, u):
    return "c %s ; A%s ; b%s ; l %s ; u %s" % (
        " ".join(map(q, c)),
        (" " + " | ".join(" ".join(map(q, r)) for r in A)) if A else "",
        (" " + " ".join(map(q, b))) if b else "",
        " ".join(map(q, l)), " ".join(map(q, u)))

def nontrivial(case, impl):
    m = re.search(r"; A([^;]*);", case)
    return bool(m) and any(t not in ("0", "|") for t in m.group(1).split())

# all data below are in halves: 2 means 1, -1 means -1/2

def gen_grid(tier, rng):
    cases = []
    # n = 1: every row a*x <= b
    for l, u in [(-4, 6), (0, 4), (-6, -2), (2, 2)]:
        for c in (-2, 0, 3):
            cases.append(line([c], [], [], [l], [u]))
            for a1, b1 in itertools.product((-2, -1, 0, 2, 4), (-8, -3, 0, 1, 4)):
                cases.append(line([c], [[a1]], [b1], [l], [u]))
                if tier != "quick":
                    for a2, b2 in itertools.product((-2, 0, 1, 2), (-4, -1, 0, 6)):
                        cases.append(line([c], [[a1], [a2]], [b1, b2], [l], [u]))
    # n = 2, m <= 2
    ent = (-2, 0, 2) if tier == "quick" else (-2, -1, 0, 2, 4)
    bs = (-2, 0, 3) if tier == "quick" else (-4, -1, 0, 3, 8)
    objs = [(2, 2), (2, -2), (-2, 0), (0, 0)] if tier == "quick" else [(2, 2), (2, -2), (-2, 0), (0, 0), (1, 4), (-3, -2)]
    bnds = [((0, 0), (4, 4)), ((-4, -2), (2, 6)), ((2, -6), (2, -2))]
    for (l, u), c in itertools.product(bnds, objs):
        for r1 in itertools.product(ent, repeat=2):
            for b1 in bs:
                cases.append(line(c, [r1], [b1], l, u))
        rows = list(itertools.product(ent, repeat=2))
        for r1, r2 in itertools.product(rows, repeat=2):
            if tier == "quick" and (r1 > r2):
                continue
            for b1, b2 in itertools.product(bs, repeat=2):
                if tier == "quick" and (b1 + b2) % 3 == 1:
                    continue
                cases.append(line(c, [r1, r2], [b1, b2], l, u))
    return cases

def rand_lp(rng):
    n = rng.choice([1, 2, 2, 3, 3, 4, 4])
    m = rng.choice([0, 1, 2, 2, 3, 3, 4, 5, 5])
    half = rng.random() < 0.4
    def val(lo=-8, hi=8):
        v = rng.randint(lo, hi)
        return v if half else 2 * (v // 2)
    # bounds: negative lower bounds are common, some fixed variables
    l, u = [], []
    for _ in range(n):
        r = rng.random()
        lo = val(-8, 4) if r < 0.8 else 0
        w = 0 if rng.random() < 0.1 else abs(val(0, 8))
        hi = min(8, lo + w)
        l.append(lo); u.append(max(lo, hi))
    c = [0 if rng.random() < 0.15 else val() for _ in range(n)]
    # an anchor point inside the box, on the half-integer grid: rows through it give degenerate vertices
    x0 = [rng.randint(l[j], u[j]) for j in range(n)]
    A, b = [], []
    anchored = rng.random() < 0.7           # rows keep the anchor feasible (most such problems are feasible)
    for i in range(m):
        r = rng.random()
        if A and r < 0.12:                      # duplicate row (maybe with another rhs)
            k = rng.randrange(len(A)); row = list(A[k]); bi = b[k] if rng.random() < 0.5 else b[k] + rng.choice([-2, 1, 2])
        elif A and r < 0.20:                    # scaled row
            k = rng.randrange(len(A)); row = [2 * a for a in A[k]]; bi = 2 * b[k]
            if any(abs(a) > 8 for a in row) or abs(bi) > 8: row = list(A[k]); bi = b[k]
        elif A and r < 0.32:                    # opposite row: equality, slab, or infeasible pair
            k = rng.randrange(len(A)); row = [-a for a in A[k]]
            bi = -b[k] + rng.choice([0, 0, 0, 2, 4, 1, -1, -2])
        elif r < 0.36:                          # zero row
            row = [0] * n; bi = rng.choice([0, 0, 2, 1, -1])
        else:
            row = [0 if rng.random() < 0.25 else val() for _ in range(n)]
            ax = sum(a * x for a, x in zip(row, x0))        # in quarter units
            if anchored:
                bi = -((-ax) // 2) + (0 if rng.random() < 0.6 else rng.choice([1, 2, 4]))   # tight at / near the anchor
            else:
                bi = val()
        bi = max(-8, min(8, bi))
        A.append(row); b.append(bi)
    return line(c, A, b, l, u)

def gen_random(tier, rng):
    n = 4000 if tier == "quick" else 100000
    return [rand_lp(rng) for _ in range(n)]

def gen_grid_warm(tier, rng):
    g = gen_grid(tier, rng)
    k = 600 if tier == "quick" else 6000
    return g[:: max(1, len(g) // k)]

def gen_random_warm(tier, rng):
    n = 6000 if tier == "quick" else 100000
    return [rand_lp(rng) for _ in range(n)]

# ------------------------------------------------------------------------------------------------
# judging

class Judge:
    """Verdicts of `driver lpjudge` for one mode; filled in bulk by prejudge (sharded), one-shot for replays."""
    def __init__(self, mode):
        self.mode, self.verdicts, self.tol = mode, {}, None
    def jline(self, case, impl):
        if self.tol is None:
            self.tol = read_tol()
        return "%s ||| %s ||| tol=%s ||| mode=%s" % (case, impl, self.tol, self.mode)
    def prejudge(self, cases, impls, models):
        lines = [self.jline(c, i if i is not None else "MISSING") for c, i in zip(cases, impls)]
        out = core.run_lines(core.driver_exe(), "lpjudge", lines)
        for c, i, v in zip(cases, impls, out):
            self.verdicts[(c, i)] = v
    def __call__(self, case, impl, spec):
        v = self.verdicts.get((case, impl))
        if v is None:
            v = core.run_lines(core.driver_exe(), "lpjudge", [self.jline(case, impl)])[0]
        return None if v == "ok" else (v or "no verdict")
    def corr(self, case, impl, mpart):
        """Correspondence bit.  The model is not a mirror of the code, so no token-level equality is demanded;
        status agreement is clause (a) of the judge (a property failure with a concrete input, subject to the
        known-finding classes).  What remains for the correspondence bit is that the comparison could be made
        at all: the certified solver answered (it must always answer Optimal or Infeasible in the C09 scope),
        the harness produced a well-formed line, and the judge produced a verdict."""
        if mpart not in ("Optimal", "Infeasible"):
            return False
        if not (impl or "").startswith("cold "):
            return False
        v = self.verdicts.get((case, impl))
        if v is None:
            v = core.run_lines(core.driver_exe(), "lpjudge", [self.jline(case, impl)])[0]
        return bool(v) and (v == "ok" or re.match(r"^[a-f]:", v) is not None)

# Known-finding classes of C09 (entries in known_findings.txt make failures inside them KNOWN-FINDINGs):
#   phase1      decidable from the case: the shifted slack basis is infeasible (Coq: needs_phase1; the driver
#               marks the case BAD:phase1) — cold families
#   ratio_test  NOT decidable from the case (a rounding residue at a degenerate vertex); the class is
#               extensional: exactly the witness case lines listed under class=ratio_test in
#               known_findings.txt, so that any new failing input outside phase1 is a VIOLATION — cold families
#   warmstart   every in-scope problem (all have a finite upper bound, which is exactly when
#               solve_warmstart cannot work) — warm families
_listed = {}
def listed(cls):
    if cls not in _listed:
        _listed[cls] = {k["witness"] for k in core.load_known("C09") if k["state"] == "open" and k["cls"] == cls and k["witness"]}
    return _listed[cls]

def classify_cold(case, impl, cls):
    if cls is None and case in listed("ratio_test"):
        return "ratio_test"
    return cls

def classify_warm(case, impl, cls):
    return "warmstart"

def fam(name, gen, mode, exhaustive=False):
    j = Judge(mode)
    f = Family(name, "lp", gen, nontrivial=nontrivial, prop_judge=j, exhaustive=exhaustive)
    # hooks read by vlib/runner.py through getattr (see c09_runner.patch):
    f.corr = j.corr                # correspondence predicate
    f.prejudge = j.prejudge        # bulk pre-computation of the judge verdicts (sharded `driver lpjudge`)
    f.classify = classify_warm if mode == "warm" else classify_cold
    return f

FAMILIES = [
    fam("grid_cold", gen_grid, "cold", exhaustive=True),
    fam("random_cold", gen_random, "cold"),
    fam("grid_warm", gen_grid_warm, "warm"),
    fam("random_warm", gen_random_warm, "warm"),
]
