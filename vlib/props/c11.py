"""C11 — integer domain store behaves as a mathematical set under any history."""
import itertools
from ..core import Family

TRUSTED_BASE = [
    "Coq 8.16.1 kernel (coqc full .vo build); vm_compute used only for the closed refutation witness and the non-vacuity example",
    "hand-written model coq/Model/SparseSet.v of src/variables/domain/sparse_set.rs:55-562 (modelled, not verified): tied by this run's differential",
    "extraction: ExtrOcamlBasic only (Extract Inductive bool/option/unit/prod/list/sumbool from that file), no Extract Constant; ocamlfind ocamlopt 4.13.1; ocaml/driver.ml glue",
    "Rust harness harness/src/sparseset.rs (drives the public doc-hidden SparseSet API), cargo/rustc",
    "u32/i32 modelled as unbounded nat/Z (overflow is a C17 matter)",
]
ASSUMPTIONS = [
    "snapshots are used with stack discipline (restoring snapshot k discards the snapshots taken after it), as a trail does",
    "known class D7 (restore of a snapshot after a union_with that added a value) is excluded from the theorem and listed in known_findings.txt",
]
RULE = ("case = initial domain (range or value list, negative offsets, holes) + op sequence over rm/rmall/only/below/above/"
        "inter/union/diff/save/restore/subset/equals/has incl. out-of-range arguments and ops on empty sets; exhaustive over a "
        "small alphabet up to a length bound, then seeded random longer histories; non-trivial = the set changed at least once")

def nontrivial(case, impl):
    steps = impl.split(" / ")
    els = [s.split(" el=")[1].split(" ")[0] for s in steps if " el=" in s]
    return len(set(els)) > 1

def alphabet(lo, hi):
    xs = list(range(lo - 1, hi + 2))
    ops = ["rmall", "save", "restore 0", "restore 1"]
    for x in xs:
        ops += ["rm %d" % x, "only %d" % x, "below %d" % x, "above %d" % x]
    mid = (lo + hi) // 2
    sets = ["-", "%d" % lo, "%d,%d" % (mid, hi + 1), "%d,%d,%d" % (lo - 1, lo, hi)]
    for s in sets:
        ops += ["inter " + s, "union " + s, "diff " + s]
    return ops

def gen_exhaustive(tier, rng):
    cases = []
    cfgs = [("r -1 1", -1, 1, 3), ("r 0 3", 0, 3, 2), ("v -2,0,1", -2, 1, 2)] if tier == "quick" else \
           [("r -1 1", -1, 1, 4), ("r 0 3", 0, 3, 3), ("v -2,0,1", -2, 1, 3), ("r 2 2", 2, 2, 4), ("r -3 1", -3, 1, 3), ("r 3 1", 1, 3, 3), ("v -", 0, 0, 3)]
    for init, lo, hi, maxlen in cfgs:
        al = alphabet(lo, hi)
        for L in range(0, maxlen + 1):
            for seq in itertools.product(al, repeat=L):
                cases.append(" ; ".join((init,) + seq))
    return cases

def rand_set(rng, lo, hi):
    k = rng.choice([0, 1, 2, 3, 5, 8])
    vals = [rng.randint(lo - 2, hi + 2) for _ in range(k)]
    return ",".join(map(str, vals)) if vals else "-"

def gen_random(tier, rng):
    n = 6000 if tier == "quick" else 120000
    cases = []
    for _ in range(n):
        big = rng.random() < 0.15
        w = rng.randint(0, 300 if big else 12)
        lo = rng.randint(-400, 400) if big else rng.randint(-6, 6)
        hi = lo + w
        if rng.random() < 0.7:
            init = "r %d %d" % ((lo, hi) if rng.random() < 0.9 else (hi, lo))
        else:
            k = rng.randint(0, min(w + 1, 10))
            init = "v " + (",".join(str(rng.randint(lo, hi)) for _ in range(k)) if k else "-")
        L = rng.randint(1, 60 if big else 14)
        ops, nsn = [], 0
        for _ in range(L):
            r = rng.random()
            x = rng.randint(lo - 2, hi + 2)
            if r < 0.30: ops.append("rm %d" % x)
            elif r < 0.33: ops.append("rmall")
            elif r < 0.38: ops.append("only %d" % x)
            elif r < 0.48: ops.append("below %d" % x)
            elif r < 0.58: ops.append("above %d" % x)
            elif r < 0.64: ops.append("inter " + rand_set(rng, lo, hi))
            elif r < 0.70: ops.append("union " + rand_set(rng, lo, hi))
            elif r < 0.76: ops.append("diff " + rand_set(rng, lo, hi))
            elif r < 0.86: ops.append("save"); nsn += 1
            elif r < 0.94: ops.append("restore %d" % rng.randint(0, max(0, nsn)))
            elif r < 0.96: ops.append("subset " + rand_set(rng, lo, hi))
            elif r < 0.98: ops.append("equals " + rand_set(rng, lo, hi))
            else: ops.append("has %d" % x)
        cases.append(" ; ".join([init] + ops))
    return cases

FAMILIES = [
    Family("exhaustive_small", "sparseset", gen_exhaustive, nontrivial=nontrivial, exhaustive=True),
    Family("random_histories", "sparseset", gen_random, nontrivial=nontrivial),
]
