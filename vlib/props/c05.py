"""C05 — propagation removes only unsupported values; fails only if nothing is left."""
import itertools
from ..core import Family
from .. import plevel, plevel_global

PROPERTY_FILES = ["C05", "C05_Neq", "C05_Global", "C05_Logic", "C05_Arith"]
TRUSTED_BASE = [
    "Coq 8.16.1 kernel (coqc full .vo build)",
    "hand-written model of props/*.rs, views.rs, agenda.rs, search::propagate (coq/Model/{Dom,Views,PropDefs,Propagate}.v, Model/Props/*.v): modelled, not verified; tied by this run's differential",
    "abstract domains (strictly increasing lists) stand for SparseSet through the C11 refinement theorem",
    "extraction: ExtrOcamlBasic only, no Extract Constant; OCaml driver ocaml/plevel_cmd.ml (incl. the brute-force spec over `sat`); Rust harness harness/src/plevel.rs",
    "i32 arithmetic modelled in unbounded Z (saturating ops = plain ops under the InRange hypothesis; overflow is C17)",
]
ASSUMPTIONS = [
    "vocabulary covered = the propagator constructors listed in DESIGN.md 'model coverage'; other kinds are not claimed",
    "known classes are listed in known_findings.txt",
]
RULE = ("case = tuple of starting domains (holes, negatives, singletons) + propagator list; implementation output compared with the "
        "extracted model (exact) and judged against the brute-force support sets computed from the Coq `sat` (shrinks only, no "
        "supported value removed, fails only if unsatisfiable, fixed => succeeds iff holds); exhaustive over subsets of a small "
        "universe per kind, then seeded random; non-trivial = some domain changed or the propagator failed")

def nontrivial(case, impl):
    if impl == "fail": return True
    if not impl.startswith("ok "): return True
    doms = impl.split(" ", 2)[2]
    orig = case.split(";")[0].strip()
    canon = "|".join(",".join(map(str, d)) for d in plevel.parse_doms(doms))
    o = []
    for d in orig.split("|"):
        d = d.strip()
        if ".." in d:
            a, b = d.split(".."); o.append(",".join(map(str, range(int(a), int(b) + 1))))
        else: o.append(d)
    return canon != "|".join(o)

def gen_exhaustive(tier, rng):
    uni = [-2, -1, 0, 1, 2] if tier == "thorough" else [-1, 0, 1, 2]
    subs = plevel.subsets(uni)
    cases = []
    templates3 = ["add x0 x1 x2", "sub x0 x1 x2", "add x0 opp(x1) x2", "add plus(x0,1) times(x1,2) x2", "sum x0,x1 x2",
                  "lineq 1,1,-1 x0,x1,x2 0", "lineq 2,3,-1 x0,x1,x2 1", "linle 2,-3,1 x0,x1,x2 1", "linne 1,-1,2 x0,x1,x2 0",
                  "lineq 2,0,-3 x0,x1,x2 1"]
    templates2 = ["neq x0 x1", "neq plus(x0,1) x1", "neq x0 c:1", "neq opp(x0) times(x1,2)", "leq x0 x1", "lt x0 x1", "gt x0 x1", "geq x0 x1", "eq x0 x1", "leq times(x0,2) x1", "leq times(x0,-2) plus(x1,1)",
                  "eq times(x0,2) x1", "eq opp(x0) next(x1)", "lineq 2,3 x0,x1 1", "lineq -2,3 x0,x1 -1", "linle -2,-3 x0,x1 -1",
                  "linne 2,-1 x0,x1 0", "leq x0 c:0", "leq c:0 x1", "eq x0 c:1", "lineq 2,2 x0,x1 3", "linle 0,0 x0,x1 -1"]
    for t in templates3:
        for a, b, c in itertools.product(subs, repeat=3):
            cases.append("%s|%s|%s ; %s" % (a, b, c, t))
    for t in templates2:
        for a, b in itertools.product(subs, repeat=2):
            cases.append("%s|%s ; %s" % (a, b, t))
    for t in ["lineqr 1,1 x0,x1 1 x2", "linler 1,-1 x0,x1 0 x2", "linner 2,1 x0,x1 2 x2", "lineqr 2,3 x0,x1 1 x2"]:
        for a, b in itertools.product(subs, repeat=2):
            for bb in ["0", "1", "0,1"]:
                cases.append("%s|%s|%s ; %s" % (a, b, bb, t))
    return cases

def gen_random(tier, rng):
    n = 4000 if tier == "quick" else 100000
    cases = []
    for _ in range(n):
        nv, doms, props = plevel.rand_model(rng, maxprops=3)
        if not props: continue
        c = " ; ".join(["|".join(doms)] + props)
        if rng.random() < 0.3: c += " ; sched %d" % rng.randint(1, 10**6)
        cases.append(c)
    return cases

def gen_exhaustive_global(tier, rng):
    return plevel_global.exhaustive_cases(tier, plevel.subsets)

def gen_random_global(tier, rng):
    n = 6000 if tier == "quick" else 150000
    kinds = plevel.BASIC_KINDS + plevel.GLOBAL_KINDS * 3
    cases = []
    for _ in range(n):
        nv, doms, props = plevel.rand_model(rng, kinds=kinds, maxprops=3)
        if not props: continue
        c = " ; ".join(["|".join(doms)] + props)
        if rng.random() < 0.3: c += " ; sched %d" % rng.randint(1, 10**6)
        cases.append(c)
    return cases

def nontrivial_prune1(case, impl):
    return impl == "fail" or not impl.endswith("ev=-")

FAMILIES = [
    Family("exhaustive_domains", "prop", gen_exhaustive, nontrivial=nontrivial, prop_judge=plevel.judge_prop, exhaustive=True),
    Family("random_models", "prop", gen_random, nontrivial=nontrivial, prop_judge=plevel.judge_prop),
    Family("exhaustive_domains_global", "prop", gen_exhaustive_global, nontrivial=nontrivial, prop_judge=plevel.judge_prop, exhaustive=True),
    Family("random_models_global", "prop", gen_random_global, nontrivial=nontrivial, prop_judge=plevel.judge_prop),
    # one call of prune per propagator, events included (no propagation loop): correspondence only
    Family("single_prune_global", "prune1", gen_exhaustive_global, nontrivial=nontrivial_prune1, exhaustive=True),
    Family("single_prune_random_global", "prune1", gen_random_global, nontrivial=nontrivial_prune1),
]

# group Logic (bool_and/or/not/xor, int_*_reif, all_equal, between, if_then_else): families defined next to its generators
from . import c05_logic as _logic
FAMILIES += _logic.FAMILIES

# group Arith (abs, min, max, mul, modulo): the models are the code repaired by fix commits a87256b / eab5616
from . import c05_arith as _arith
FAMILIES += _arith.FAMILIES

# dependency tables: which propagators are woken when a variable changes (Propagators::on_bound_change) against the
# model's trigger lists (PropDefs.trig), for the random models of every group plus linear rows with zero coefficients
# and repeated variables (seeded change C01c narrowed the trigger list of the linear propagators to non-zero
# coefficients; propagation results alone rarely show it).  Correspondence only.
def gen_deps(tier, rng):
    import random as _r
    cases = []
    for f in list(FAMILIES):
        if f.sub == "prop" and "random" in f.name:
            cs = f.gen(tier, _r.Random(rng.random()))
            cases += [c for c in cs if " sched " not in c][: (1500 if tier == "quick" else 30000)]
    for _ in range(1500 if tier == "quick" else 30000):
        nv = rng.randint(2, 4)
        doms = "|".join(rng.choice(["0..3", "-2..2", "0..1", "1,3,4"]) for _ in range(nv))
        props = []
        for _ in range(rng.randint(1, 3)):
            k = rng.randint(1, 4)
            xs = [rng.randrange(nv) for _ in range(k)]
            cs = [rng.choice([0, 0, 1, -1, 2]) for _ in xs]
            kind = rng.choice(["lineq", "linle", "linne", "lineqr", "linler", "linner"])
            p = "%s %s %s %d" % (kind, ",".join(map(str, cs)), ",".join("x%d" % x for x in xs), rng.randint(-2, 4))
            if kind.endswith("r"): p += " x%d" % rng.randrange(nv)
            props.append(p)
        cases.append(" ; ".join([doms] + props))
    return cases
FAMILIES.append(Family("dependency_tables", "deps", gen_deps, nontrivial=lambda c, i: i.startswith("deps") and any(ch.isdigit() for ch in i)))

# quick tier: the two largest exhaustive families (group Global, 1.1M cases each) are thinned to every 4th case so
# that the check stays near one minute; the thorough tier enumerates them completely
def _thin(fam, k=4):
    g = fam.gen
    fam.gen = lambda tier, rng, g=g: (g(tier, rng) if tier != "quick" else g(tier, rng)[::k])
    fam.exhaustive_tiers = ("thorough",)
for _f in FAMILIES:
    if _f.name in ("exhaustive_domains_global", "single_prune_global"):
        _thin(_f)
