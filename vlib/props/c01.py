"""C01 — returned solutions satisfy every posted constraint (all entry points)."""
from ..core import Family
from .. import plevel
from . import engine_common as ec
TRUSTED_BASE = ec.TB
ASSUMPTIONS = ec.ASSUME
RULE = ("case = propagator-level model + entry point (enumerate / first solution / minimize / maximize of a view, iterating); every "
        "assignment the implementation yields must be in the brute-force solution set computed from the Coq `sat` over the declared "
        "domains, and the sequence must equal the extracted model's; non-trivial = at least one assignment yielded")
FAMILIES = [
    Family("entries_random", "solve", ec.gen_models(ec.entry_any, 3000, 600000), nontrivial=ec.nontrivial_solve, prop_judge=plevel.judge_solve),
    Family("entries_structured", "solve", ec.structured, nontrivial=ec.nontrivial_solve, prop_judge=plevel.judge_solve),
]
