"""C01 — returned solutions satisfy every posted constraint (all entry points)."""
from ..core import Family
from .. import plevel
from . import engine_common as ec
PROPERTY_FILES = ["C01", "C01_Routes"]
TRUSTED_BASE = ec.TB
ASSUMPTIONS = ec.ASSUME
RULE = ("case = propagator-level model + entry point (enumerate / first solution / minimize / maximize of a view, iterating); every "
        "assignment the implementation yields must be in the brute-force solution set computed from the Coq `sat` over the declared "
        "domains, and the sequence must equal the extracted model's; non-trivial = at least one assignment yielded")
FAMILIES = [
    Family("entries_random", "solve", ec.gen_models(ec.entry_any, 12000, 600000), nontrivial=ec.nontrivial_solve, prop_judge=plevel.judge_solve),
    Family("entries_alldiff_wide", "solve", ec.gen_alldiff_wide(ec.entry_any, 2000, 60000), nontrivial=ec.nontrivial_solve, prop_judge=plevel.judge_solve),
    Family("entries_structured", "solve", ec.structured, nontrivial=ec.nontrivial_solve, prop_judge=plevel.judge_solve),
]

# Model-level posting routes (arithmetic/array/boolean/global/linear/reified API methods): structural and semantic
# families of vlib/props/routes.py; their known classes are recorded under C01/C02/C10/C17 in known_findings.txt
from . import routes as _routes
FAMILIES += _routes.FAMILIES
KNOWN_PIDS = _routes.KNOWN_PIDS
SHARED_CLASSES = _routes.SHARED_CLASSES
TRUSTED_BASE = TRUSTED_BASE + [t for t in _routes.TRUSTED_BASE if t not in TRUSTED_BASE]
ASSUMPTIONS = ASSUMPTIONS + [a for a in _routes.ASSUMPTIONS if a not in ASSUMPTIONS]

