"""C16 — solving is deterministic (same calls => same verdict, assignment and enumeration sequence, across processes)."""
import os, random, subprocess, sys
from ..core import Family, ROOT
from .. import core, plevel
from . import engine_common as ec

TRUSTED_BASE = [
    "Coq 8.16.1 kernel (coqc full .vo build)",
    "the executable model is a Gallina function of the declarations and postings: the modelled solving path is deterministic by construction; Properties/C16.v proves the order-independence of the computations selen performs by iterating hash containers (removal of a hash set of values, collect-then-sort, effect-free loop) and that scheduling cannot change results (C14)",
    "PARTIAL: that no OTHER order source reaches a result is not proved: it rests on the reviewed inventory hash_inventory.txt of HashMap/HashSet iteration sites (tools/hash_sites.py re-scans the source on every run; an unlisted site breaks the check) and on the two-process differential below",
    "tie: every case is run in two fresh OS processes (different RandomState keys); both outputs must be identical to each other and to the extracted model's; Rust harness (plevel, mlevel, gac, limits sub-commands), OCaml driver",
]
ASSUMPTIONS = ["no time limit interferes (limits are scripted or absent in these runs)",
               "the sparse-set all-different engine (known finding C19 sparse_hash_order) is not reachable from Model solving and is excluded here"]
RULE = ("case = propagator-level or Model-level model + entry point (solve/enumerate/minimize/maximize), all-different engine histories "
        "(bit-set, hybrid), limit scripts; each run twice in separate processes; outputs compared line by line with each other and with the "
        "model; plus the hash-iteration inventory comparison; non-trivial = at least one solution / a verdict decided by search")

def inventory_break():
    rc, out = core.sh([sys.executable, os.path.join(ROOT, "tools", "hash_sites.py")], timeout=120)
    if rc != 0: return "hash_sites.py failed: " + out[-300:]
    known = set()
    for l in open(os.path.join(ROOT, "hash_inventory.txt")):
        if l.startswith("#") or not l.strip(): continue
        known.add(l.split("\t")[0])
    new = [s for s in out.splitlines() if s.strip() and s not in known]
    return ("hash-container iteration sites not in the reviewed inventory: %s" % new) if new else None

class TwoProc:
    """prejudge hook: run the same cases in a second, fresh set of processes and remember those outputs"""
    def __init__(self, fam): self.fam = fam; self.second = {}
    def __call__(self, cases, impl, model):
        # second run: fresh processes AND another history inside each process (the case list is fed in reverse order), so that
        # state surviving from one solve to the next in the same process/thread (a static counter, a thread_local, a cache
        # that is not reset) shows as a difference too (seeded change C16d: thread-local pricing counter in the simplex)
        rev = cases[::-1]
        again = core.run_lines(core.harness_exe(), self.fam.sub, rev, shards=max(2, core.NPROC // 2), env=self.fam.env)
        self.second = dict(zip(rev, again))

def mk_family(name, sub, gen, judge_fn=None, split=None):
    fam = Family(name, sub, gen, split=split, nontrivial=lambda c, i: ("sols -" not in i), prop_judge=None)
    tp = TwoProc(fam)
    fam.prejudge = tp
    def judge(case, impl, spec):
        other = fam.normal(tp.second.get(case, "MISSING"))
        if any(("Timeout" in o or o in ("TIMEOUT", "HANG") or o.startswith("CRASH")) for o in (impl, other)):
            return None          # "as long as no time limit interferes": a run cut by its limit, by the watchdog or by the harness's address-space cap (CRASH: the allocator's message differs from run to run) is not compared
        if other != impl:
            return "two processes disagree: %r vs %r" % (impl[:200], other[:200])
        return judge_fn(case, impl, spec) if judge_fn else None
    fam.prop_judge = judge
    if split is split_noccorr: fam.no_model = True       # process-to-process equality only: the model's output is not used
    return fam

def gen_solve(tier, rng):
    return ec.gen_models(ec.entry_any, 2500, 60000, sched_frac=0.2)(tier, rng) + ec.structured(tier, rng)

def gen_msolve(tier, rng):
    from . import c10
    cases = []
    for f in c10.FAMILIES:
        if f.sub == "msolve":
            cs = f.gen(tier, random.Random(rng.random()))
            cases += cs[:: max(1, len(cs) // (3000 if tier == "quick" else 60000))]
    return cases

def gen_prod(tier, rng):
    """Model-level optimisation in the PRODUCTION configuration (root LP step and fast path on), models with
    several linear rows over shared variables and tied optima: this is where an order source can leak into the
    returned assignment (added after seeded change C16_linear_hashmap_order was only seen by the inventory scan)"""
    n = 1500 if tier == "quick" else 40000
    cases = []
    for _ in range(n):
        nv = rng.randint(2, 4)
        doms = "|".join("0..%d" % rng.randint(2, 10) for _ in range(nv))
        posts = []
        for _ in range(rng.randint(1, 3)):
            vs = rng.sample(range(nv), rng.randint(2, nv))
            half = max(1, len(vs) // 2)
            l = "x%d" % vs[0]
            for v in vs[1:half]: l = "add(%s,x%d)" % (l, v)
            r = "x%d" % vs[half] if half < len(vs) else str(rng.randint(0, 9))
            for v in vs[half + 1:]: r = "add(%s,x%d)" % (r, v)
            if rng.random() < 0.5: r = "add(%s,%d)" % (r, rng.randint(0, 6))
            posts.append("new %s(%s,%s)" % (rng.choice(["le", "ge", "eq", "le"]), l, r))
        obj = rng.randrange(nv)
        cases.append(" ; ".join([doms] + posts + ["%s x%d" % (rng.choice(["min", "max"]), obj), "prod"]))
    return cases

def gen_gac(tier, rng):
    from . import c19
    cases = []
    for f in c19.FAMILIES:
        if f.sub == "gac":
            cs = [c for c in f.gen(tier, random.Random(rng.random())) if not c.startswith("sparse") and not c.startswith("all")]
            cases += cs[:: max(1, len(cs) // (3000 if tier == "quick" else 60000))]
    return cases

def gen_propf(tier, rng):
    """float/mixed propagation to fixpoint (bit-exact families of C06): rows over several variables change two or more
    variables in one prune call, and the float setters round to the step grid, so the ORDER in which dependants are woken can
    change the fixpoint itself (seeded change C16c: events drained through a HashSet)"""
    from . import c06
    f = [x for x in c06.FAMILIES if x.name == "fprop_exact"][0]
    cs = f.gen(tier, random.Random(rng.random()))
    return cs[: (1500 if tier == "quick" else 12000)]
def gen_searchf(tier, rng):
    from . import c06
    f = [x for x in c06.FAMILIES if x.name == "fsearch_exact"][0]
    cs = f.gen(tier, random.Random(rng.random()))
    return cs[: (100 if tier == "quick" else 800)]
def gen_solvef(tier, rng):
    from . import c06
    f = [x for x in c06.FAMILIES if x.name == "fsolve_random"][0]
    cs = f.gen(tier, random.Random(rng.random()))
    return cs[: (300 if tier == "quick" else 3000)]

def gen_float_order(tier, rng):
    """float models whose fixpoint depends on the ORDER in which the dependants of one prune call are woken: an equality that
    fixes two variables at once (x + y = max_x + max_y) and two rows z >= x + a, z >= y + b posted before it, with a and b less
    than a step apart on either side of a grid point: whichever row runs first sets z.min, the other one's change is inside
    the setters' half-step tolerance.  The result must still be the same in every process (seeded change C16c drained the
    changed variables through a HashSet and was only seen by the inventory scan)."""
    from ..fmodel import hq
    from fractions import Fraction
    cases = []
    for _ in range(150 if tier == "quick" else 3000):
        prec = rng.choice([3, 4, 6, 6])
        step = Fraction(1, 10 ** prec)
        hx, hy = rng.randint(3, 12), rng.randint(3, 12)
        c = Fraction(rng.randint(1, 30), 10)
        eps = step * Fraction(rng.choice([30, 35, 40, 45]), 100)
        a, b = (c - eps, c + eps) if rng.random() < 0.5 else (c + eps, c - eps)
        rows = ["lin le 3ff0000000000000,bff0000000000000 x0,x2 %s" % hq(-a), "lin le 3ff0000000000000,bff0000000000000 x1,x2 %s" % hq(-b)]
        if rng.random() < 0.5: rows.reverse()
        eq = "lin eq 3ff0000000000000,3ff0000000000000 x0,x1 %s" % hq(Fraction(hx + hy))
        decl = "F %s %s|F %s %s|F %s %s" % (hq(0), hq(hx), hq(0), hq(hy), hq(2), hq(100))
        cases.append(" ; ".join([str(prec), decl] + rows + [eq, "solve", "to 2000"]))
    return cases

def gen_limits(tier, rng):
    from . import c15
    return c15.gen("quick", rng)[: (1500 if tier == "quick" else 3000)]

def split_first(model_line):
    m, s, cls = core.default_split(model_line)
    return m, "determinism", None
def split_noccorr(model_line):
    # Model-level cases: the model/implementation correspondence is C10's subject (it needs that check's
    # normalisation hooks); here only process-to-process equality is judged
    return None, "determinism", None

FAMILIES = [
    mk_family("two_process_solve", "solve", gen_solve, None, split=split_first),
    mk_family("two_process_msolve", "msolve", gen_msolve, None, split=split_noccorr),
    mk_family("two_process_production_optimise", "msolve", gen_prod, None, split=split_noccorr),
    mk_family("two_process_gac", "gac", gen_gac, None, split=split_first),
    mk_family("two_process_limits", "limits", gen_limits, None, split=split_first),
    mk_family("two_process_float_propagation", "propf", gen_propf, None, split=split_noccorr),
    mk_family("two_process_float_search", "searchf", gen_searchf, None, split=split_noccorr),
    mk_family("two_process_float_solve", "solvef", gen_solvef, None, split=split_noccorr),
    mk_family("two_process_float_order_sensitive", "solvef", gen_float_order, None, split=split_noccorr),
]
# known classes of the borrowed families do not concern determinism: a case inside one still has to be
# identical across processes and equal to the model
