"""C10 — fluent expressions and combinators mean what their arithmetic reading means (integer fragment)."""
import itertools, random
from ..core import Family

TRUSTED_BASE = [
    "Coq 8.16.1 kernel (coqc full .vo build)",
    "hand-written model coq/Model/Api.v + coq/Model/Lower.v of runtime_api/mod.rs (ExprBuilder methods, post_constraint_kind, "
    "try_convert_to_linear_ast, try_extract_linear_form, materialize_constraint_kind, reify_constraint_kind, get_expr_var, post_expression_constraint), "
    "model/core.rs (prepare_for_search), model/factory.rs, constraints/api/arithmetic.rs (add/sub/mul on variables), "
    "constraints/functions.rs (lin_eq/lin_le/lin_ne), core/validation.rs (reachable branches): modelled, not verified; tied by this "
    "run's STRUCTURAL differential (final domains of every variable incl. auxiliaries + the propagator list in PropId order, "
    "normalised Debug text == model dump) through hook H2 Model::verif_lower",
    "semantic tie: Model::enumerate / solve / minimize / maximize through the public API, projected on the program's variable "
    "handles; compared with (i) the set predicted by the Coq characterisation `impl_cons` of what the lowering enforces (exact, "
    "known classes included) and (ii) the brute force of the Coq `eval_cons` over the declared domains (the property)",
    "the lemmas lower_denotes / lower_denotes_exact are about `psat` of the propagator descriptions; that each propagator's pruning "
    "enforces its `sat` is C05's subject (Forall good premise of fluent_model_solutions)",
    "root LP step and optimisation fast path switched off in the semantic runs (hook H5): not part of this model (D8, D10)",
    "extraction: ExtrOcamlBasic only, no Extract Constant; OCaml driver ocaml/mlevel_cmd.ml; Rust harness harness/src/mlevel.rs "
    "(incl. the normaliser of the Debug text)",
    "i32 modelled as unbounded Z; integer fragment only: trees containing `/` create float variables and are excluded; float operands not covered",
]
ASSUMPTIONS = [
    "vocabulary: int/intset/bool variables, integer constants, + - * mod, six comparisons, and/or/not, the helpers and_all/or_all/all_of/any_of over a Vec<Constraint>, lin_eq/lin_le/lin_ne, Model::add/sub/mul on variables",
    "known classes (known_findings.txt): mod_rejected (divisor bounds containing 0), lin_zero_coeffs, modulo_prop; "
    "or_not (Or / Not now lowered through reification), aux_bounds, empty_domain_panic and nested_ne are repaired (fixed: entries)",
    "in-range condition of lower_denotes / spellings_agree (doms_nonempty on the lowered store): no auxiliary variable's computed range "
    "has more than MAX_SPARSE_SET_DOMAIN_SIZE values (the validator answers InvalidDomain; the model represents such a variable by the "
    "empty domain without materialising it; cases outside it are classed oversize_domain, the open finding filed under C02); the "
    "generators keep computed ranges below 10^5 values or well above the limit (2*10^6..10^8), and intermediate bounds inside i32",
    "no time or memory limit fires (C15)",
]
RULE = ("lower: case = declarations + postings through the real public API; the normalised dump of Model::verif_lower must equal the "
        "extracted model's dump. msolve: enumerate's solution set projected on the user's variables must equal the model's predicted "
        "set and, outside the known classes, the brute-force eval_cons set; solve/minimize/maximize return a member / an optimal "
        "member of that set. mspell: every spelling of one relation gives the same set. Exhaustive over trees of depth <= 2 over two "
        "variables with constants in -2..3 (thorough: all; quick: every tree with one compound side), then seeded random programs "
        "to expression depth 4; non-trivial = the lowered model has a propagator / the solution set is a proper non-empty subset")

# the open class oversize_domain (a computed range wider than MAX_SPARSE_SET_DOMAIN_SIZE is rejected by validation) is filed
# under C02; the fluent API's auxiliary variables reach it too (outside the in-range condition of lower_denotes)
KNOWN_PIDS = ["C10", "C02"]
SHARED_CLASSES = ("oversize_domain",)

OPS = ["add", "sub", "mul", "mod"]
CMPS = ["eq", "ne", "lt", "le", "gt", "ge"]
CONSTS = [-2, -1, 0, 1, 2, 3]

# ---------------------------------------------------------------- judges
def parse_set(s):
    s = s.strip()
    dup = s.endswith(" dup")
    if dup: s = s[:-4].strip()
    if not s.startswith("sols"): return None, dup
    body = s[4:].strip()
    if body == "-": return set(), dup
    if body == "": return {()}, dup              # a model without variables: the one (empty) assignment
    return set(tuple(int(x) for x in t.split(",") if x != "") for t in body.split(" ")), dup

def parse_spec(spec):
    body = spec[len("all "):] if spec.startswith("all ") else spec
    objs = None
    if " obj " in body:
        body, o = body.split(" obj ")
        objs = [] if o.strip() == "-" else [int(x) for x in o.split(" ")]
    body = body.strip()
    sols = [] if body == "-" else [()] if body == "" else [tuple(int(x) for x in t.split(",") if x != "") for t in body.split(" ")]
    return sols, objs

def entry_of(case):
    for p in case.split(";"):
        t = p.strip().split()
        if t and t[0] in ("enum", "first", "min", "max"): return t
    return ["enum"]

def judge_msolve(case, impl, spec):
    if impl.startswith(("PANIC", "CRASH", "HANG")):
        return "implementation panicked: " + impl
    sols, objs = parse_spec(spec)
    allset = set(sols)
    e = entry_of(case)
    if e[0] == "enum":
        got, dup = parse_set(impl)
        if got is None: return "unexpected implementation output: " + impl
        if dup: return "the same assignment was yielded twice"
        bad = got - allset
        if bad: return "yielded assignment %s does not satisfy the expression tree" % (sorted(bad)[0],)
        miss = allset - got
        if miss: return "assignment %s satisfies the tree but is not yielded (%d missing)" % (sorted(miss)[0], len(miss))
        return None
    if impl.startswith("err "):
        return None if not allset else "%s although the tree has %d satisfying assignments" % (impl, len(allset))
    if not impl.startswith("one "): return "unexpected implementation output: " + impl
    t = tuple(int(x) for x in impl[4:].split(",") if x.strip() != "")
    if t not in allset: return "returned assignment %s does not satisfy the expression tree" % (t,)
    if e[0] in ("min", "max"):
        i = int(e[1].lstrip("x"))
        best = min(objs) if e[0] == "min" else max(objs)
        if t[i] != best: return "objective %d returned, optimum is %d" % (t[i], best)
    return None

def corr_msolve(case, impl, mpart):
    return mpart is None or mpart.strip() == "-" or impl == mpart

def judge_mspell(case, impl, spec):
    if impl.startswith(("PANIC", "CRASH", "HANG")):
        return "implementation panicked: " + impl
    sols, _ = parse_spec(spec)
    allset = set(sols)
    alts = impl.split(" / ")
    sets = []
    for a in alts:
        g, dup = parse_set(a)
        if g is None: return "unexpected implementation output: " + a
        if dup: return "the same assignment was yielded twice"
        sets.append(g)
    for i, g in enumerate(sets):
        if g != sets[0]:
            return "spelling %d yields %d assignments, spelling 0 yields %d (e.g. %s)" % (i, len(g), len(sets[0]), sorted(g ^ sets[0])[0])
    if sets[0] != allset:
        return "all spellings agree but differ from the arithmetic reading (e.g. %s)" % (sorted(sets[0] ^ allset)[0],)
    return None

def corr_mspell(case, impl, mpart):
    if mpart is None: return True
    a, b = impl.split(" / "), mpart.split(" / ")
    return len(a) == len(b) and all(y.strip() == "-" or x == y for x, y in zip(a, b))

def nontrivial_lower(case, impl):
    return impl.startswith("ok ") and not impl.endswith("; -") or impl.startswith("err")

def nontrivial_msolve(case, impl):
    return impl not in ("sols -",) and not impl.startswith("err")

# ---------------------------------------------------------------- exhaustive trees
def leaves(nv=2, consts=CONSTS):
    return ["x%d" % i for i in range(nv)] + [str(c) for c in consts]

def exprs_d1(nv=2, consts=CONSTS, ops=OPS):
    lv = leaves(nv, consts)
    return lv, ["%s(%s,%s)" % (o, a, b) for o in ops for a in lv for b in lv]

DOMS2 = ["-2..3|-1..2", "0..3|1,3", "1..4|-3,-1,2"]

def gen_lower_exhaustive(tier, rng):
    lv, d1 = exprs_d1()
    cases = []
    doms = DOMS2[:1] if tier == "quick" else DOMS2
    pairs = [(a, b) for a in d1 for b in lv] + [(a, b) for a in lv for b in d1] + [(a, b) for a in lv for b in lv]
    if tier != "quick":
        pairs += [(a, b) for a in d1 for b in d1]
    else:
        pairs += rng.sample([(a, b) for a in d1 for b in d1], 6000)
    for a, b in pairs:
        for c in CMPS:
            for d in doms:
                cases.append("%s ; new %s(%s,%s)" % (d, c, a, b))
    # depth-2 expressions on one side
    lv3, _ = exprs_d1(2, [-1, 2])
    d1s = ["%s(%s,%s)" % (o, a, b) for o in OPS for a in lv3 for b in lv3]
    d2 = ["%s(%s,%s)" % (o, a, b) for o in OPS for a in d1s for b in lv3] + ["%s(%s,%s)" % (o, b, a) for o in OPS for a in d1s for b in lv3]
    if tier == "quick": d2 = rng.sample(d2, 1500)
    for e in d2:
        for c in (CMPS if tier != "quick" else rng.sample(CMPS, 2)):
            cases.append("%s ; new %s(%s,%s)" % (doms[0], c, e, rng.choice(lv)))
    return cases

ATOMS = ["le(x0,1)", "ge(x0,2)", "eq(x0,1)", "eq(x0,3)", "eq(2,x1)", "eq(x1,1)", "ne(x0,1)", "ne(x0,x1)", "lt(x0,x1)", "eq(x0,x1)",
         "le(add(x0,x1),2)", "gt(mul(x0,x1),1)", "ne(add(x0,1),x1)", "eq(sub(x0,x1),1)", "ge(mul(x0,2),x1)", "eq(mod(x0,x1),1)"]

def combos(atoms, depth):
    if depth == 0: return list(atoms)
    sub = combos(atoms, depth - 1)
    out = list(sub)
    out += ["not(%s)" % a for a in sub]
    out += ["%s(%s,%s)" % (k, a, b) for k in ("and", "or") for a in sub for b in atoms]
    out += ["%s(%s,%s)" % (k, b, a) for k in ("and", "or") for a in sub for b in atoms if a not in atoms]
    return out

def nary_combos(tier, rng):
    """and_all / or_all / all_of / any_of over 0..3 members (0: the helper returns None and nothing is posted), also nested"""
    out = []
    for k in NARY:
        out.append("%s()" % k)
        out += ["%s(%s)" % (k, a) for a in ATOMS]
        pairs = [(a, b) for a in ATOMS for b in ATOMS]
        trip = [(a, b, c) for a in ATOMS[:10] for b in ATOMS[:10] for c in ATOMS[:10]]
        if tier == "quick":
            pairs = rng.sample(pairs, 120); trip = rng.sample(trip, 150)
        out += ["%s(%s,%s)" % (k, a, b) for a, b in pairs]
        out += ["%s(%s,%s,%s)" % (k, a, b, c) for a, b, c in trip]
        out += ["%s(%s,%s(%s,%s))" % (k, a, k2, b, c) for k2 in NARY for a, b, c in rng.sample(trip, 12)]
        out += ["and(%s(%s,%s),%s)" % (k, a, b, c) for a, b, c in rng.sample(trip, 12)] + ["not(%s(%s,%s,%s))" % (k, a, b, c) for a, b, c in rng.sample(trip, 6)]
    return out

def gen_comb_exhaustive(tier, rng):
    cs = combos(ATOMS, 1)
    c2 = combos(ATOMS[:8], 2)
    if tier == "quick": c2 = rng.sample(c2, min(len(c2), 2500))
    return ["0..3|1..3 ; new %s" % c for c in cs + c2 + nary_combos(tier, rng)]

def to_msolve(gen, quick_n, entries=("enum",)):
    def g(tier, rng):
        cases = gen(tier, rng)
        if tier == "quick" and len(cases) > quick_n:
            cases = rng.sample(cases, quick_n)
        return [c + " ; " + rng.choice(entries) for c in cases]
    return g

# ---------------------------------------------------------------- random programs
def rand_dom(rng, lo=-4, hi=5):
    r = rng.random()
    if r < 0.1: return "b"
    if r < 0.2:
        v = rng.randint(lo, hi); return "%d..%d" % (v, v)
    if r < 0.7:
        a = rng.randint(lo, hi - 1); b = min(hi, a + rng.randint(1, 5)); return "%d..%d" % (a, b)
    k = rng.randint(1, 4)
    return ",".join(map(str, sorted(set(rng.randint(lo, hi) for _ in range(k)))))

def dom_values(d):
    d = d.strip()
    if d == "b": return [0, 1]
    if ".." in d:
        a, b = d.split(".."); return list(range(int(a), int(b) + 1))
    try: return [int(x) for x in d.split(",")]
    except ValueError: return None

def dom_size(d):
    if d == "b": return 2
    if ".." in d:
        a, b = d.split(".."); return int(b) - int(a) + 1
    return len(d.split(","))

def rand_expr(rng, nv, depth, modw=0.12, big=False):
    if depth == 0 or rng.random() < 0.3:
        if rng.random() < 0.65: return "x%d" % rng.randrange(nv)
        if big and rng.random() < 0.3: return str(rng.choice([-1500, 999, 1000, 1001, 400, 37]))
        return str(rng.choice([-3, -2, -1, 0, 1, 1, 2, 3, 5]))
    r = rng.random()
    op = "mod" if r < modw else rng.choice(["add", "sub", "mul", "add", "sub"])
    return "%s(%s,%s)" % (op, rand_expr(rng, nv, depth - 1, modw, big), rand_expr(rng, nv, depth - 1, modw, big))

NARY = ("andall", "orall", "allof", "anyof")

def rand_cons(rng, nv, edepth, cdepth, logic=0.25, **kw):
    if cdepth > 0 and rng.random() < logic:
        k = rng.choice(["and", "and", "or", "not", "andall", "orall", "allof", "anyof"])
        if k in NARY:
            # the helpers over a Vec<Constraint>: and_all / or_all / all_of / any_of, 1..3 members (0 members: None, top level only)
            n = rng.choice([1, 2, 2, 3, 3])
            if k in ("orall", "anyof") and n == 2 and rng.random() < 0.4:
                v = rng.randrange(nv)
                return "%s(eq(x%d,%d),eq(x%d,%d))" % (k, v, rng.randint(-3, 4), v, rng.randint(-3, 4))
            return "%s(%s)" % (k, ",".join(rand_cons(rng, nv, edepth, cdepth - 1, logic, **kw) for _ in range(n)))
        if k == "not": return "not(%s)" % rand_cons(rng, nv, edepth, cdepth - 1, logic, **kw)
        if k == "or" and rng.random() < 0.4:
            v = rng.randrange(nv)
            return "or(eq(x%d,%d),eq(x%d,%d))" % (v, rng.randint(-3, 4), v if rng.random() < 0.8 else rng.randrange(nv), rng.randint(-3, 4))
        return "%s(%s,%s)" % (k, rand_cons(rng, nv, edepth, cdepth - 1, logic, **kw), rand_cons(rng, nv, edepth, cdepth - 1, logic, **kw))
    return "%s(%s,%s)" % (rng.choice(CMPS), rand_expr(rng, nv, rng.randint(0, edepth), **kw), rand_expr(rng, nv, rng.randint(0, edepth), **kw))

# ---- computed ranges of the auxiliary variables (interval arithmetic of runtime_api::expr_bounds on the declared
# domains), used only to steer the generator: the extracted model keeps domains as lists of inductive integers, so
# a materialised auxiliary domain must stay small (< AUX_SMALL values); far above the size limit the model does not
# materialise it (Model/Lower.v aux_dom) and the case exercises the InvalidDomain path (not too far above: the
# implementation allocates the whole range before the validator rejects it); bounds stay inside i32
AUX_SMALL = 10 ** 5
AUX_HUGE = (2 * 10 ** 6, 10 ** 8)
I32_LIM = 2 ** 31 - 2

def _split_top(s):
    out, depth, start = [], 0, 0
    for i, ch in enumerate(s):
        if ch == "(": depth += 1
        elif ch == ")": depth -= 1
        elif ch == "," and depth == 0:
            out.append(s[start:i]); start = i + 1
    out.append(s[start:])
    return out

def _ival(s, env, widths):
    """interval of the expression text s over env = [(lo, hi)] per variable; appends (lo, hi) of every compound node"""
    s = s.strip()
    if s.startswith("x") and s[1:].isdigit():
        i = int(s[1:]); return env[i] if i < len(env) else (0, 0)
    if "(" not in s: return (int(s), int(s))
    h = s[:s.index("(")]
    a, b = _split_top(s[s.index("(") + 1:-1])
    (ll, lh), (rl, rh) = _ival(a, env, widths), _ival(b, env, widths)
    if h == "add": r = (ll + rl, lh + rh)
    elif h == "sub": r = (ll - rh, lh - rl)
    elif h == "mul":
        ps = [ll * rl, ll * rh, lh * rl, lh * rh]; r = (min(ps), max(ps))
    else:
        m = max(max(abs(rl), abs(rh)) - 1, 0)
        r = (0 if ll >= 0 else max(ll, -m), 0 if lh <= 0 else min(lh, m))
    widths.append(r)
    return r

def _cons_ranges(s, env, widths):
    s = s.strip()
    h = s[:s.index("(")]
    args = _split_top(s[s.index("(") + 1:-1])
    if h in ("and", "or", "not") + NARY:
        for a in args:
            if a.strip(): _cons_ranges(a, env, widths)
    else:
        for a in args: _ival(a, env, widths)

def dom_bounds(d):
    if d == "b": return (0, 1)
    if ".." in d:
        a, b = d.split(".."); return (int(a), int(b))
    vs = [int(x) for x in d.split(",")]
    return (min(vs), max(vs))

def aux_ok(env, cons_text):
    """every computed range of the tree is small or far above the size limit, and inside i32"""
    ws = []
    _cons_ranges(cons_text, env, ws)
    for lo, hi in ws:
        if abs(lo) > I32_LIM or abs(hi) > I32_LIM: return False
        w = hi - lo + 1
        if w > AUX_SMALL and not (AUX_HUGE[0] < w <= AUX_HUGE[1]): return False
    return True

def api_bounds(f, a, b):
    if f == "add": return (a[0] + b[0], a[1] + b[1])
    if f == "sub": return (a[0] - b[1], a[1] - b[0])
    ps = [a[0] * b[0], a[0] * b[1], a[1] * b[0], a[1] * b[1]]
    return (min(ps), max(ps))

def rand_program(rng, edepth=4, api=True, logic=0.25, maxprod=3000, **kw):
    while True:
        nv = rng.randint(1, 3)
        doms = [rand_dom(rng) for _ in range(nv)]
        prod = 1
        for d in doms: prod *= dom_size(d)
        if prod <= maxprod: break
    posts = []
    n = nv
    env = [dom_bounds(d) for d in doms]
    if api and rng.random() < 0.2:
        for _ in range(rng.randint(1, 2)):
            f, x, y = rng.choice(["add", "sub", "mul"]), rng.randrange(n), rng.randrange(n)
            posts.append("api %s x%d x%d" % (f, x, y))
            env.append(api_bounds(f, env[x], env[y]))
            n += 1
    for _ in range(rng.randint(1, 3)):
        r = rng.random()
        if r < 0.2:
            m = rng.randint(1, 3)
            posts.append("lin %s %s %s %d" % (rng.choice(["eq", "le", "ne"]), ",".join(str(rng.choice([-3, -2, -1, 0, 1, 2, 3])) for _ in range(m)),
                                             ",".join("x%d" % rng.randrange(n) for _ in range(m)), rng.randint(-6, 8)))
        else:
            for attempt in range(50):
                c = rand_cons(rng, n, edepth, 2, logic, **kw) if attempt < 49 else "le(x0,1)"
                if aux_ok(env, c): break
            posts.append("new " + c)
    return " ; ".join(["|".join(doms)] + posts)

def gen_lower_random(tier, rng):
    n = 30000 if tier == "quick" else 150000
    out = []
    for i in range(n):
        out.append(rand_program(rng, edepth=rng.choice([1, 2, 3, 4]), big=(i % 7 == 0)))
    return out

def gen_msolve_random(tier, rng):
    n = 15000 if tier == "quick" else 60000
    out = []
    for i in range(n):
        p = rand_program(rng, edepth=rng.choice([1, 2, 2, 3, 4]), logic=0.2, maxprod=600, modw=0.06, big=(i % 11 == 0))
        nv = len(p.split(";")[0].split("|"))
        r = rng.random()
        e = "enum" if r < 0.6 else "first" if r < 0.75 else "%s x%d" % (rng.choice(["min", "max"]), rng.randrange(nv))
        out.append(p + " ; " + e)
    return out

# ---------------------------------------------------------------- equivalent spellings
def gen_spellings(tier, rng):
    cases = []
    n = 1500 if tier == "quick" else 6000
    for _ in range(n):
        nv = 3
        doms = "|".join(rand_dom(rng, -3, 4).replace("b", "0..1") for _ in range(nv))
        op = rng.choice(["eq", "le", "ne", "lt", "ge", "gt"])
        a, b, c = (rng.choice([-2, -1, 1, 1, 2, 3]) for _ in range(3))
        k = rng.randint(-4, 6)
        term = lambda co, v: v if co == 1 and rng.random() < 0.5 else ("mul(%s,%d)" % (v, co) if rng.random() < 0.5 else "mul(%d,%s)" % (co, v))
        # a*x0 + b*x1 (op) c*x2 + k
        s1 = "new %s(add(%s,%s),add(%s,%d))" % (op, term(a, "x0"), term(b, "x1"), term(c, "x2"), k)
        s2 = "new %s(sub(add(%s,%s),%s),%d)" % (op, term(a, "x0"), term(b, "x1"), term(c, "x2"), k)
        s3 = "new %s(%s,sub(add(%s,%d),%s))" % (op, term(a, "x0"), term(c, "x2"), k, term(b, "x1"))
        flip = {"eq": "eq", "ne": "ne", "le": "ge", "lt": "gt", "ge": "le", "gt": "lt"}[op]
        s4 = "new %s(add(%s,%d),add(%s,%s))" % (flip, term(c, "x2"), k, term(b, "x1"), term(a, "x0"))
        alts = [s1, s2, s3, s4]
        # lin_* spelling and the props-level one
        if op in ("eq", "le", "ne"):
            alts.append("lin %s %d,%d,%d x0,x1,x2 %d" % (op, a, b, -c, k))
            alts.append("P: lin%s %d,%d,%d x0,x1,x2 %d" % (op, a, b, -c, k))
        elif op == "lt":
            alts.append("lin le %d,%d,%d x0,x1,x2 %d" % (a, b, -c, k - 1))
        elif op == "ge":
            alts.append("lin le %d,%d,%d x0,x1,x2 %d" % (-a, -b, c, -k))
        else:
            alts.append("lin le %d,%d,%d x0,x1,x2 %d" % (-a, -b, c, -k - 1))
        cases.append(doms + " ; " + " ;; ".join(alts))
    # simple binary relations: fluent / lin / props-level / api
    for _ in range(n // 2):
        doms = "|".join(rand_dom(rng, -3, 4).replace("b", "0..1") for _ in range(3))
        cases.append(doms + " ; new le(add(x0,x1),x2) ;; lin le 1,1,-1 x0,x1,x2 0 ;; new ge(x2,add(x0,x1)) ;; new le(sub(add(x0,x1),x2),0) ;; P: linle 1,1,-1 x0,x1,x2 0")
        cases.append(doms + " ; new eq(add(x0,x1),x2) ;; lin eq 1,1,-1 x0,x1,x2 0 ;; new eq(x2,add(x1,x0)) ;; new eq(sub(x2,x1),x0) ;; P: add x0 x1 x2 ;; P: lineq 1,1,-1 x0,x1,x2 0")
        cases.append(doms + " ; new lt(x0,x1) ;; new gt(x1,x0) ;; new le(add(x0,1),x1) ;; lin le 1,-1 x0,x1 -1 ;; P: lt x0 x1 ;; new and(le(x0,x1),lt(x0,x1))")
        c = rng.randint(-3, 4)
        cases.append(doms + " ; new eq(x0,%d) ;; new eq(%d,x0) ;; lin eq 1 x0 %d ;; new eq(add(x0,0),%d) ;; new and(le(x0,%d),ge(x0,%d)) ;; P: eq x0 c:%d" % (c, c, c, c, c, c, c))
        cases.append(doms + " ; new eq(x0,x1) ;; new eq(sub(x0,x1),0) ;; lin eq 1,-1 x0,x1 0 ;; new and(le(x0,x1),ge(x0,x1)) ;; P: eq x0 x1 ;; new andall(le(x0,x1),ge(x0,x1)) ;; new allof(le(x0,x1),ge(x0,x1),eq(x1,x0))")
        cases.append(doms + " ; new and(and(le(x0,x1),lt(x1,x2)),ne(x0,%d)) ;; new andall(le(x0,x1),lt(x1,x2),ne(x0,%d)) ;; new allof(le(x0,x1),allof(lt(x1,x2)),ne(x0,%d)) ;; new le(x0,x1) ; new lt(x1,x2) ; new ne(x0,%d)" % (c, c, c, c))
        cases.append(doms + " ; new or(eq(x0,%d),eq(x0,1)) ;; new orall(eq(x0,%d),eq(x0,1)) ;; new anyof(eq(x0,%d),eq(x0,1))" % (c, c, c))
    return cases

FAMILIES = [
    Family("lower_exhaustive", "lower", gen_lower_exhaustive, nontrivial=nontrivial_lower, exhaustive=True),
    Family("lower_combinators", "lower", gen_comb_exhaustive, nontrivial=nontrivial_lower, exhaustive=True),
    Family("lower_random", "lower", gen_lower_random, nontrivial=nontrivial_lower),
    Family("msolve_exhaustive", "msolve", to_msolve(gen_lower_exhaustive, 40000), nontrivial=nontrivial_msolve, prop_judge=judge_msolve),
    Family("msolve_combinators", "msolve", to_msolve(gen_comb_exhaustive, 6000), nontrivial=nontrivial_msolve, prop_judge=judge_msolve),
    Family("msolve_random", "msolve", gen_msolve_random, nontrivial=nontrivial_msolve, prop_judge=judge_msolve),
    Family("spellings", "mspell", gen_spellings, nontrivial=lambda c, i: "sols -" not in i, prop_judge=judge_mspell),
]
def normal(s):
    return "PANIC" if s.startswith("PANIC") else s
for f in FAMILIES:
    f.normal = normal
    if f.sub == "msolve": f.corr = corr_msolve
    if f.sub == "mspell": f.corr = corr_mspell

# Scope (not a finding): property C17 lists "zero in a divisor's domain" among the DOCUMENTED invalid inputs that surface as an
# Err value; C02 speaks of well-formed models and C10's tree has no value where the divisor is 0.  A model whose divisor's bounds
# contain 0 and which ModelValidator rejects with InvalidConstraint (exactly what the Coq validation model predicts: classes
# mod_rejected / mod_zero_div) is therefore outside the scope of C01/C02/C10; any other answer on such a model is still judged.
def _documented_zero_divisor(case, impl):
    return impl.startswith("err InvalidConstraint") or impl in ("sols -", "sols") or impl.startswith("err Invalid")
for _f in FAMILIES:
    _f.scope_classes = {"mod_rejected": _documented_zero_divisor, "mod_zero_div": _documented_zero_divisor}
