"""C15 — time and memory limits yield explicit errors, never wrong answers."""
import random
from ..core import Family
from .. import plevel

PROPERTY_FILES = ["C15", "C03_Stack"]
TRUSTED_BASE = [
    "Coq 8.16.1 kernel (coqc full .vo build)",
    "hand-written model coq/Model/Limits.v of Engine::next's limit check, get_memory_usage_mb and the error mapping of Model::solve/minimize/enumerate_with_stats (search/mod.rs:430-672, model/core.rs) on top of the search model of C03 — modelled, not verified; tied by this run's differential under hook H4 (check-interval override + scripted clock), including the exact number of limit checks performed",
    "models are built through the public Model API (int/intset + lin_eq/lin_le/lin_ne) so the tie also covers their lowering; root LP step and fast path off (hook H5)",
    "extraction: ExtrOcamlBasic only, no Extract Constant; OCaml driver ocaml/limits_cmd.ml; Rust harness harness/src/limits.rs",
]
ASSUMPTIONS = [
    "PARTIAL: the real clock (Instant::elapsed) is replaced by an oracle on the index of the limit check; that elapsed() is monotone is assumed; the allocator is not modelled (the memory limit is selen's own estimate, which is modelled exactly)",
    "the consumer stops at the first None of the iterator (as solve/minimize/enumerate_with_stats do)",
]
RULE = ("case = small linear model + entry (solve/min/max/enumstats/enum) + check interval 1..7 + clock expiring at check k (k=1..14 or never) "
        "+ memory limit (none / 1 MB with deep stacks) + build-time memory overflow; output (verdict class, assignment, number of "
        "limit checks) compared exactly with the extracted model and judged against the brute-force solution set: Ok => correct "
        "(optimal for min/max), nosol => really unsatisfiable, sols => genuine and distinct, never a panic; non-trivial = a limit fired")

def judge(case, impl, spec):
    if impl.startswith("PANIC") or impl.startswith("CRASH") or impl.startswith("HANG"):
        return "implementation panicked: " + impl
    out = impl.rsplit(" checks=", 1)[0]
    if spec.strip() == "skip":      # search space too large for the brute-force oracle: correspondence only
        return None
    allsols = plevel.parse_sols(spec[len("all "):])
    allset = set(allsols)
    parts = [p.strip() for p in case.split(";")]
    entry = [p for p in parts if p.split()[0] in ("solve", "min", "max", "enumstats", "enum")]
    entry = entry[0].split() if entry else ["solve"]
    if out in ("timeout", "memory"):
        return None
    if out == "nosol":
        return None if not allset else "no-solution verdict for a satisfiable model"
    if out.startswith("ok "):
        a = tuple(int(x) for x in out[3:].split(","))
        if a not in allset: return "returned assignment %s violates a constraint" % (a,)
        if entry[0] in ("min", "max"):
            i = int(entry[1][1:])
            best = min(s[i] for s in allset) if entry[0] == "min" else max(s[i] for s in allset)
            if a[i] != best: return "Ok with objective %d but the optimum is %d" % (a[i], best)
        return None
    if out.startswith("sols "):
        sols = plevel.parse_sols(out[5:])
        if len(set(sols)) != len(sols): return "the same assignment yielded twice"
        for s in sols:
            if s not in allset: return "yielded assignment %s is not a solution" % (s,)
        return None
    return "unexpected output: " + impl

def gen(tier, rng):
    n = 3000 if tier == "quick" else 400000
    cases = []
    for _ in range(n):
        nv, doms, props = plevel.rand_model(rng, ["lineq", "linle", "linne"], maxvars=4, maxprops=3, maxprod=600)
        r = rng.random()
        entry = "solve" if r < 0.3 else "enumstats" if r < 0.5 else "enum" if r < 0.55 else "%s x%d" % (rng.choice(["min", "max"]), rng.randrange(nv))
        c = ["|".join(doms)] + props + [entry, "iv %d" % rng.randint(1, 7)]
        if rng.random() < 0.75: c.append("tfire %d" % rng.randint(1, 14))
        r = rng.random()
        if r < 0.08: c.append("buildmem")
        elif r < 0.3: c.append("mem 1")
        cases.append(" ; ".join(c))
    return cases

def gen_deep(tier, rng):
    """deep stacks: the engine's own memory estimate exceeds 1 MB at stack depth >= 512"""
    cases = []
    for nv in ([530] if tier == "quick" else [505, 512, 520, 600]):
        doms = "|".join(["0..1"] * nv)
        for entry in ["solve", "enumstats"]:
            for iv in [1, 3]:
                cases.append(" ; ".join([doms, "linle 1,1 x0,x1 2", entry, "iv %d" % iv, "mem 1"]))
    return cases

nontrivial = lambda case, impl: impl.startswith("timeout") or impl.startswith("memory") or ("tfire" in case and "checks=0" not in impl)
FAMILIES = [
    Family("scripted_limits", "limits", gen, nontrivial=nontrivial, prop_judge=judge),
    Family("deep_stack_memory", "limits", gen_deep, nontrivial=nontrivial, prop_judge=judge),
]
