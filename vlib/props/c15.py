"""C15 — time and memory limits yield explicit errors, never wrong answers."""
import random
from ..core import Family
from .. import plevel

PROPERTY_FILES = ["C15", "C03_Stack"]
TRUSTED_BASE = [
    "Coq 8.16.1 kernel (coqc full .vo build)",
    "hand-written model coq/Model/Limits.v of Engine::next's limit check, get_memory_usage_mb and the error mapping of Model::solve/minimize/enumerate_with_stats (search/mod.rs:430-672, model/core.rs) on top of the search model of C03 — modelled, not verified; tied by this run's differential under hook H4 (check-interval override + scripted clock), including the exact number of limit checks performed",
    "models are built through the public Model API (int/intset + lin_eq/lin_le/lin_ne) so the tie also covers their lowering; root LP step and fast path off (hook H5)",
    "extraction: ExtrOcamlBasic only, no Extract Constant; OCaml driver ocaml/limits_cmd.ml; Rust harness harness/src/limits.rs",
]
ASSUMPTIONS = [
    "PARTIAL: the real clock (Instant::elapsed) is replaced by an oracle on the index of the limit check; that elapsed() is monotone is assumed; the allocator is not modelled (the memory limit is selen's own estimate, which is modelled exactly)",
    "the consumer stops at the first None of the iterator (as solve/minimize/enumerate_with_stats do)",
]
RULE = ("case = small linear model + entry (solve/min/max/enumstats/enum) + check interval 1..7 + clock expiring at check k (k=1..14 or never) "
        "+ memory limit (none / 1 MB with deep stacks) + build-time memory overflow; output (verdict class, assignment, number of "
        "limit checks) compared exactly with the extracted model and judged against the brute-force solution set: Ok => correct "
        "(optimal for min/max), nosol => really unsatisfiable, sols => genuine and distinct, never a panic; non-trivial = a limit fired")

def witness_holds(case):
    parts = [p.strip() for p in case.split(";")]
    doms = parts[0].split("|")
    n = len(doms)
    if n < 4 or any(d.strip() != "0..2" for d in doms[-3:]) or any(d.strip() != "0..1" for d in doms[:-3]): return False
    a = [0] * n; a[0] = 1; a[-3:] = [0, 1, 2]
    for p in parts[1:]:
        t = p.split()
        if t[0] not in ("lineq", "linle", "linne"): continue
        cs = [int(x) for x in t[1].split(",")]; xs = [int(x[1:]) for x in t[2].split(",")]; k = int(t[3])
        v = sum(c * a[x] for c, x in zip(cs, xs))
        if (t[0] == "lineq" and v != k) or (t[0] == "linle" and v > k) or (t[0] == "linne" and v == k): return False
    return True

def judge(case, impl, spec):
    if impl.startswith("PANIC") or impl.startswith("CRASH") or impl.startswith("HANG"):
        return "implementation panicked: " + impl
    out = impl.rsplit(" checks=", 1)[0]
    if spec.strip() == "skip":      # search space too large for the brute-force oracle
        # the thrashing-below-a-deep-stack cases are satisfiable BY CONSTRUCTION: the witness x0 = 1, every other 0/1
        # variable 0, the last three variables 0,1,2 is checked here against every posted row (exact integer evaluation)
        if out == "nosol" and witness_holds(case):
            return "no-solution verdict for a satisfiable model (witness: x0 = 1, other 0/1 variables 0, last three 0,1,2)"
        return None
    allsols = plevel.parse_sols(spec[len("all "):])
    allset = set(allsols)
    parts = [p.strip() for p in case.split(";")]
    entry = [p for p in parts if p.split()[0] in ("solve", "min", "max", "enumstats", "enum")]
    entry = entry[0].split() if entry else ["solve"]
    if out in ("timeout", "memory"):
        return None
    if out == "nosol":
        return None if not allset else "no-solution verdict for a satisfiable model"
    if out.startswith("ok "):
        a = tuple(int(x) for x in out[3:].split(","))
        if a not in allset: return "returned assignment %s violates a constraint" % (a,)
        if entry[0] in ("min", "max"):
            i = int(entry[1][1:])
            best = min(s[i] for s in allset) if entry[0] == "min" else max(s[i] for s in allset)
            if a[i] != best: return "Ok with objective %d but the optimum is %d" % (a[i], best)
        return None
    if out.startswith("sols "):
        sols = plevel.parse_sols(out[5:])
        if len(set(sols)) != len(sols): return "the same assignment yielded twice"
        for s in sols:
            if s not in allset: return "yielded assignment %s is not a solution" % (s,)
        return None
    return "unexpected output: " + impl

def gen(tier, rng):
    n = 3000 if tier == "quick" else 400000
    cases = []
    for _ in range(n):
        nv, doms, props = plevel.rand_model(rng, ["lineq", "linle", "linne"], maxvars=4, maxprops=3, maxprod=600)
        r = rng.random()
        entry = "solve" if r < 0.3 else "enumstats" if r < 0.5 else "enum" if r < 0.55 else "%s x%d" % (rng.choice(["min", "max"]), rng.randrange(nv))
        c = ["|".join(doms)] + props + [entry, "iv %d" % rng.randint(1, 7)]
        if rng.random() < 0.75: c.append("tfire %d" % rng.randint(1, 14))
        r = rng.random()
        if r < 0.08: c.append("buildmem")
        elif r < 0.3: c.append("mem 1")
        cases.append(" ; ".join(c))
    return cases

def gen_deep(tier, rng):
    """deep stacks: the engine's own memory estimate exceeds 1 MB at stack depth >= 512"""
    cases = []
    for nv in ([530] if tier == "quick" else [505, 512, 520, 600]):
        doms = "|".join(["0..1"] * nv)
        for entry in ["solve", "enumstats"]:
            for iv in [1, 3]:
                cases.append(" ; ".join([doms, "linle 1,1 x0,x1 2", entry, "iv %d" % iv, "mem 1"]))
    # thrashing BELOW a deep stack: nv free 0/1 variables, then three variables 0..2, pairwise different, each <= 1 + x0:
    # satisfiable only with x0 = 1.  Depth-first search sets x0 = 0 first, stacks nv choice points, fails in the block and
    # pops: the periodic check then runs with > 512 frames on the stack and the in-search memory limit (1 MB) fires.
    # The answer must be MemoryLimit (or a correct result), never a no-solution verdict (seeded change C15c).
    for nv in ([520, 600] if tier == "quick" else [513, 520, 560, 600, 700]):
        doms = "|".join(["0..1"] * nv + ["0..2"] * 3)
        h = ["x%d" % (nv + i) for i in range(3)]
        posts = ["linne 1,-1 %s,%s 0" % (h[i], h[j]) for i in range(3) for j in range(i + 1, 3)] + ["linle 1,-1 %s,x0 1" % hi for hi in h]
        for entry in ["solve", "min %s" % h[0], "max x1", "enumstats"]:
            for iv in ([1, 7] if tier == "quick" else [1, 2, 7, 50]):
                cases.append(" ; ".join([doms] + posts + [entry, "iv %d" % iv, "mem 1"]))
    return cases

def gen_materialise(tier, rng):
    """the memory budget is crossed while prepare_for_search MATERIALISES pending constraints (auxiliary variables of fluent
    sub-expressions): 1 MB limit, N one-value filler variables (152 bytes each in the model's accounting) so that 0..400 bytes
    are left, two or three small variables and one fluent constraint that needs 1-2 auxiliary variables; satisfiable by
    construction.  Sub-command `api` (public API only).  The answer must be Ok or MemoryLimit, never a no-solution verdict
    (repaired defect a284062)."""
    cases = []
    budget = 1 << 20
    for _ in range(60 if tier == "quick" else 600):
        k = rng.choice([2, 3])
        small = 176                                  # int(0,3): 96 + 48 + 8*4
        left = rng.choice([0, 8, 31, 32, 100, 151, 152, 200, 223, 224, 225, 300, 400])
        n = (budget - k * small - left) // 152
        a, b = n, n + 1
        cons = rng.choice(["eq(mul(x%d,x%d),6)" % (a, b), "eq(add(mul(x%d,x%d),x%d),7)" % (a, b, a), "le(mul(x%d,2),add(x%d,3))" % (a, b),
                           "eq(sub(mul(x%d,x%d),1),5)" % (a, b), "ge(mul(x%d,x%d),4)" % (a, b)])
        entry = rng.choice(["solve", "solve", "minimize x%d" % a, "maximize x%d" % b, "enum"])
        cases.append(" ; ".join(["cfg mem 1", "ints %d 0 0" % n] + ["int 0 3"] * k + ["new " + cons, entry]))
    return cases
def judge_materialise(case, impl, spec):
    outs = [o.strip() for o in impl.split(";")]
    if any(o.startswith("PANIC") for o in outs): return "panic: " + impl[:200]
    last = outs[-1]
    if case.rstrip().endswith("enum"):
        return None          # enumerate cannot report an error: yielding nothing under a limit is allowed (only genuine solutions are required)
    if last == "unsat" or last.startswith("err NoSolution"):
        return "no-solution verdict for a satisfiable model whose memory budget was crossed while its constraints were materialised"
    return None
def split_none(model_line):
    return None, "-", None

nontrivial = lambda case, impl: impl.startswith("timeout") or impl.startswith("memory") or ("tfire" in case and "checks=0" not in impl)
_mat = Family("budget_at_materialisation", "api", gen_materialise, split=split_none, nontrivial=lambda c, i: True, prop_judge=judge_materialise)
_mat.takes_witnesses = False      # other grammar (sub-command api): the limits witnesses of known_findings.txt are not case lines for it
FAMILIES = [
    Family("scripted_limits", "limits", gen, nontrivial=nontrivial, prop_judge=judge),
    Family("deep_stack_memory", "limits", gen_deep, nontrivial=nontrivial, prop_judge=judge),
    _mat,
]
