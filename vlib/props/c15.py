"""C15 — time and memory limits yield explicit errors, never wrong answers."""
import random
from ..core import Family
from .. import plevel
from .. import fmodel as fm

PROPERTY_FILES = ["C15", "C03_Stack"]
TRUSTED_BASE = [
    "Coq 8.16.1 kernel (coqc full .vo build)",
    "hand-written model coq/Model/Limits.v of the engine's periodic limit test (Engine::limit_reached: at the first next(), after a yield, after a pop and — repair limits_deep — on every descent into a stalled child), get_memory_usage_mb and the error mapping of Model::solve/minimize/enumerate_with_stats (search/mod.rs, model/core.rs) on top of the search model of C03 — modelled, not verified; tied by this run's differential under hook H4 (check-interval override + scripted clock), including the exact number of limit checks performed",
    "models are built through the public Model API (int/intset + lin_eq/lin_le/lin_ne) so the tie also covers their lowering; root LP step and fast path off (hook H5)",
    "extraction: ExtrOcamlBasic only, no Extract Constant; OCaml driver ocaml/limits_cmd.ml; Rust harness harness/src/limits.rs",
]
ASSUMPTIONS = [
    "PARTIAL: the real clock (Instant::elapsed) is replaced by an oracle on the index of the limit check; that elapsed() is monotone is assumed; the allocator is not modelled (the memory limit is selen's own estimate, which is modelled exactly)",
    "the consumer stops at the first None of the iterator (as solve/minimize/enumerate_with_stats do)",
    "the wall-clock deadline inside search::propagate_until (the clock is read at the first propagator run of every propagation and then every 1024 runs; a propagation that starts after, or is still running when, the time limit has passed is given up and reported as a failed space, the engine then returns None, the root answers Search::TimedOut) is modelled as an ORACLE `giveup` that may turn any propagation into 'given up at the deadline' (coq/Model/Limits.v; theorems solve_lim_correct_g, minimize_lim_correct_g, enumerate_lim_genuine_g, root_giveup_is_timeout hold for every such oracle). It reads Instant::now() directly and is deliberately SEPARATE from hook H4's scripted clock (the script counts only the engine's periodic tests, so `checks=N` stays a function of the search tree); in the scripted families no time limit is configured, so this code is inert there and the model is run with `nogiveup`. That the code takes the exits the oracle describes (and answers at all) is covered by the differential family creeping_propagation only (real 300-400 ms limits on models whose propagation or descent does not end: the answer must arrive, and be Timeout or correct); the give-up of the fallback root after an LP vertex phase is not modelled (LP block off in the model)",
]
RULE = ("case = small linear model + entry (solve/min/max/enumstats/enum) + check interval 1..7 + clock expiring at check k (k=1..14 or never) "
        "+ memory limit (none / 1 MB with deep stacks) + build-time memory overflow; output (verdict class, assignment, number of "
        "limit checks) compared exactly with the extracted model and judged against the brute-force solution set: Ok => correct "
        "(optimal for min/max), nosol => really unsatisfiable, sols => genuine and distinct, never a panic; non-trivial = a limit fired; "
        "family creeping_propagation (sub-command solvef, real clock): float models whose propagation creeps (one step of 1e-10 per round over "
        "[0,1000]: x<y & y<x, cycles, opposite difference rows, a creeping branch below a 0/1 choice, geometric convergence) or whose bisection "
        "cannot make progress (magnitude above 2^52 steps), time limit 300-400 ms: the answer must arrive within limit + 8 s (else HANG) "
        "and be err Timeout, or Ok with a point that satisfies every row (exact rationals, vlib/fmodel.py), or NoSolution where no robust witness exists")

def witness_holds(case):
    parts = [p.strip() for p in case.split(";")]
    doms = parts[0].split("|")
    n = len(doms)
    if n < 4 or any(d.strip() != "0..2" for d in doms[-3:]) or any(d.strip() != "0..1" for d in doms[:-3]): return False
    a = [0] * n; a[0] = 1; a[-3:] = [0, 1, 2]
    for p in parts[1:]:
        t = p.split()
        if t[0] not in ("lineq", "linle", "linne"): continue
        cs = [int(x) for x in t[1].split(",")]; xs = [int(x[1:]) for x in t[2].split(",")]; k = int(t[3])
        v = sum(c * a[x] for c, x in zip(cs, xs))
        if (t[0] == "lineq" and v != k) or (t[0] == "linle" and v > k) or (t[0] == "linne" and v == k): return False
    return True

def judge(case, impl, spec):
    if impl.startswith("PANIC") or impl.startswith("CRASH") or impl.startswith("HANG"):
        return "implementation panicked: " + impl
    out = impl.rsplit(" checks=", 1)[0]
    if spec.strip() == "skip":      # search space too large for the brute-force oracle
        # the thrashing-below-a-deep-stack cases are satisfiable BY CONSTRUCTION: the witness x0 = 1, every other 0/1
        # variable 0, the last three variables 0,1,2 is checked here against every posted row (exact integer evaluation)
        if out == "nosol" and witness_holds(case):
            return "no-solution verdict for a satisfiable model (witness: x0 = 1, other 0/1 variables 0, last three 0,1,2)"
        return None
    allsols = plevel.parse_sols(spec[len("all "):])
    allset = set(allsols)
    parts = [p.strip() for p in case.split(";")]
    entry = [p for p in parts if p.split()[0] in ("solve", "min", "max", "enumstats", "enum")]
    entry = entry[0].split() if entry else ["solve"]
    if out in ("timeout", "memory"):
        return None
    if out == "nosol":
        return None if not allset else "no-solution verdict for a satisfiable model"
    if out.startswith("ok "):
        a = tuple(int(x) for x in out[3:].split(","))
        if a not in allset: return "returned assignment %s violates a constraint" % (a,)
        if entry[0] in ("min", "max"):
            i = int(entry[1][1:])
            best = min(s[i] for s in allset) if entry[0] == "min" else max(s[i] for s in allset)
            if a[i] != best: return "Ok with objective %d but the optimum is %d" % (a[i], best)
        return None
    if out.startswith("sols "):
        sols = plevel.parse_sols(out[5:])
        if len(set(sols)) != len(sols): return "the same assignment yielded twice"
        for s in sols:
            if s not in allset: return "yielded assignment %s is not a solution" % (s,)
        return None
    return "unexpected output: " + impl

def gen(tier, rng):
    n = 3000 if tier == "quick" else 400000
    cases = []
    for _ in range(n):
        nv, doms, props = plevel.rand_model(rng, ["lineq", "linle", "linne"], maxvars=4, maxprops=3, maxprod=600)
        r = rng.random()
        entry = "solve" if r < 0.3 else "enumstats" if r < 0.5 else "enum" if r < 0.55 else "%s x%d" % (rng.choice(["min", "max"]), rng.randrange(nv))
        c = ["|".join(doms)] + props + [entry, "iv %d" % rng.randint(1, 7)]
        if rng.random() < 0.75: c.append("tfire %d" % rng.randint(1, 14))
        r = rng.random()
        if r < 0.08: c.append("buildmem")
        elif r < 0.3: c.append("mem 1")
        cases.append(" ; ".join(c))
    return cases

def gen_deep(tier, rng):
    """deep stacks: the engine's own memory estimate exceeds 1 MB at stack depth >= 512"""
    cases = []
    for nv in ([530] if tier == "quick" else [505, 512, 520, 600]):
        doms = "|".join(["0..1"] * nv)
        for entry in ["solve", "enumstats"]:
            for iv in [1, 3]:
                cases.append(" ; ".join([doms, "linle 1,1 x0,x1 2", entry, "iv %d" % iv, "mem 1"]))
    # thrashing BELOW a deep stack: nv free 0/1 variables, then three variables 0..2, pairwise different, each <= 1 + x0:
    # satisfiable only with x0 = 1.  Depth-first search sets x0 = 0 first, stacks nv choice points, fails in the block and
    # pops: the periodic check then runs with > 512 frames on the stack and the in-search memory limit (1 MB) fires.
    # The answer must be MemoryLimit (or a correct result), never a no-solution verdict (seeded change C15c).
    for nv in ([520, 600] if tier == "quick" else [513, 520, 560, 600, 700]):
        doms = "|".join(["0..1"] * nv + ["0..2"] * 3)
        h = ["x%d" % (nv + i) for i in range(3)]
        posts = ["linne 1,-1 %s,%s 0" % (h[i], h[j]) for i in range(3) for j in range(i + 1, 3)] + ["linle 1,-1 %s,x0 1" % hi for hi in h]
        for entry in ["solve", "min %s" % h[0], "max x1", "enumstats"]:
            for iv in ([1, 7] if tier == "quick" else [1, 2, 7, 50]):
                cases.append(" ; ".join([doms] + posts + [entry, "iv %d" % iv, "mem 1"]))
    return cases

def gen_materialise(tier, rng):
    """the memory budget is crossed while prepare_for_search MATERIALISES pending constraints (auxiliary variables of fluent
    sub-expressions): 1 MB limit, N one-value filler variables (152 bytes each in the model's accounting) so that 0..400 bytes
    are left, two or three small variables and one fluent constraint that needs 1-2 auxiliary variables; satisfiable by
    construction.  Sub-command `api` (public API only).  The answer must be Ok or MemoryLimit, never a no-solution verdict
    (repaired defect a284062)."""
    cases = []
    budget = 1 << 20
    for _ in range(60 if tier == "quick" else 600):
        k = rng.choice([2, 3])
        small = 176                                  # int(0,3): 96 + 48 + 8*4
        left = rng.choice([0, 8, 31, 32, 100, 151, 152, 200, 223, 224, 225, 300, 400])
        n = (budget - k * small - left) // 152
        a, b = n, n + 1
        cons = rng.choice(["eq(mul(x%d,x%d),6)" % (a, b), "eq(add(mul(x%d,x%d),x%d),7)" % (a, b, a), "le(mul(x%d,2),add(x%d,3))" % (a, b),
                           "eq(sub(mul(x%d,x%d),1),5)" % (a, b), "ge(mul(x%d,x%d),4)" % (a, b)])
        entry = rng.choice(["solve", "solve", "minimize x%d" % a, "maximize x%d" % b, "enum"])
        cases.append(" ; ".join(["cfg mem 1", "ints %d 0 0" % n] + ["int 0 3"] * k + ["new " + cons, entry]))
    return cases
def judge_materialise(case, impl, spec):
    outs = [o.strip() for o in impl.split(";")]
    if any(o.startswith("PANIC") for o in outs): return "panic: " + impl[:200]
    last = outs[-1]
    if case.rstrip().endswith("enum"):
        return None          # enumerate cannot report an error: yielding nothing under a limit is allowed (only genuine solutions are required)
    if last == "unsat" or last.startswith("err NoSolution"):
        return "no-solution verdict for a satisfiable model whose memory budget was crossed while its constraints were materialised"
    return None
def split_none(model_line):
    return None, "-", None

# ---------------------------------------------------------------------------------------------------------------------------
# creeping_propagation: the wall-clock side of the repair limits_deep (in Coq: the oracle `giveup`, see ASSUMPTIONS).  Model-level
# float models (sub-command solvef, grammar of vlib/fmodel.py) with real time limits of 300-400 ms.
def _F(lo, hi): return "F %s %s" % (fm.f2h(lo), fm.f2h(hi))
def gen_creeping(tier, rng):
    h = fm.f2h
    cases = []
    def to(): return "to %d" % rng.choice([300, 350, 400])
    reps = 1 if tier == "quick" else 6
    # the two witnesses of the finding, verbatim: (a) propagation creeping one step of 1e-10 per round, (b) a bisection over
    # more than 2^52 steps (fixes_applied/float_arith/APPLY.md, by-product 3)
    cases.append("10 ; F 0000000000000000 408f400000000000|F 0000000000000000 408f400000000000 ; new lt(x0,x1) ; new lt(x1,x0) ; solve ; to 400")
    cases.append("2 ; F 412dc90000000000 412dc90a00000000|F 40db0d0000000001 40db0d4000000001|F c01a000000000000 4021000000000000 ; "
                 "new le(mul(mul(x0,x0),x0),f:43a9ce0abb717384) ; lin le c004000000000000,bffc000000000000 x2,x1 c0e70d35fa6c9696 ; "
                 "new eq(x2,f:c019705a71e5375a) ; solve ; to 400")
    for _ in range(reps):
        hi = rng.choice([1000.0, 5000.0, 1e6])
        for prec in (8, 9, 10):
            # x < y and y < x: every round moves one bound by one step
            e = rng.choice(["solve", "min x0", "max x1", "min x1"])
            cases.append("%d ; %s|%s ; new lt(x0,x1) ; new lt(x1,x0) ; %s ; %s" % (prec, _F(0, hi), _F(0, hi), e, to()))
        # the same through the root LP step (the LP finds the model feasible on the boundary; the vertex phase and the root propagate)
        cases.append("10 ; %s|%s ; new lt(x0,x1) ; new lt(x1,x0) ; %s ; %s ; lp" % (_F(0, hi), _F(0, hi), rng.choice(["solve", "min x0"]), to()))
        # a cycle of three
        cases.append("%d ; %s|%s|%s ; new lt(x0,x1) ; new lt(x1,x2) ; new lt(x2,x0) ; %s ; %s"
                     % (rng.choice([9, 10]), _F(0, hi), _F(0, hi), _F(0, hi), rng.choice(["solve", "max x2"]), to()))
        # opposite difference rows with a small negative slack over a huge box (FloatLinLe): x - y <= -d, y - x <= -d
        d = rng.choice([0.5, 0.25, 1e-3])
        cases.append("6 ; %s|%s ; lin le %s,%s x0,x1 %s ; lin le %s,%s x0,x1 %s ; %s ; %s"
                     % (_F(0, 1e9), _F(0, 1e9), h(1), h(-1), h(-d), h(-1), h(1), h(-d), rng.choice(["solve", "min x0"]), to()))
        # geometric convergence to (0,0): x <= (1 - 1e-9) y, y <= x
        c = 1 - 1e-9
        cases.append("10 ; %s|%s ; lin le %s,%s x0,x1 %s ; lin le %s,%s x0,x1 %s ; %s ; %s"
                     % (_F(0, hi), _F(0, hi), h(1), h(-c), h(0), h(-1), h(1), h(0), rng.choice(["solve", "min x0", "max x1"]), to()))
        # slow convergence to a NON-EMPTY region: x <= (1 - 1e-9) y + 1e-7, y <= x + 1e-7 over [0,1000]: the upper bounds creep down
        # towards ~200 by a factor (1 - 1e-9) per round (1.6e9 rounds); satisfiable with a margin (witness x = y = 0, slack
        # 1e-7 = 1000 steps on both rows), so the root propagation given up at the deadline must NOT become NoSolution
        for e in (["solve", "max x0"] if tier == "quick" else ["solve", "max x0", "min x1", "max x1"]):
            cases.append("10 ; %s|%s ; lin le %s,%s x0,x1 %s ; lin le %s,%s x0,x1 %s ; %s ; %s"
                         % (_F(0, 1000), _F(0, 1000), h(1), h(-c), h(1e-7), h(-1), h(1), h(1e-7), e, to()))
        # the creeping system only BELOW a choice: b = 0 switches the two rows on (the engine descends into b <= 0 first, the
        # propagation of that child creeps); b = 1 switches them off, so the model is satisfiable (witness b = 1, x = y = 0):
        # Timeout or a correct Ok, never NoSolution
        for e in (["solve", "min x1"] if tier == "quick" else ["solve", "min x1", "max x2", "max x0"]):
            cases.append("10 ; I 0 1|%s|%s ; lin le %s,%s,%s x0,x1,x2 %s ; lin le %s,%s,%s x0,x1,x2 %s ; %s ; %s"
                         % (_F(0, 1000), _F(0, 1000), h(-2000), h(1), h(-1), h(-1e-9), h(-2000), h(-1), h(1), h(-1e-9), e, to()))
        # a bisection that cannot make progress: magnitude 1e17 at step 0.01 (neighbouring grid points are not representable);
        # no constraint at all, or a trivially satisfiable one: Timeout or Ok, never NoSolution
        lo = rng.choice([1e17, 3e17, 1e18])
        cases.append("2 ; %s ; %s ; %s" % (_F(lo, lo * 1.1), rng.choice(["solve", "max x0", "min x0"]), to()))
        cases.append("2 ; %s|%s ; new le(x0,x1) ; %s ; %s" % (_F(lo, lo * 1.1), _F(lo, lo * 1.2), rng.choice(["solve", "min x1"]), to()))
    return cases

def robust_witness(case):
    """a corner / centre point of the declared box that satisfies every row with a margin well above the step, or None.
    Only linear rows are understood; a model with any other row has no witness here (NoSolution is then not judged)."""
    import itertools
    from fractions import Fraction
    if any((not r.linear) or r.rel not in ("le", "lt", "ge", "gt") for r in case.rows) or len(case.decls) > 4:
        return None
    cands = []
    for (k, lo, hi) in case.decls:
        c = [lo, hi]
        if k == "F": c.append((lo + hi) / 2)
        if lo <= 0 <= hi: c.append(Fraction(0))
        cands.append(c)
    for x in itertools.product(*cands):
        ok = True
        for r in case.rows:
            d = sum((c * x[v] for v, c in r.coeffs.items()), Fraction(0)) - r.const
            # 100 steps per unit of coefficient (a strict row is lowered by ONE step) + the f64 rounding of the accumulation;
            # fm's acceptance tolerance tol(r) is deliberately not added: it bounds what the solver may ACCEPT, while a point is
            # only ever REMOVED by sound bound reasoning (outward rounding, strict rows shifted by one step)
            margin = (100 * case.step * (1 + sum(abs(c) for c in r.coeffs.values()))
                      + fm.EPS_REL * (abs(r.const) + sum(abs(c) * case.bmag(v) for v, c in r.coeffs.items())))
            if r.rel in ("ge", "gt"): d = -d
            if d > -margin: ok = False; break
        if ok: return x
    return None

def judge_creeping(line, impl, spec):
    if impl.startswith(("PANIC", "CRASH", "HANG")) or impl == "MISSING":
        return "no answer within the time limit + 8 s (or a panic): " + impl[:120]
    case = fm.Case(line)
    kind, what, kinds, _ = fm.parse_impl(impl)
    if kind == "err" and what == "Timeout":
        return None
    if kind == "ok":
        bad = fm.point_violations(case, what, kinds)
        return ("Ok under a time limit with a point that violates the model: " + "; ".join(bad[:3])) if bad else None
    if kind == "err" and what == "NoSolution":
        w = robust_witness(case)
        if w is not None:
            return "no-solution verdict under a time limit for a satisfiable model (witness %s satisfies every row with a margin)" % (tuple(float(v) for v in w),)
        return None
    return "neither a result nor the Timeout error: " + impl[:120]

_creep = Family("creeping_propagation", "solvef", gen_creeping, split=lambda ml: (None, "-", None),
                nontrivial=lambda c, i: i.startswith("err Timeout"), prop_judge=judge_creeping)
_creep.takes_witnesses = False    # other grammar (sub-command solvef)

nontrivial = lambda case, impl: impl.startswith("timeout") or impl.startswith("memory") or ("tfire" in case and "checks=0" not in impl)
_mat = Family("budget_at_materialisation", "api", gen_materialise, split=split_none, nontrivial=lambda c, i: True, prop_judge=judge_materialise)
_mat.takes_witnesses = False      # other grammar (sub-command api): the limits witnesses of known_findings.txt are not case lines for it
FAMILIES = [
    Family("scripted_limits", "limits", gen, nontrivial=nontrivial, prop_judge=judge),
    Family("deep_stack_memory", "limits", gen_deep, nontrivial=nontrivial, prop_judge=judge),
    _mat,
    _creep,
]
