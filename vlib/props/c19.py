"""C19 — all-different engines prune only unsupported values and agree."""
import itertools, re
from .. import core
from ..core import Family, log

TRUSTED_BASE = [
    "Coq 8.16.1 kernel (coqc full .vo build); vm_compute used only for closed refutation witnesses and non-vacuity examples",
    "hand-written model coq/Model/Gac.v of gac_bitset.rs, gac_hybrid.rs, gac_sparseset.rs, bitset_domain.rs and coq/Model/Props/AllDiff.v of props/alldiff.rs (modelled, not verified): tied by this run's differential",
    "domains are value lists: BitSetDomain masks and SparseSets are read as sets (C11 refinement for SparseSet; BitSetDomain's mask arithmetic is exercised by the differential incl. 128-wide universes)",
    "extraction: ExtrOcamlBasic only, no Extract Constant; OCaml driver ocaml/gac_cmd.ml; on families with more than 20000 tuples the specification side is a search whose witnesses are checked by the extracted `sol_check` (a value reported unsupported there rests on the search being exhaustive); Rust harness harness/src/gac.rs",
    "the sparse engine's hash-map iteration order is an explicit argument of the model; correspondence = the implementation's output is one of the model's outputs over all orders",
]
ASSUMPTIONS = [
    "engines are driven over all their variables, Variable(i) = position i, as HybridGAC/AllDiff do",
    "i32 modelled as unbounded Z (overflow is C17)",
    "known classes are listed in known_findings.txt",
    "sparse engine: the model and sparse_inconsistent_sound cover graphs outside the class kf_sparse_value_range (values in 0..127, or more than 64 variables / 128 values); inside it the debug build panics and the release build is unsound (known finding)",
]
RULE = ("case = engine(s) + domain family (holes, singletons, negative values, >128-wide universes for the representation switch) "
        "+ history of rm/assign/below/above/prop; every propagate step of the implementation is judged against the specification "
        "of the domains it started from (removed => unsupported; inconsistent => no assignment of pairwise different values; all "
        "fixed => consistent iff distinct); `all` cases run the three engines on the same family and record agreement on "
        "consistency; exhaustive over <=4 variables x non-empty subsets of 5 values, then seeded random to 8 variables; "
        "non-trivial = some propagate step changed a domain or declared inconsistency")

# ------------------------------------------------------------------------------------------ parsing
def parse_dom(d):
    d = d.strip()
    if d in ("-", ""): return []
    out = []
    for t in d.split(","):
        m = re.match(r"^(-?\d+)\.\.(-?\d+)$", t)
        if m: out.extend(range(int(m.group(1)), int(m.group(2)) + 1))
        else: out.append(int(t))
    return out

def parse_steps(out):
    """'init D / c=1 ok D / r=0 D' -> list of (tag, doms-string)"""
    steps = []
    for s in out.split(" / "):
        s = s.strip()
        i = s.rfind(" ")
        steps.append((s[:i], s[i + 1:]))
    return steps

def case_ops(case):
    return [p.strip() for p in case.split(";")[1:] if p.strip()]

SPEC = {}   # doms-string -> 'unsat' | 'supp ...'   (filled by prejudge through the driver's gacspec)
SECOND = {} # case -> implementation output of a second process (determinism probe)
STATS = {"agree": 0, "disagree": 0, "disagree_solvable": 0}

def sections(case, out):
    """[(engine, output)] for a case line"""
    eng = case.split(" ", 1)[0]
    if eng == "all":
        parts = out.split(" ## ")
        return list(zip(["bitset", "sparse", "hybrid"], parts + ["MISSING"] * (3 - len(parts))))
    return [(eng, out)]

def prop_befores(case, impl):
    res = []
    ops = case_ops(case)
    for eng, out in sections(case, impl):
        if not out.startswith("init "): continue
        st = parse_steps(out)
        for k, op in enumerate(ops):
            if op == "prop" and k + 1 < len(st):
                res.append(st[k][1])
    return res

def prejudge(cases, impl, model):
    need = set()
    for c, il in zip(cases, impl):
        if il is None: continue
        for b in prop_befores(c, il):
            if b not in SPEC: need.add(b)
    need = sorted(need)
    if need:
        outs = core.run_lines(core.driver_exe(), "gacspec", need)
        for b, o in zip(need, outs):
            SPEC[b] = o if o is not None else "MISSING"

def prejudge_two(cases, impl, model):
    prejudge(cases, impl, model)
    again = core.run_lines(core.harness_exe(), "gac", cases, shards=3)
    for c, o in zip(cases, again):
        SECOND[c] = o

# ------------------------------------------------------------------------------------------ judge
def judge_section(eng, case, out):
    """-> (why, cls, verdicts) ; verdicts = list of (before, 'ok'|'inc') per propagate step"""
    if out.startswith("PANIC") or out.startswith("CRASH") or out.startswith("HANG") or out == "MISSING":
        cls = None
        vals = [v for d in case.split(";")[0].split(" ", 1)[1].split("|") for v in parse_dom(d)]
        if eng == "sparse" and "shift left with overflow" in out and any(v < 0 or v > 127 for v in vals):
            cls = "sparse_value_range_panic"
        return "%s engine panicked: %s" % (eng, out), cls, []
    if not out.startswith("init "):
        return "unexpected %s output: %s" % (eng, out), None, []
    st = parse_steps(out)
    ops = case_ops(case)
    if len(st) != len(ops) + 1:
        return "step count mismatch", None, []
    verdicts = []
    for k, op in enumerate(ops):
        tag, after_s = st[k + 1]
        before_s = st[k][1]
        before = [set(parse_dom(d)) for d in before_s.split("|")]
        after = [set(parse_dom(d)) for d in after_s.split("|")]
        if len(before) != len(after):
            return "variable count changed", None, verdicts
        for i, (b, a) in enumerate(zip(before, after)):
            if not a <= b:
                return "%s: domain of x%d grew at step %d" % (eng, i, k), None, verdicts
        if op != "prop":
            continue
        spec = SPEC.get(before_s)
        if spec is None or not (spec == "unsat" or spec.startswith("supp ")):
            return "no specification for %s (%s)" % (before_s, spec), None, verdicts
        ok = tag.endswith(" ok")
        verdicts.append((before_s, "ok" if ok else "inc"))
        unsat = spec == "unsat"
        fixed = all(len(b) == 1 for b in before)
        if not ok:
            if not unsat:
                return "%s declares inconsistency at step %d although %s has an assignment of pairwise different values" % (eng, k, before_s), None, verdicts
            continue
        if not unsat:
            supp = [set(parse_dom(d)) for d in spec[5:].split("|")]
            for i, (s, a) in enumerate(zip(supp, after)):
                if not s <= a:
                    return ("%s removed supported value(s) %s of x%d at step %d (from %s)" % (eng, sorted(s - a), i, k, before_s),
                            "sparse_matching" if eng == "sparse" else None, verdicts)
        if fixed and unsat:
            return "%s: all variables fixed with a repeated value, yet consistent at step %d" % (eng, k), None, verdicts
    return None, None, verdicts

JUDGED = {}
def judge_case(case, impl):
    key = (case, impl)
    if key in JUDGED: return JUDGED[key]
    secs = sections(case, impl)
    res = (None, None)
    allv = []
    for eng, out in secs:
        why, cls, verdicts = judge_section(eng, case, out)
        allv.append(verdicts)
        if why is not None and res[0] is None:
            res = (why, cls)
    if len(secs) == 3 and all(len(v) == len(allv[0]) and v for v in allv):
        # agreement on consistency, compared step by step while the engines still see the same domains
        for k in range(len(allv[0])):
            befores = {v[k][0] for v in allv}
            if len(befores) != 1: break
            vs = [v[k][1] for v in allv]
            if len(set(vs)) == 1:
                STATS["agree"] += 1
            else:
                STATS["disagree"] += 1
                solvable = SPEC.get(allv[0][k][0], "") != "unsat"
                if solvable: STATS["disagree_solvable"] += 1
                if res[0] is None:
                    res = ("engines disagree on consistency for %s: bitset=%s sparse=%s hybrid=%s (%s)" %
                           (allv[0][k][0], vs[0], vs[1], vs[2], "solvable" if solvable else "no solution exists"),
                           None if solvable else "engines_disagree")
                break
    if res[0] is None and case in SECOND and SECOND[case] is not None and SECOND[case] != impl:
        res = ("two processes give different outputs: %s  vs  %s" % (impl, SECOND[case]), "sparse_hash_order")
    JUDGED[key] = res
    return res

def prop_judge(case, impl, spec):
    return judge_case(case, impl)[0]

def classify(case, impl, cls):
    return judge_case(case, impl)[1]

def corr(case, impl, mpart):
    if mpart is None: return True
    isec = sections(case, impl)
    msec = mpart.split(" ## ") if case.startswith("all ") else [mpart]
    if len(isec) != len(msec): return False
    for (eng, out), m in zip(isec, msec):
        if out.startswith("PANIC") and eng == "sparse" and "shift left with overflow" in out:
            continue    # debug-build shift overflow in find_augmenting_path_bitset is not modelled (known class)
        if out not in m.split(" @@ "):
            return False
    return True

def nontrivial(case, impl):
    for eng, out in sections(case, impl):
        if " inc " in out or "c=1 " in out or out.startswith("PANIC"): return True
    return False

# ------------------------------------------------------------------------------------------ generators
def subsets(uni):
    out = []
    for m in range(1, 1 << len(uni)):
        out.append(",".join(str(uni[i]) for i in range(len(uni)) if m >> i & 1))
    return out

def gen_exhaustive(tier, rng):
    subs = subsets([0, 1, 2, 3, 4])
    cases = []
    if tier == "thorough":
        for n in (1, 2, 3, 4):
            for t in itertools.product(subs, repeat=n):
                cases.append("all %s ; prop" % "|".join(t))
    else:
        for n in (1, 2, 3):
            for t in itertools.product(subs, repeat=n):
                cases.append("all %s ; prop" % "|".join(t))
        for _ in range(30000):
            cases.append("all %s ; prop" % "|".join(rng.choice(subs) for _ in range(4)))
    return cases

def gen_exhaustive_neg(tier, rng):
    """bitset and hybrid over a universe with negative values (the sparse engine's matching cannot take them)"""
    subs = subsets([-2, -1, 0, 1, 2])
    cases = []
    full = (1, 2, 3) if tier == "thorough" else (1, 2)
    for n in full:
        for t in itertools.product(subs, repeat=n):
            for e in ("bitset", "hybrid"):
                cases.append("%s %s ; prop" % (e, "|".join(t)))
    for _ in range(60000 if tier == "thorough" else 4000):
        n = rng.choice([3, 4]) if tier != "thorough" else 4
        cases.append("%s %s ; prop" % (rng.choice(["bitset", "hybrid"]), "|".join(rng.choice(subs) for _ in range(n))))
    return cases

def rand_dom(rng, lo, hi, wide_ok, base=0):
    r = rng.random()
    if wide_ok and r < 0.18:
        a = rng.randint(lo - 20, hi); w = rng.choice([127, 128, 129, 130, 200, 300])
        if rng.random() < 0.5: return "%d..%d" % (a, a + w - 1)
        k = rng.randint(1, 6)
        vals = sorted(set([a, a + w - 1] + [rng.randint(a, a + w - 1) for _ in range(k)]))
        return ",".join(map(str, vals))
    if r < 0.35:
        return str(rng.randint(lo, hi))
    if r < 0.6:
        a = rng.randint(lo, hi - 1); b = min(hi, a + rng.randint(1, 4)); return "%d..%d" % (a, b)
    k = rng.randint(1, 4)
    return ",".join(map(str, sorted(set(rng.randint(lo, hi) for _ in range(k)))))

def rand_ops(rng, n, lo, hi, maxops):
    ops = []
    for _ in range(rng.randint(1, maxops)):
        r = rng.random()
        if r < 0.45: ops.append("prop")
        else:
            i = rng.randrange(n); v = rng.randint(lo - 1, hi + 1)
            ops.append("%s %d %d" % (rng.choice(["rm", "rm", "assign", "below", "above"]), i, v))
    if "prop" not in ops: ops.append("prop")
    return ops

def gen_random(tier, rng):
    n_cases = 20000 if tier == "quick" else 150000
    cases = []
    for _ in range(n_cases):
        eng = rng.choice(["bitset", "hybrid", "hybrid", "hybrid"])
        n = rng.randint(2, 8)
        hi = rng.choice([3, 5, 7, 9])
        lo = rng.choice([-3, 0, 1])
        doms = [rand_dom(rng, lo, hi, True) for _ in range(n)]
        ops = ["prop"] if rng.random() < 0.5 else rand_ops(rng, n, lo, hi, 8)
        cases.append("%s %s ; %s" % (eng, "|".join(doms), " ; ".join(ops)))
    return cases

def gen_random_all(tier, rng):
    """three engines on the same family; values in 0..9 and at most 6 variables so that the model can enumerate
    the sparse engine's iteration orders"""
    n_cases = 8000 if tier == "quick" else 60000
    cases = []
    for _ in range(n_cases):
        n = rng.randint(2, 6)
        hi = rng.choice([2, 3, 4, 6, 9])
        doms = [rand_dom(rng, 0, hi, False) for _ in range(n)]
        ops = ["prop"] if rng.random() < 0.6 else rand_ops(rng, n, 0, hi, 6)
        cases.append("all %s ; %s" % ("|".join(doms), " ; ".join(ops)))
    return cases

def gen_sparse_wide(tier, rng):
    """sparse engine beyond 128 distinct values (hash-map visited sets; any value allowed) and 7-8 variables:
    judged against the specification only when the model cannot enumerate the orders"""
    n_cases = 600 if tier == "quick" else 6000
    cases = []
    for _ in range(n_cases):
        n = rng.randint(2, 5)
        doms = [rand_dom(rng, -3, 6, False) for _ in range(n - 1)]
        a = rng.randint(-30, 10)
        doms.insert(rng.randrange(n), "%d..%d" % (a, a + rng.choice([140, 200])))
        cases.append("sparse %s ; prop" % "|".join(doms))
    return cases

def gen_two_process(tier, rng):
    subs = subsets([0, 1, 2, 3, 4])
    cases = []
    for _ in range(4000 if tier == "quick" else 30000):
        n = rng.choice([3, 4, 4, 5])
        cases.append("sparse %s ; prop" % "|".join(rng.choice(subs) for _ in range(n)))
    return cases

def gen_panic_probe(tier, rng):
    return ["sparse -1,0|0,1 ; prop", "sparse 127,128|128 ; prop", "sparse 0,1|200,201 ; prop",
            "all 0..4|0..4|0..4|0..4|0..4|0..4 ; prop", "all 0,1|0,1|0,1|0,2,3 ; prop"]

def gen_clusters(tier, rng):
    """narrow domains whose JOINT span straddles the 128-value representation limit: clusters near 0 and near
    125..131 (each domain <= 128 wide, the union wider) — added after seeded change C19_hall_mask_span was only
    seen as a correspondence break on degenerate (empty-domain) histories"""
    n_cases = 6000 if tier == "quick" else 80000
    cases = []
    for _ in range(n_cases):
        eng = rng.choice(["bitset", "hybrid"])
        n = rng.randint(2, 6)
        base = rng.choice([0, 0, -2, 1])
        far = base + rng.choice([124, 125, 126, 127, 128, 129, 130])
        doms = []
        for _ in range(n):
            c = base if rng.random() < 0.5 else far
            k = rng.randint(1, 3)
            vals = sorted(set(c + rng.randint(0, 3) for _ in range(k)))
            doms.append(",".join(map(str, vals)) if rng.random() < 0.6 else "%d..%d" % (vals[0], vals[0] + rng.randint(0, 2)))
        ops = ["prop"] if rng.random() < 0.6 else rand_ops(rng, n, base, base + 3, 5)
        cases.append("%s %s ; %s" % (eng, "|".join(doms), " ; ".join(ops)))
    return cases

def mk(name, gen, exhaustive=False, pre=prejudge):
    f = Family(name, "gac", gen, nontrivial=nontrivial, prop_judge=prop_judge, exhaustive=exhaustive)
    f.prejudge = pre
    f.corr = corr
    f.classify = classify
    return f

FAMILIES = [
    mk("exhaustive_three_engines", gen_exhaustive, exhaustive=True),
    mk("exhaustive_negative_values", gen_exhaustive_neg, exhaustive=True),
    mk("random_bitset_hybrid", gen_random),
    mk("joint_span_clusters", gen_clusters),
    mk("random_three_engines", gen_random_all),
    mk("sparse_wide", gen_sparse_wide),
    mk("sparse_two_process", gen_two_process, pre=prejudge_two),
    mk("sparse_value_range", gen_panic_probe),
]
