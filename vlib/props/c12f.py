"""C12 (float half) — bound tightening on float variables is outward-safe; FloatInterval primitives stay
inside the interval and are monotone.  Bit-exact differential of the extracted Coq model
(coq/Model/{B64,FloatInterval,CtxFloat}.v) against the Rust code, plus an exact-rational judge of the
property itself on the implementation's output."""
import math, struct
from fractions import Fraction
from ..core import Family

TRUSTED_BASE = [
    "Coq 8.16.1 kernel (coqc full .vo build); vm_compute used for the closed refutation witnesses, the non-vacuity examples and constant sanity lemmas",
    "Flocq 4.1.0 (Core, IEEE754.BinarySingleNaN/Binary/Bits) as installed; its theorems depend on the standard library's real-number axioms: "
    "ClassicalDedekindReals.sig_forall_dec, ClassicalDedekindReals.sig_not_dec, FunctionalExtensionality.functional_extensionality_dep (and Classical_Prop.classic where Print Assumptions lists it)",
    "hand-written models coq/Model/FloatInterval.v (src/variables/domain/float_interval.rs:1-318, src/optimization/ulp_utils.rs:12-60) and coq/Model/CtxFloat.v "
    "(src/variables/views.rs:215-269, 298-320, 356-444, 473-495 and the ceil/floor `as i32` conversions of 275, 450) over coq/Model/B64.v (modelled, not verified): tied by this run's bit-exact differential",
    "f64 literals enter the model as bit patterns scraped from the Rust source by tools/gen_consts.py (Generated/Consts.v: step ladder, precision table, 2.0, 3.0, 1e-5, 1.0)",
    "extraction: ExtrOcamlBasic only, no Extract Constant; Flocq's binary_float stays an extracted inductive; ocamlfind ocamlopt 4.13.1; ocaml/fi_cmd.ml glue (hex parsing/printing)",
    "Rust harness harness/src/fi.rs (FloatInterval API; Context::new_verif hook for try_set_min/max), cargo/rustc 1.95, x86-64 SSE2 arithmetic (round-to-nearest-even); "
    "f64::max/min on equal operands (+0/-0) return the first operand on this target (checked by the `ar` probe)",
    "this file's exact-rational judge (fractions.Fraction on the bit patterns) of no-widen / no-invert / event-iff-changed / loss-within-one-step / fail-only-when-nothing-left / primitives-inside",
]
ASSUMPTIONS = [
    "NaN payload and sign are not modelled (hardware propagates payloads; x86 default NaN is negative): both sides print every NaN as 7ff8000000000000; no modelled code path reads the bits of a NaN",
    "rounding-dependent theorems (tsm_f_min_magn / tsm_f_max_magn: no-widen, event-iff-changed, loss <= step*(1+2^-50)+|v|*2^-50; tsm_f_seq) are proved under Magn "
    "(decidable predicate magn_b, also extracted and used to classify cases): all inputs finite, min <= max, 2^-60 <= step <= 2^60, |min|,|max|,|v| <= 2^50*step; "
    "outside Magn they are refuted by closed witnesses (known class outside_magn)",
    "order-only theorems (fi_prims_inside, fi_next_prev_mono, fi_remove_below_above_no_widen, tsm_fi_spec, tsm_f_no_invert) need only: finite min/max/step, min <= max, step > 0, finite (or just non-NaN) argument",
    "two findings are recorded as known classes: outside_magn (widening to +-inf, event without change, loss beyond one step), int_bound_tol_invert (inverted interval after an int bound); next(-0.0) leaving the interval was repaired in /repo aed2bd1 (fixed entry in known_findings.txt)",
    "a Rust panic (f64::clamp with min > max or NaN bound, reachable only from an inverted or NaN interval) is modelled as None and compared as PANIC",
]
RULE = ("fi: constructor (new / with_step / with_step_unchecked) + sequence of FloatInterval method calls, arguments as bit patterns near k*step +- j ulp, "
        "the tolerances (step/2), bounds, 0, +-2^k, magnitudes 1e-9..1e9, subnormals, +-inf, NaN; `ar`/`cv` probes compare the arithmetic layer itself with the hardware. "
        "ctxf: variable (float via FloatInterval::new or explicit step 10^-p, p=1..12 and powers of two; int range) + <=6 try_set_min/try_set_max calls with float or int bounds placed "
        "near min/max +- {step/2, step, 3*step, 1e-5*|bound|} +- j ulp and near multiples of the step; non-trivial = some call changed the domain or failed")

# ------------------------------------------------------------------------------------------------
# bit-pattern helpers

def f2h(x):
    return "%016x" % struct.unpack("<Q", struct.pack("<d", x))[0]

def h2f(h):
    return struct.unpack("<d", struct.pack("<Q", int(h, 16)))[0]

def h2q(h):
    """exact rational value of a finite f64 bit pattern; None for inf/NaN"""
    x = h2f(h)
    if math.isnan(x) or math.isinf(x):
        return None
    return Fraction(x)

def sround(x):
    try:
        return round(x)
    except (OverflowError, ValueError):
        return 0

def sfloor(x):
    try:
        return math.floor(x)
    except (OverflowError, ValueError):
        return 0

def nudge(x, k):
    """x moved by k ulps (bit pattern arithmetic on the ordered integer line of floats)"""
    if math.isnan(x) or math.isinf(x):
        return x
    b = struct.unpack("<q", struct.pack("<d", x))[0]
    if b < 0:
        b = -(b & 0x7FFFFFFFFFFFFFFF)
    b += k
    if b < 0:
        b = (-b) | (1 << 63)
        if b >= (0xFFF0 << 48): b = 0xFFEFFFFFFFFFFFFF
    elif b > 0x7FEFFFFFFFFFFFFF:
        b = 0x7FEFFFFFFFFFFFFF
    return struct.unpack("<d", struct.pack("<Q", b))[0]

SPECIALS = [0.0, -0.0, float("inf"), float("-inf"), float("nan"), 5e-324, -5e-324, 2.2250738585072014e-308,
            1.7976931348623157e308, -1.7976931348623157e308, 1.0, -1.0, 0.5, 2.0 ** 52, 2.0 ** 53, -(2.0 ** 53), 2.0 ** 63, 2.0 ** 64,
            2147483647.0, 2147483648.0, -2147483648.0, -2147483649.0, 2147483647.5, -2147483648.5, 4294967296.0, 1e300, -1e300, 1e-300]

def steps_pool(rng):
    r = rng.random()
    if r < 0.55:
        return 10.0 ** (-rng.randint(1, 12))          # precision_to_step_size(p), p = 1..12
    if r < 0.75:
        return 2.0 ** rng.randint(-30, 6)
    if r < 0.85:
        return rng.choice([0.00000095367432, 0.00000000093132257, 0.03125, 0.0009765625, 32.0, 1.0])
    if r < 0.95:
        return 10.0 ** rng.uniform(-9, 3)
    return rng.choice([5e-324, 1e-320, 1e-300, 1e300, 2.0 ** -60, 2.0 ** -61, 2.0 ** 60, 2.0 ** 61, 0.0, -1e-6, float("nan"), float("inf")])

def magnitude(rng):
    r = rng.random()
    if r < 0.25:
        return rng.uniform(-10, 10)
    if r < 0.5:
        return rng.choice([-1, 1]) * 10.0 ** rng.uniform(-9, 9)
    if r < 0.6:
        return rng.choice([-1, 1]) * 2.0 ** rng.randint(-40, 40)
    if r < 0.7:
        return float(rng.randint(-1000, 1000))
    if r < 0.8:
        return 0.0
    if r < 0.9:
        return rng.choice([-1, 1]) * 10.0 ** rng.uniform(9, 18)
    return rng.uniform(-1e6, 1e6)

def interval(rng):
    st = steps_pool(rng)
    a = magnitude(rng)
    r = rng.random()
    if st == st and 0 < st < 1e300:
        if r < 0.25: w = st * rng.randint(0, 6)
        elif r < 0.35: w = st * rng.uniform(0, 3)
        elif r < 0.7: w = st * rng.randint(1, 2000)
        else: w = abs(magnitude(rng))
    else:
        w = abs(magnitude(rng))
    if rng.random() < 0.3 and st == st and 0 < st < 1e300 and abs(a) < 1e300:
        a = float(sfloor(a / st)) * st                     # aligned lower bound
    b = a + w
    return a, b, st

def near(rng, iv):
    """a value placed near an interesting spot of interval iv = (min,max,step)"""
    a, b, st = iv
    if rng.random() < 0.04:
        return rng.choice(SPECIALS)
    s = st if (st == st and 0 < st < 1e300) else 1.0
    base = rng.choice([a, b, a, b, (a + b) / 2, 0.0, a + (b - a) * rng.random()])
    r = rng.random()
    if r < 0.30:
        off = rng.choice([-1, 1]) * rng.choice([0.0, s / 2, s, 2 * s, 3 * s, 4 * s, s / 4, 1e-5 * abs(base), 1.5 * s])
    elif r < 0.55 and abs(base) < 1e300:
        k = float(sround(base / s) + rng.randint(-3, 3)) if abs(base / s) < 1e300 else 0.0
        x = k * s
        return nudge(x, rng.randint(-3, 3))
    elif r < 0.75:
        off = s * rng.uniform(-5, 5)
    elif r < 0.9:
        off = (b - a) * rng.uniform(-0.2, 1.2) if abs(b - a) < 1e300 else 0.0
        base = a
    else:
        off = magnitude(rng)
    x = base + off
    return nudge(x, rng.randint(-2, 2)) if rng.random() < 0.6 else x

# ------------------------------------------------------------------------------------------------
# family 1: arithmetic layer probes

def gen_arith(tier, rng):
    n = 3000 if tier == "quick" else 150000
    cases = []
    pool = SPECIALS + [0.1, 0.3, 1e-6, 3.0, 1e-5, 2.5, -2.5, 0.49999999999999994, 1.5, -0.5, -1.5, 4503599627370495.5, 4503599627370496.5]
    for a in pool:
        cases.append("cv " + f2h(a))
        for b in pool:
            cases.append("ar %s %s" % (f2h(a), f2h(b)))
    for n_ in [-2147483648, -2147483647, -1, 0, 1, 2147483647, 16777217, 123456789, -987654321]:
        cases.append("i2f %d" % n_)
    for p in range(-1, 15):
        cases.append("p2s %d" % p)
    for _ in range(n):
        r = rng.random()
        if r < 0.6:
            a = magnitude(rng); b = steps_pool(rng) if rng.random() < 0.5 else magnitude(rng)
            if rng.random() < 0.3 and b == b and b != 0 and abs(b) < 1e300 and abs(a) < 1e300:
                a = nudge(float(sround(a / b)) * b, rng.randint(-2, 2))
            cases.append("ar %s %s" % (f2h(a), f2h(b)))
        elif r < 0.7:
            cases.append("ar %016x %016x" % (rng.getrandbits(64), rng.getrandbits(64)))
        elif r < 0.9:
            a = rng.choice([magnitude(rng), rng.randint(-3, 3) + rng.choice([0, 0.5, -0.5]), rng.choice(SPECIALS), float(rng.randint(-2**33, 2**33)) + rng.random()])
            cases.append("cv " + f2h(nudge(a, rng.randint(-1, 1))))
        elif r < 0.95:
            cases.append("cv %016x" % rng.getrandbits(64))
        else:
            cases.append("i2f %d" % rng.randint(-2**31, 2**31 - 1))
    return cases

# ------------------------------------------------------------------------------------------------
# family 2: FloatInterval method sequences

def gen_fi(tier, rng):
    n = 12000 if tier == "quick" else 400000
    cases = []
    for _ in range(n):
        iv = interval(rng)
        a, b, st = iv
        r = rng.random()
        if r < 0.35:
            init = "new %s %s" % (f2h(a), f2h(b))
            # the step FloatInterval::new will pick is unknown here; use the ladder's idea of it for `near`
            w = abs(b - a)
            stn = w / 512 if w >= 1048576 else 32.0 if w >= 16384 else 1.0 if w >= 512 else 0.03125 if w >= 16 else 0.0009765625 if w >= 0.5 else 0.00000095367432 if w >= 0.00048828125 else 0.00000000093132257
            iv = (min(a, b), max(a, b), stn)
        elif r < 0.65:
            init = "ws %s %s %s" % (f2h(a), f2h(b), f2h(st))
        elif r < 0.9:
            init = "un %s %s %s" % (f2h(a), f2h(b), f2h(st))
        elif r < 0.95:
            init = "un %s %s %s" % (f2h(b), f2h(a), f2h(st))      # inverted
        else:
            init = "ws %s %s %s" % (f2h(b), f2h(a), f2h(st))      # swapped by with_step
        ops = []
        if rng.random() < 0.01:
            init = "un %s %s %s" % (f2h(rng.choice([0.0, -0.0, -1.0])), f2h(1.0), f2h(rng.choice([1e-17, 1e-18, 2.0 ** -53, 2.0 ** -52, 1e-12])))
            ops.append("next 8000000000000000"); ops.append("prev 0000000000000000"); ops.append("prev 8000000000000000")
        for _ in range(rng.randint(1, 6)):
            k = rng.random()
            x = f2h(near(rng, iv))
            if k < 0.12: ops.append("next " + x)
            elif k < 0.24: ops.append("prev " + x)
            elif k < 0.30: ops.append("contains " + x)
            elif k < 0.33: ops.append("empty")
            elif k < 0.37: ops.append("fixed")
            elif k < 0.39: ops.append("size")
            elif k < 0.43: ops.append("count")
            elif k < 0.50: ops.append("round " + x)
            elif k < 0.57: ops.append("floor " + x)
            elif k < 0.64: ops.append("ceil " + x)
            elif k < 0.68:
                c, d, s2 = interval(rng) if rng.random() < 0.3 else (near(rng, iv), near(rng, iv), steps_pool(rng))
                ops.append("inter %s %s %s" % (f2h(c), f2h(d), f2h(s2)))
            elif k < 0.71:
                ops.append("inters %s %s %s" % (f2h(near(rng, iv)), f2h(near(rng, iv)), f2h(st)))
            elif k < 0.74: ops.append("assign " + x)
            elif k < 0.84: ops.append("below " + x)
            elif k < 0.94: ops.append("above " + x)
            elif k < 0.98: ops.append("mid")
            elif k < 0.99: ops.append("save")
            else: ops.append("restore %d" % rng.randint(0, 1))
        cases.append(" ; ".join([init] + ops))
    return cases

# ------------------------------------------------------------------------------------------------
# family 3/4: Context::try_set_min / try_set_max

def gen_ctxf(tier, rng):
    n = 16000 if tier == "quick" else 500000
    cases = []
    for _ in range(n):
        iv = interval(rng)
        a, b, st = iv
        if rng.random() < 0.2:
            init = "f %s %s" % (f2h(a), f2h(b))
            w = abs(b - a)
            stn = w / 512 if w >= 1048576 else 32.0 if w >= 16384 else 1.0 if w >= 512 else 0.03125 if w >= 16 else 0.0009765625 if w >= 0.5 else 0.00000095367432 if w >= 0.00048828125 else 0.00000000093132257
            cur = [min(a, b), max(a, b), stn]
        else:
            if rng.random() < 0.03:
                a, b = b, a
            init = "fs %s %s %s" % (f2h(a), f2h(b), f2h(st))
            cur = [a, b, st]
        ops = []
        for _ in range(rng.randint(1, 6)):
            x = near(rng, tuple(cur))
            k = rng.random()
            if k < 0.42:
                ops.append("minf " + f2h(x))
                if x == x and cur[0] < x <= cur[1]: cur[0] = x
            elif k < 0.84:
                ops.append("maxf " + f2h(x))
                if x == x and cur[0] <= x < cur[1]: cur[1] = x
            else:
                if x != x or math.isinf(x): x = 0.0
                c = max(-2**31, min(2**31 - 1, sround(x) + rng.randint(-1, 1)))
                ops.append(("mini %d" if k < 0.92 else "maxi %d") % c)
        cases.append(" ; ".join([init] + ops))
    return cases

def gen_ctxf_huge(tier, rng):
    """magnitudes where ulp(value) is comparable with or larger than the step (outside Magn): the
    region in which the rounding-dependent statements are refuted"""
    n = 4000 if tier == "quick" else 100000
    cases = []
    for _ in range(n):
        st = rng.choice([1e-6, 1e-3, 1e-9, 1e-1, 1e-12, 0.0009765625, 0.00000095367432])
        mag = st * 2.0 ** rng.uniform(49, 56)
        a = rng.choice([-1, 1]) * mag
        w = rng.choice([st * rng.randint(1, 50), abs(a) * 2.0 ** -rng.randint(40, 52) * rng.randint(1, 9), st * 1e6])
        b = a + w
        cur = (a, b, st)
        init = "fs %s %s %s" % (f2h(a), f2h(b), f2h(st))
        ops = []
        for _ in range(rng.randint(1, 4)):
            x = nudge(rng.choice([a, b, a + w * rng.random()]), rng.randint(-6, 6))
            ops.append(rng.choice(["minf ", "maxf "]) + f2h(x))
        cases.append(" ; ".join([init] + ops))
    return cases

def gen_ctx_int(tier, rng):
    n = 4000 if tier == "quick" else 100000
    cases = []
    for sp in SPECIALS:
        for op in ("minf", "maxf"):
            cases.append("i -5 5 ; %s %s" % (op, f2h(sp)))
            cases.append("i -2147483648 -2147483640 ; %s %s" % (op, f2h(sp)))
            cases.append("i 2147480000 2147483000 ; %s %s" % (op, f2h(sp)))
    for _ in range(n):
        lo = rng.choice([rng.randint(-8, 8), rng.randint(-1000, 1000), rng.randint(-2**31, 2**31 - 40000), -2**31, 2**31 - 40000])
        hi = min(2**31 - 2000, lo + rng.choice([0, 1, 2, 5, 10, 1000, 20000]))
        ops = []
        for _ in range(rng.randint(1, 6)):
            r = rng.random()
            base = rng.choice([lo, hi, rng.randint(lo, hi)])
            if r < 0.5: x = base + rng.choice([0, 0.25, 0.5, 0.75, -0.25, -0.5, -0.75, 1, -1, 1e-9, -1e-9])
            elif r < 0.7: x = nudge(float(base), rng.randint(-2, 2))
            elif r < 0.8: x = rng.choice(SPECIALS)
            else: x = base + rng.uniform(-3, 3)
            ops.append(rng.choice(["minf ", "maxf "]) + f2h(x))
        cases.append(" ; ".join(["i %d %d" % (lo, hi)] + ops))
    return cases

# ------------------------------------------------------------------------------------------------
# normalisation, non-triviality, judges

def normal(s):
    return "PANIC" if s.startswith("PANIC") else s

def nt_fi(case, impl):
    return True

def nt_ctx(case, impl):
    return " ev=1" in impl or "fail" in impl

def parse_ctx_steps(out):
    """[(op, arg, before(min,max,step hex), after or None, ret, ev)] from an output line (ops are echoed)"""
    parts = out.split(" / ")
    st = parts[0].split()
    res = []
    for p in parts[1:]:
        t = p.split()
        if t[2] == "fail":
            res.append((t[0], t[1], st, None, None, None)); break
        after = t[3:6]
        ret = t[6].split("=")[1]; ev = t[7].split("=")[1]
        res.append((t[0], t[1], st, after, ret, ev))
        st = after
    return res

TWO50 = Fraction(2) ** -50

def judge_ctxf_steps(out):
    """first property failure on a float variable: (step index, reason) or None; exact rationals"""
    if out.startswith("PANIC") or out in ("MISSING", "HANG") or out.startswith("CRASH"):
        return (0, "implementation panicked/crashed: " + out[:80])
    for idx, (op, arg, before, after, ret, ev) in enumerate(parse_ctx_steps(out)):
        mn, mx, st = (h2q(h) for h in before)
        v = h2q(arg) if op in ("minf", "maxf") else Fraction(int(arg))
        if None in (mn, mx, st, v) or st <= 0 or mn > mx:
            if after is not None and None in [h2q(h) for h in after] and None not in (mn, mx, st):
                return (idx, "finite interval became non-finite")
            continue   # property quantifies over finite, non-inverted intervals with a positive step and finite bounds
        ismin = op in ("minf", "mini")
        if after is None:
            # failing is legitimate only when no value >= v (<= v) is left
            if ismin and not v > mx: return (idx, "failed although max >= v")
            if (not ismin) and not v < mn: return (idx, "failed although min <= v")
            continue
        nmn, nmx, nst = (h2q(h) for h in after)
        if None in (nmn, nmx):
            return (idx, "finite interval became non-finite")
        if after[2] != before[2]: return (idx, "step changed")
        if nmn < mn or nmx > mx: return (idx, "interval widened")
        if ismin and after[1] != before[1]: return (idx, "try_set_min moved max")
        if (not ismin) and after[0] != before[0] and not (op == "maxf" and v < mn): return (idx, "try_set_max moved min")
        if nmn > nmx:
            if op in ("mini", "maxi") and h2f(after[0]) <= h2f(after[1]) + h2f(after[2]) / 2.0 and h2f(after[1]) >= h2f(after[0]) - h2f(after[2]) / 2.0:
                return (idx, "INT-TOL inverted interval without failing: int bound on a float variable accepted within step/2 beyond the opposite bound")
            return (idx, "inverted interval without failing")
        changed = (after[0] != before[0]) or (after[1] != before[1])
        if (ev == "1") != changed: return (idx, "event=%s but changed=%s" % (ev, changed))
        if ret != (after[0] if ismin else after[1]): return (idx, "returned bound is not the new bound")
        slack = st * (1 + TWO50) + abs(v) * TWO50
        if ismin and nmn > mn and nmn > v + slack: return (idx, "removed values more than one step above v")
        if (not ismin) and nmx < mx and nmx < v - slack: return (idx, "removed values more than one step below v")
    return None

def split_ctxf(model_line):
    """Known class of a case = the first property failure *as computed on the model's own output* lies at
    a step outside Magn (flags printed by the extracted magn_op_b).  A failure at a step inside Magn is
    class-less, hence a VIOLATION."""
    if " ||| " not in model_line:
        return model_line, None, None
    m, s = model_line.split(" ||| ", 1)
    if s.startswith("BAD:"):
        s = s.split(" ", 1)[1]
    flags = s.split("=", 1)[1] if "=" in s else ""
    cls = None
    try:
        r = judge_ctxf_steps(m)
    except Exception:
        r = None
    if r is not None:
        idx = r[0]
        if r[1].startswith("INT-TOL"):
            cls = "int_bound_tol_invert"
        elif idx < len(flags) and flags[idx] == "0":
            cls = "outside_magn"
    return m, s, cls

def prop_judge_ctxf(case, impl, spec):
    try:
        r = judge_ctxf_steps(impl)
    except Exception as e:
        return "unparsable implementation output (%s)" % e
    return None if r is None else "step %d (%s): %s" % (r[0], "inside Magn" if ("=" in spec and r[0] < len(spec.split("=",1)[1]) and spec.split("=",1)[1][r[0]] == "1") else "outside Magn", r[1])

def judge_ctx_int(case, impl, spec):
    parts = impl.split(" / ")
    if impl.startswith("PANIC"): return "panic"
    lo, hi = map(int, parts[0].split())
    for p in parts[1:]:
        o = p.split()[:2]
        p = " ".join(p.split()[2:])
        x = h2f(o[1])
        if x != x: want = 0
        elif math.isinf(x): want = 2**31 - 1 if x > 0 else -2**31
        else:
            q = Fraction(x)
            want = math.ceil(q) if o[0] == "minf" else math.floor(q)
            want = max(-2**31, min(2**31 - 1, want))
        if o[0] == "minf":
            exp = None if want > hi else (max(lo, want), hi)
        else:
            exp = None if want < lo else (lo, min(hi, want))
        if p == "fail":
            if exp is not None: return "failed but values remain"
            return None
        t = p.split()
        nlo, nhi = int(t[1]), int(t[2])
        if exp is None or (nlo, nhi) != exp: return "bounds %s, expected %s" % ((nlo, nhi), exp)
        ev = t[4].split("=")[1]
        if (ev == "1") != ((nlo, nhi) != (lo, hi)): return "event mismatch"
        lo, hi = nlo, nhi
    return None

def judge_fi(case, impl, spec):
    """primitives stay inside [min,max] (finite, non-inverted interval, positive step, finite argument)
    and next/prev are monotone; remove_below/above never widen"""
    if impl.startswith("PANIC") or " / " not in impl and len(impl.split()) != 3:
        return None
    ops = [p.split() for p in case.split(";")[1:] if p.strip()]
    parts = impl.split(" / ")
    st = parts[0].split()
    for o, p in zip(ops, parts[1:]):
        t = p.split()
        after, r = t[0:3], t[3].split("=", 1)[1]
        mn, mx, sp = (h2q(h) for h in st)
        ok_iv = None not in (mn, mx, sp) and sp > 0 and mn <= mx
        x = h2q(o[1]) if len(o) > 1 and len(o[1]) == 16 else None
        if ok_iv and o[0] in ("round", "floor", "ceil", "mid"):
            q = h2q(r)
            if (o[0] == "mid" or x is not None) and (q is None or q < mn or q > mx):
                return "%s result outside [min,max]" % o[0]
        if ok_iv and o[0] in ("next", "prev") and x is not None and mn <= x <= mx:
            q = h2q(r)
            if q is None or q < mn or q > mx:
                return "%s result outside [min,max]" % o[0]
            if o[0] == "next" and q < x:
                return "next(x) < x"
            if o[0] == "prev" and q > x: return "prev(x) > x"
        if ok_iv and o[0] in ("below", "above") and x is not None:
            nmn, nmx = h2q(after[0]), h2q(after[1])
            if nmn is None or nmx is None: return "finite interval became non-finite"
            if nmn < mn or nmx > mx: return "%s widened the interval" % o[0]
        st = after
    return None

def split_plain(model_line):
    # model output only; the judge needs a non-None spec part to be called
    return model_line, "judge", None

FAMILIES = [
    Family("arith_layer", "fi", gen_arith, normal=normal),
    Family("fi_methods", "fi", gen_fi, normal=normal, split=split_plain, prop_judge=judge_fi),
    Family("ctx_float", "ctxf", gen_ctxf, normal=normal, nontrivial=nt_ctx, split=split_ctxf, prop_judge=prop_judge_ctxf),
    Family("ctx_float_huge", "ctxf", gen_ctxf_huge, normal=normal, nontrivial=nt_ctx, split=split_ctxf, prop_judge=prop_judge_ctxf),
    Family("ctx_int_floatbound", "ctxf", gen_ctx_int, normal=normal, nontrivial=nt_ctx, split=split_plain, prop_judge=judge_ctx_int),
]

