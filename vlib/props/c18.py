"""C18 — the specialised Sudoku solver returns a valid completion whenever one exists (and agrees with the general solver)."""
import os, re
from .. import core
from ..core import Family, log

PROPERTY_FILES = ["C18"]
TRUSTED_BASE = [
    "Coq 8.16.1 kernel (coqc full .vo build); vm_compute used only for closed facts about the 27 units (membership tables) and the refutation/non-vacuity examples",
    "hand-written model coq/Model/Sudoku.v of src/solvers/sudoku.rs (SudokuSolver::new, update_candidates/is_candidate_valid, apply_naked_singles, apply_hidden_singles, apply_naked_pairs, the range test (has_invalid_clue) and the <=11-round loop of solve, verify_solution, parse_string, solve_sudoku, solve_sudoku_string) and of the part of ModelValidator::validate such a model can reach (modelled, not verified); tied by this run's differential: returned grid compared EXACTLY, plus the candidate table after new(), the result and table after one apply_advanced_techniques(), and the Eq propagators it posted (read off the Debug rendering of the solver, in posting order)",
    "engine, alldiff and equality propagators: coq/Model/{Propagate,Search,Limits}.v, Model/Props/{AllDiff,Basic}.v, Model/Gac.v (tied by C01-C05/C15/C19); Model::solve = Search.solve fifo (root LP step never runs in Enumerate mode without objective)",
    "the executable model stops at the first solution (first_solution = the limit-free instance of Limits.solve_lim); solve_sudoku_exec_eq proves it equal to Search.solve",
    "extraction: ExtrOcamlBasic + ExtrOcamlNatInt, no Extract Constant of our own; OCaml driver ocaml/sudoku_cmd.ml; Rust harness harness/src/sudoku.rs (debug build: debug_assert! active; the raw grids `g:` of the malformed family are also run on the --release build and must give the same compared line)",
    "specification side: 'the clues admit a completion' is decided by the model's own search, which sudoku_sound/sudoku_complete/sudoku_none_sound prove to be exactly that; every `sat` is certified by checking the model's grid with the extracted valid_sudokub/agreesb; an independent exhaustive python solver (bitmask backtracking) re-decides every case and any disagreement is reported as a failure; validity of the IMPLEMENTATION's grid is judged in python",
]
ASSUMPTIONS = [
    "no time (60 s default) or memory limit fires inside Model::solve: solve_sudoku maps every SolverError to None, so a timeout would be indistinguishable from 'no completion' (limits are C15); generated puzzles the debug-build implementation needs more than MS_LIMIT ms for are dropped (logged; none in practice: random puzzles take 1-40 ms), the thorough tier adds the repository's hard examples (17-clue 'platinum': ~18 s) unfiltered",
    "i32 modelled as unbounded Z",
]
RULE = ("case = 81-character puzzle string (or raw grid `g:`/malformed string `s:`): puzzles obtained from seeded random solved grids by clue removal to 17..60 clues, "
        "locally minimal unique-solution puzzles, multi-solution puzzles with 0..16 clues, contradictory clue sets (duplicate in row/column/box, a cell with no candidate, "
        "deep contradictions found by changing one clue of a solvable puzzle, random conflict-free clue sets), malformed inputs incl. raw grids with cells outside 0..9 (no completion: the answer must be none, in the debug and in the release build, and nothing may panic); the implementation's grid must equal the model's grid exactly; "
        "a returned grid must be a valid Sudoku agreeing with the clues, a grid must be returned iff a completion exists, the general solver (81 int(1,9), 27 alldiff, clue equalities, Model::solve) "
        "must give the same verdict; non-trivial = the puzzle has at least one empty cell and the front end or the search had to work (not every case is trivial: families report counts)")

# ------------------------------------------------------------------------------------------ sudoku helpers (python side)
ROWS = [[r * 9 + c for c in range(9)] for r in range(9)]
COLS = [[r * 9 + c for r in range(9)] for c in range(9)]
BOXES = [[(br * 3 + r) * 9 + bc * 3 + c for r in range(3) for c in range(3)] for br in range(3) for bc in range(3)]
UNITS = ROWS + COLS + BOXES
PEERS = [sorted(set(j for u in UNITS if i in u for j in u) - {i}) for i in range(81)]

def parse_grid(s):
    """'534...' or '5,3,4,...' -> list of ints, or None"""
    s = s.strip()
    if "," in s:
        try: v = [int(t) for t in s.split(",")]
        except ValueError: return None
    else:
        if not re.fullmatch(r"[0-9]+", s): return None
        v = [int(ch) for ch in s]
    return v if len(v) == 81 else None

def valid_grid(g):
    if g is None or len(g) != 81 or any(v < 1 or v > 9 for v in g): return False
    return all(len(set(g[i] for i in u)) == 9 for u in UNITS)

def agrees(p, g):
    return all(p[i] == 0 or p[i] == g[i] for i in range(81))

class Budget(Exception):
    pass

def py_solve(p, limit=1, rng=None, budget=300000):
    """exhaustive bitmask backtracking with minimum-remaining-values; returns up to `limit` completions, or None when
    the search budget (number of assignments tried) is exhausted before the answer is known"""
    if any(v < 0 or v > 9 for v in p): return []
    cand = [0x1ff] * 81
    grid = [0] * 81
    def assign(i, d, trail):
        grid[i] = d
        bit = 1 << (d - 1)
        for j in PEERS[i]:
            if grid[j] == 0 and cand[j] & bit:
                cand[j] &= ~bit; trail.append(j)
                if cand[j] == 0: return False
            elif grid[j] == d: return False
        return True
    for i in range(81):
        if p[i]:
            if not (cand[i] >> (p[i] - 1)) & 1: return []
            if not assign(i, p[i], []): return []
    sols = []
    left = [budget]
    def rec():
        best, bc = -1, 10
        for i in range(81):
            if grid[i] == 0:
                n = bin(cand[i]).count("1")
                if n < bc:
                    best, bc = i, n
                    if n <= 1: break
        if best < 0:
            sols.append(list(grid)); return len(sols) >= limit
        if bc == 0: return False
        ds = [d for d in range(1, 10) if (cand[best] >> (d - 1)) & 1]
        if rng: rng.shuffle(ds)
        for d in ds:
            left[0] -= 1
            if left[0] < 0: raise Budget()
            trail = []
            bit = 1 << (d - 1)
            ok = assign(best, d, trail)
            if ok and rec(): return True
            grid[best] = 0
            for j in trail: cand[j] |= bit
        return False
    try:
        rec()
    except Budget:
        return sols if len(sols) >= limit else None
    return sols

def random_solved(rng):
    """a uniformly shuffled backtracking fill (not a permutation of one base grid)"""
    s = py_solve([0] * 81, 1, rng)
    return s[0]

def to_str(p):
    return "".join(str(v) if v else "." for v in p)

def remove_to(rng, g, k):
    keep = set(rng.sample(range(81), k))
    return [g[i] if i in keep else 0 for i in range(81)]

def minimal_unique(rng, g, floor=0):
    p = list(g)
    order = list(range(81)); rng.shuffle(order)
    n = 81
    for i in order:
        if n <= floor: break
        v = p[i]; p[i] = 0
        r = py_solve(p, 2)
        if r is None or len(r) != 1: p[i] = v
        else: n -= 1
    return p

def repo_examples():
    """9x9 literals in /repo/examples/sudoku.rs and 81-character strings in the sources/tests"""
    out = []
    for rel in ("examples/sudoku.rs", "src/solvers/sudoku.rs", "tests/main_tests.rs"):
        fp = os.path.join(core.REPO, rel)
        if not os.path.exists(fp): continue
        src = open(fp).read()
        rows = re.findall(r"\[\s*(\d\s*,\s*\d\s*,\s*\d\s*,\s*\d\s*,\s*\d\s*,\s*\d\s*,\s*\d\s*,\s*\d\s*,\s*\d)\s*\]", src)
        rows = [[int(t) for t in r.split(",")] for r in rows]
        for k in range(0, len(rows) - 8, 9):
            out.append(to_str(sum(rows[k:k + 9], [])))
        out += [s.replace("0", ".") for s in re.findall(r'"([0-9.]{81})"', src)]
    seen, res = set(), []
    for s in out:
        if s not in seen: seen.add(s); res.append(s)
    return res

MS_LIMIT = {"quick": 150.0, "thorough": 1000.0}

def node_filter(tier, cands, want):
    """keep the first `want` candidates that the implementation (debug build) decides within MS_LIMIT ms.  Randomly
    generated solvable puzzles take 1-40 ms; unsolvable clue sets without a direct conflict can take seconds to minutes
    (the alldiff propagator is bounds-only, so the search has to exhaust), and the extracted model is about 10x slower
    than the debug build, so those are dropped (logged).  Each candidate is probed in its own process (`sudokun`
    sub-command) killed at the limit; which candidates are near the limit may vary from run to run, the verdict on
    every kept case does not depend on it."""
    import subprocess
    from concurrent.futures import ThreadPoolExecutor
    if not cands: return []
    exe = core.harness_exe()
    lim = MS_LIMIT[tier]
    def probe(c):
        try:
            q = subprocess.run([exe, "sudokun"], input=c + "\n", stdout=subprocess.PIPE, stderr=subprocess.PIPE, text=True, timeout=lim / 1000.0 + 0.25)
            m = re.search(r"ms=([\d.]+)", q.stdout)
            return bool(m) and float(m.group(1)) <= lim
        except subprocess.TimeoutExpired:
            return False
    with ThreadPoolExecutor(max_workers=core.NPROC) as ex:
        oks = list(ex.map(probe, cands))
    keep = [c for c, ok in zip(cands, oks) if ok][:want]
    dropped = sum(1 for ok in oks if not ok)
    if dropped: log("[C18] difficulty filter dropped %d of %d candidate puzzles (> %d ms)" % (dropped, len(cands), lim))
    return keep

# ------------------------------------------------------------------------------------------ families
def gen_removal(tier, rng):
    n = 60 if tier == "quick" else 900
    c = []
    for t in range(int(n * 1.6)):
        g = random_solved(rng)
        k = 17 + (t * 7) % 44           # 17..60 clues
        c.append(to_str(remove_to(rng, g, k)))
    return node_filter(tier, c, n)

def gen_minimal(tier, rng):
    n = 12 if tier == "quick" else 300
    c = []
    for t in range(int(n * 2)):
        g = random_solved(rng)
        c.append(to_str(minimal_unique(rng, g, floor=rng.choice([0, 0, 26, 30, 34]))))
    return node_filter(tier, c, n)

def gen_multi(tier, rng):
    n = 20 if tier == "quick" else 300
    c = ["." * 81]
    for t in range(int(n * 1.5)):
        g = random_solved(rng)
        c.append(to_str(remove_to(rng, g, t % 17)))
    return node_filter(tier, c, n)

def gen_contra(tier, rng):
    n = 40 if tier == "quick" else 420
    c = []
    while len(c) < n * 2:
        g = random_solved(rng)
        kind = len(c) % 9
        p = remove_to(rng, g, rng.randint(5, 50))
        if kind == 0:       # duplicate clue in a unit (both given)
            u = rng.choice(UNITS); i, j = rng.sample(u, 2)
            p[i] = g[i]; p[j] = g[i]
        elif kind == 1:     # a cell with no candidate: its peers carry all nine digits, no direct duplicate
            i = rng.randrange(81)
            p = [0] * 81
            peers = list(PEERS[i]); rng.shuffle(peers)
            need = set(range(1, 10))
            for j in peers:
                if g[j] in need:
                    p[j] = g[j]; need.discard(g[j])
            # g itself puts g[i] on cell i, so one digit is missing among the peers' own values: force it with a foreign clue
            for j in peers:
                if p[j] == 0 and all(p[k] != g[i] for k in PEERS[j]):
                    p[j] = g[i]; break
        elif kind == 2:     # deep contradiction: change one clue to a value without direct conflict
            p = remove_to(rng, g, rng.randint(24, 45))
            cl = [i for i in range(81) if p[i]]
            rng.shuffle(cl)
            for i in cl:
                opts = [d for d in range(1, 10) if d != p[i] and all(p[k] != d for k in PEERS[i])]
                if opts:
                    q = list(p); q[i] = rng.choice(opts)
                    if py_solve(q, 1) == []: p = q; break
        elif kind == 3:     # random conflict-free clue set (satisfiable or not)
            p = [0] * 81
            for i in rng.sample(range(81), rng.randint(18, 34)):
                opts = [d for d in range(1, 10) if all(p[k] != d for k in PEERS[i])]
                if opts: p[i] = rng.choice(opts)
        elif kind == 4:     # add one wrong clue to a solvable puzzle (may conflict directly)
            e = [i for i in range(81) if p[i] == 0]
            if e:
                i = rng.choice(e); p[i] = rng.choice([d for d in range(1, 10) if d != g[i]])
        elif kind == 6:     # a COMPLETE grid with one clue overwritten (every unit fully given: nothing is left to decide)
            p = list(g); i = rng.randrange(81); p[i] = rng.choice([d for d in range(1, 10) if d != g[i]])
        elif kind == 7:     # almost complete grid: a few cells open, one clue overwritten inside units that stay fully given
            p = list(g)
            opened = rng.sample(range(81), rng.randint(2, 6))
            for k in opened: p[k] = 0
            full = [i for i in range(81) if p[i] and all(p[k] for k in PEERS[i])]
            if full:
                i = rng.choice(full); p[i] = rng.choice([d for d in range(1, 10) if d != g[i]])
        elif kind == 8:     # only one band (three rows) given, two vertically adjacent clues of a column exchanged
            b = rng.randrange(3); p = [0] * 81
            for r in range(3 * b, 3 * b + 3):
                for cc in range(9): p[9 * r + cc] = g[9 * r + cc]
            cc = rng.randrange(9); r = 3 * b + rng.randrange(2)
            p[9 * r + cc], p[9 * (r + 1) + cc] = p[9 * (r + 1) + cc], p[9 * r + cc]
        else:               # hidden contradiction: a digit that has no place left in a unit
            u = rng.choice(UNITS); d = rng.randint(1, 9)
            p = [0] * 81
            for i in u:
                if g[i] == d: continue
                for k in PEERS[i]:
                    if g[k] == d and k not in u: p[k] = d
            # the cell of u where g has d gets another value
            i0 = [i for i in u if g[i] == d][0]
            opts = [x for x in range(1, 10) if x != d and all(p[k] != x for k in PEERS[i0])]
            if opts: p[i0] = rng.choice(opts)
        c.append(to_str(p))
    return node_filter(tier, c, n)

def gen_malformed(tier, rng):
    base = "530070000600195000098000060800060003400803001700020006060000280000419005000080079"
    c = ["s:", "s:" + base[:80], "s:" + base + "1", "s:" + base[:40] + "x" + base[41:], "s:" + base[:40] + " " + base[41:],
         "s:" + base[:79] + "é", "s:" + base[:80] + "é", "s:" + "." * 80, "s:" + "0" * 82, "s:" + base[:30] + "-" + base[31:],
         "s:" + base.replace("0", "."), "s:" + base[:10] + "A" + base[11:], "s:" + "1" * 81, "s:" + "." * 81]
    n = 10 if tier == "quick" else 60
    for _ in range(n):
        s = list(base)
        for _ in range(rng.randint(1, 3)):
            s[rng.randrange(81)] = rng.choice("abcXYZ,;:-_ *+/")
        c.append("s:" + "".join(s))
        L = rng.choice([0, 1, 9, 79, 80, 82, 83, 162])
        c.append("s:" + "".join(rng.choice("0123456789.") for _ in range(L)))
    # raw grids with cells outside 0..9 (the former class kf_clue_out_of_range, repaired: SudokuSolver::solve answers none
    # before any search, so sparse grids are as cheap as full ones for the implementation and for the model; the witnesses
    # of the class are corpus cases, corpus/sudoku.malformed.cases)
    for t in range(8 if tier == "quick" else 60):
        g = random_solved(rng)
        p = remove_to(rng, g, rng.choice([0, 1, 5, 17]) if t % 4 == 3 else rng.randint(20, 81))
        for _ in range(rng.randint(1, 3)):
            p[rng.randrange(81)] = rng.choice([10, 11, 16, 17, 32, 33, -1, -5, -15, -16, -31, 100, 1000, 65536, 2147483647, -2147483648])
        c.append("g:" + ",".join(str(v) for v in p))
    # an otherwise empty grid with the foreign value in the first / the last cell, incl. the i32 extremes
    for v in ([10, -1, 2147483647] if tier == "quick" else [10, 11, -1, -7, 100, 2147483647, -2147483648]):
        c.append("g:" + ",".join([str(v)] + ["0"] * 80))
        c.append("g:" + ",".join(["0"] * 80 + [str(v)]))
    # raw grids inside the domain (same route as solve_sudoku on an array)
    for _ in range(4 if tier == "quick" else 30):
        g = random_solved(rng)
        c.append("g:" + ",".join(str(v) for v in remove_to(rng, g, rng.randint(30, 60))))
    return c

def gen_examples(tier, rng):
    ex = repo_examples()
    if tier == "quick":
        return node_filter(tier, ex, len(ex))
    return ex

# ------------------------------------------------------------------------------------------ judging
STATS = {"py_unknown": 0}
def fields(line):
    d = {}
    for part in line.split(" # ")[0].split(" ; "):
        if "=" in part:
            k, v = part.split("=", 1); d[k.strip()] = v.strip()
    ex = line.split(" # ", 1)[1] if " # " in line else ""
    for t in ex.split():
        if "=" in t:
            k, v = t.split("=", 1); d["x_" + k] = v
    return d

def case_puzzle(case):
    if case.startswith("g:"):
        try: return [int(t) for t in case[2:].split(",")]
        except ValueError: return None
    s = case[2:] if case.startswith("s:") else case
    if len(s.encode()) != 81 or not re.fullmatch(r"[0-9.]{81}", s): return None
    return [0 if ch in ".0" else int(ch) for ch in s]

def corr(case, impl, mpart):
    return mpart is not None and impl.split(" # ")[0] == mpart

REL = {}        # raw-grid case -> output of the --release harness (filled by prejudge_release, malformed family)
def prejudge_release(cases, impl, model):
    """second profile for the raw grids (the only inputs that can carry cells outside 0..9): debug_assert!s are off
    and shifts wrap there, so 'no panic in the debug build' does not by itself say what a release build answers"""
    raw = [c for c in cases if c.startswith("g:")]
    if not raw: return
    with core.Lock():
        ok, out = core.build_harness(release=True)
    if not ok:
        log("[C18] release harness build failed:\n" + out[-2000:])
        for c in raw: REL[c] = "MISSING (release harness build failed)"
        return
    rel = core.run_lines(core.harness_exe(release=True), "sudoku", raw)
    for c, o in zip(raw, rel):
        REL[c] = o if o is not None else "MISSING"
    STATS["release_cases"] = STATS.get("release_cases", 0) + len(raw)

def judge(case, impl, spec):
    p = case_puzzle(case)
    if impl.startswith("PANIC") or impl in ("MISSING", "HANG") or impl.startswith("CRASH"):
        return "the implementation did not return: " + impl[:80]
    f = fields(impl)
    if p is None:
        if spec.split()[0] != "parse-err": return "specification side parsed a malformed string"
        if f.get("parse") != "err": return "parse_string accepted a malformed string"
        if f.get("str") != "none": return "solve_sudoku_string returned a grid for a malformed string"
        return None
    if case.startswith("g:"):
        if f.get("parse") != "-": return "unexpected parse field"
    elif f.get("parse") != "ok": return "parse_string rejected a well-formed string"
    res, gen = f.get("res"), f.get("gen")
    in_range = all(0 <= v <= 9 for v in p)
    want = spec.split()[0]
    if "SPECSPLIT" in spec: return "specialised and general MODEL disagree on the verdict (contradicts agrees_general_solver)"
    if want not in ("sat", "unsat"): return "specification side gave no verdict: " + spec
    pys = py_solve(p, 1) if in_range else []
    if pys is None: STATS["py_unknown"] += 1       # independent search gave up (budget): no cross-check on this case
    elif (want == "sat") != bool(pys): return "independent python search disagrees with the model's verdict (%s vs %s)" % (want, "sat" if pys else "unsat")
    if res != "none":
        g = parse_grid(res)
        if not valid_grid(g): return "returned grid is not a valid complete Sudoku"
        if not agrees(p, g): return "returned grid does not agree with the clues"
        if f.get("x_verify") != "1": return "verify_solution rejects a valid grid"
        if want == "unsat": return "a grid was returned although the specification says no completion exists"
    else:
        if want == "sat": return "none returned although the clues admit a completion"
    if gen.startswith("err"): return "the general solver returned an error: " + gen
    if (gen == "none") != (res == "none"): return "verdict differs from the general solver (special %s, general %s)" % (res[:12], gen[:12])
    if gen != "none":
        gg = parse_grid(gen)
        if not (valid_grid(gg) and agrees(p, gg)): return "the general solver returned an invalid grid"
    if f.get("str", "-") != "-" and f["str"] != res: return "solve_sudoku_string differs from solve_sudoku"
    if f.get("x_api", "-") not in ("-", "same"): return "SudokuSolver::new(p).solve().solution differs from solve_sudoku(p)"
    if case in REL and REL[case].split(" # ")[0] != impl.split(" # ")[0]:
        return "the release build answers differently from the debug build: " + REL[case][:120]
    if "SLOW" in impl: return "solve took more than 30 s (timeout of 60 s would be reported as none)"
    return None

def nontrivial(case, impl):
    p = case_puzzle(case)
    if p is None: return impl.startswith("perr")
    return any(v == 0 for v in p)

def fam(name, gen, prejudge=None):
    f = Family(name, "sudoku", gen, nontrivial=nontrivial, prop_judge=judge)
    f.corr = corr
    if prejudge: f.prejudge = prejudge
    return f

FAMILIES = [
    fam("clue_removal", gen_removal),
    fam("minimal_unique", gen_minimal),
    fam("multi_solution", gen_multi),
    fam("contradictory", gen_contra),
    fam("malformed", gen_malformed, prejudge_release),
    fam("repo_examples", gen_examples),
]
