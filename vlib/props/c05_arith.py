"""C05 (group Arith) — mul, mod, abs, minof, maxof: propagation removes only unsupported values; fails only if nothing is left.
Stand-alone check of the group: ./check C05_Arith --tier quick|thorough
(proof gate = coq/Properties/C05_Arith.v; the families can be merged into vlib/props/c05.py as for groups Global and Logic).

VERSIONS.  The model's main definitions for minof, maxof and mod transcribe the REPAIRED sources (fixes/minmax_step6.patch,
fixes/modulo_sound.patch).  Against a /repo WITHOUT those patches run with SELEN_ARITH_PREFIX=1 in the environment: the
driver then uses the `_prefix` models (sources at the pinned commit) and marks the cases on which the two versions differ
as known classes `minmax_step6` / `mod_prefix` (entries for known_findings.txt are in the integration note)."""
import re
from ..core import Family
from .. import plevel, plevel_arith
from . import c05 as base

TRUSTED_BASE = base.TRUSTED_BASE + [
    "group Arith: hand-written model coq/Model/Props/Arith.v of props/{abs,min,max,mul,modulo}.rs; tie ocaml/plevel_arith_cmd.ml "
    "(Rust side: the kinds mul, mod, abs, minof, maxof of harness/src/plevel.rs)",
    "int/int quotients of Mul go through f64 in the code and are exact rationals in the model (header of Model/Props/Arith.v: for "
    "|a|,|b| < 2^31 the f64 quotient has the same floor/ceil); exercised by the family arith_wide_domains, not proved",
]
ASSUMPTIONS = base.ASSUMPTIONS + [
    "operands of mul are plain variables or constants (composite views under mul are an extrapolation of the model, not generated)",
    "`sat` of modulo is y <> 0 /\\ s = x rem y (Rust %, sign of the dividend); of minof/maxof: list non-empty /\\ r = min/max",
]
RULE = base.RULE
nontrivial = base.nontrivial

def gen_exhaustive(tier, rng):
    return plevel_arith.exhaustive_cases(tier, plevel.subsets)

_ZERO_LIN = re.compile(r"\blin\w+ 0(,0)* ")
def _other_group_class(props):
    return any(_ZERO_LIN.search(p + " ") for p in props)

def rand_model(rng, maxprod=4000):
    nv, doms, _ = plevel.rand_model(rng, maxprops=0, maxprod=maxprod)
    props = []
    for _ in range(rng.randint(1, 3)):
        if rng.random() < 0.7:
            props.append(plevel_arith.rand_prop(rng, nv))
        else:
            props.append(plevel.rand_prop(rng, nv, plevel.BASIC_KINDS, ()))
    return nv, doms, props

def gen_random(tier, rng):
    n = 6000 if tier == "quick" else 150000
    cases = []
    for _ in range(n):
        nv, doms, props = rand_model(rng)
        if _other_group_class(props): continue
        c = " ; ".join(["|".join(doms)] + props)
        if rng.random() < 0.3: c += " ; sched %d" % rng.randint(1, 10**6)
        cases.append(c)
    return cases

def gen_random_nosched(tier, rng):
    return [c.split(" ; sched")[0] for c in gen_random(tier, rng)]

def gen_wide(tier, rng):
    return plevel_arith.wide_cases(rng, 6000 if tier == "quick" else 100000)

def gen_random_solve(tier, rng):
    n = 1500 if tier == "quick" else 30000
    cases = []
    for _ in range(n):
        nv, doms, props = rand_model(rng, maxprod=600)
        if _other_group_class(props): continue
        cases.append(" ; ".join(["|".join(doms)] + props) + " ; " + rng.choice(["enum", "enum", "first", "min x0", "max x0"]))
    return cases

FAMILIES = [
    Family("arith_exhaustive_domains", "prop", gen_exhaustive, nontrivial=nontrivial, prop_judge=plevel.judge_prop, exhaustive=True),
    Family("arith_random_models", "prop", gen_random, nontrivial=nontrivial, prop_judge=plevel.judge_prop),
    Family("arith_wide_domains", "prop", gen_wide, nontrivial=nontrivial, prop_judge=plevel.judge_prop),
    Family("arith_random_solve", "solve", gen_random_solve, prop_judge=plevel.judge_solve),
    # one call of prune per propagator, events included (no propagation loop): correspondence only
    Family("arith_single_prune", "prune1", gen_exhaustive, nontrivial=base.nontrivial_prune1, exhaustive=True),
    Family("arith_single_prune_random", "prune1", gen_random_nosched, nontrivial=base.nontrivial_prune1),
    Family("arith_single_prune_wide", "prune1", gen_wide, nontrivial=base.nontrivial_prune1),
]
