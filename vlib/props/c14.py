"""C14 — solution set independent of posting, declaration and propagation order."""
import random
from ..core import Family
from .. import plevel
from . import engine_common as ec
TRUSTED_BASE = ec.TB + ["propagation schedules are explored through hook H3 (seeded perturbation of Agenda::pop); the model's scheduler argument implements the same function, so perturbed runs are compared exactly"]
ASSUMPTIONS = ec.ASSUME
RULE = ("case = propagator-level model run under a seeded agenda perturbation and/or with its propagators permuted and/or with an "
        "implied constraint added; each run must equal the extracted model's sequence exactly and its solution SET / verdict / optimum "
        "must equal the brute-force one computed from the Coq `sat` (hence equal across all orders); non-trivial = at least one solution")
def gen_sched(tier, rng):
    return ec.gen_models(ec.entry_any, 8000, 400000, sched_frac=1.0)(tier, rng)
def rename_vars(case, rng):
    """the same model with its variables DECLARED in another order (consistent renaming of every xN)"""
    import re
    parts = case.split(" ; ")
    doms = parts[0].split("|")
    n = len(doms)
    perm = list(range(n)); rng.shuffle(perm)          # old index i becomes perm[i]
    nd = [None] * n
    for i, d in enumerate(doms): nd[perm[i]] = d
    ren = lambda m: "x%d" % perm[int(m.group(1))]
    return " ; ".join(["|".join(nd)] + [re.sub(r"\bx(\d+)\b", ren, p) for p in parts[1:]])
def gen_perm(tier, rng):
    from .. import plevel_global
    cases = []
    glob = ec.gen_models(ec.entry_any, 2500, 150000, kinds=plevel_global.KINDS + ["leq", "neq", "eq", "lineq"])(tier, rng)
    for c in ec.gen_models(ec.entry_any, 2500, 150000)(tier, rng) + glob + ec.structured(tier, rng):
        parts = c.split(" ; ")
        doms, props, entry = parts[0], parts[1:-1], parts[-1]
        for _ in range(2):
            p = props[:]; rng.shuffle(p)
            implied = []
            if rng.random() < 0.5:
                implied = ["leq x0 c:1000"]           # implied by the declared domains
            if rng.random() < 0.3 and props:
                implied.append(rng.choice(props))     # a duplicate is implied by the original
            extra = [" ; sched %d" % rng.randint(1, 10**6)] if rng.random() < 0.5 else [""]
            v = " ; ".join([doms] + p + implied + [entry])
            if rng.random() < 0.5 and "sched" not in v:
                v = rename_vars(v, rng)                # declaration order
            cases.append(v + extra[0])
    return cases
def gen_element_orders(tier, rng):
    """element(array, index, value) with array entries of one or two values from a small pool (so that the indices supporting a
    given value are NON-ADJACENT), index and value declared in either order, element posted before or after a constraint that
    narrows index / value: the propagator's two directions (from the index, from the value) must agree whatever runs first
    (seeded change C14c: only the first contiguous run of supporting indices was kept)"""
    cases = []
    for _ in range(2500 if tier == "quick" else 60000):
        n = rng.choice([3, 3, 4, 5])
        pool = rng.sample([-2, 0, 1, 3, 5, 9], rng.choice([2, 2, 3]))
        arr = []
        for _ in range(n):
            a = rng.choice(pool)
            arr.append(("%d..%d" % (a, a)) if rng.random() < 0.7 else ",".join(map(str, sorted(set([a, rng.choice(pool)])))))
        idx = "%d..%d" % (rng.choice([0, 0, -1]), n - 1 + rng.choice([0, 0, 1]))
        vals = sorted(set(rng.sample(pool + [7], rng.randint(1, len(pool)))))
        val = ",".join(map(str, vals)) if len(vals) > 1 else "%d..%d" % (vals[0], vals[0])
        order = rng.random() < 0.5
        doms = arr + ([idx, val] if order else [val, idx])
        ix, vx = (n, n + 1) if order else (n + 1, n)
        el = "element %s x%d x%d" % (",".join("x%d" % i for i in range(n)), ix, vx)
        others = []
        if rng.random() < 0.6: others.append(rng.choice(["neq x%d c:%d" % (ix, rng.randrange(n)), "geq x%d c:1" % ix, "leq x%d c:%d" % (ix, n - 2), "neq x%d x%d" % (ix, vx)]))
        if rng.random() < 0.4: others.append("neq x%d c:%d" % (vx, rng.choice(pool)))
        props = [el] + others
        rng.shuffle(props)
        c = " ; ".join(["|".join(doms)] + props + [rng.choice(["enum", "enum", "first", "max x%d" % ix])])
        if rng.random() < 0.4: c += " ; sched %d" % rng.randint(1, 10 ** 6)
        cases.append(c)
    return cases
def gen_count_orders(tier, rng):
    """count(vars, target, cnt) whose TARGET is a variable, with target / cnt declared before or after the counted variables (so
    that the search fixes the target first or last) and the count posted before or after a constraint that narrows one of them:
    the solution set must not depend on the declaration order -- it does if the propagator is not woken when the target is fixed
    (seeded change C14e: the target was dropped from Count's trigger variables)"""
    cases = []
    for _ in range(1500 if tier == "quick" else 40000):
        n = rng.choice([2, 3, 3, 4])
        pool = rng.sample([-1, 0, 1, 2, 3], rng.choice([2, 3]))
        xs = []
        for _ in range(n):
            vs = sorted(set(rng.sample(pool, rng.randint(1, len(pool)))))
            xs.append(",".join(map(str, vs)) if len(vs) > 1 else "%d..%d" % (vs[0], vs[0]))
        tv = sorted(set(rng.sample(pool + [7], rng.randint(2, 3))))
        tgt = ",".join(map(str, tv)); cnt = "%d..%d" % (rng.choice([0, 0, 1]), rng.choice([n, n, n - 1]))
        layout = rng.choice(["xtc", "txc", "ctx", "xct", "tcx"])
        doms, pos = [], {}
        for ch in layout:
            if ch == "x": pos["x"] = list(range(len(doms), len(doms) + n)); doms += xs
            elif ch == "t": pos["t"] = len(doms); doms.append(tgt)
            else: pos["c"] = len(doms); doms.append(cnt)
        props = ["count %s x%d x%d" % (",".join("x%d" % i for i in pos["x"]), pos["t"], pos["c"])]
        if rng.random() < 0.5: props.append(rng.choice(["neq x%d c:%d" % (pos["t"], rng.choice(tv)), "geq x%d c:1" % pos["c"], "neq x%d x%d" % (pos["x"][0], pos["t"]), "leq x%d c:%d" % (pos["c"], n - 1)]))
        rng.shuffle(props)
        c = " ; ".join(["|".join(doms)] + props + [rng.choice(["enum", "enum", "enum", "first", "max x%d" % pos["c"]])])
        if rng.random() < 0.4: c += " ; sched %d" % rng.randint(1, 10 ** 6)
        cases.append(c)
    return cases
def gen_wide_declarations(tier, rng):
    """the same small model with 60..140 inert one-value variables declared BETWEEN its variables (or before / after them):
    variable indices far apart, dependency rows far apart (seeded change C14d: a 64-bit "already registered" mask keyed by
    index mod 64 dropped the second of two trigger variables 64 apart, so the propagator slept)"""
    cases = []
    for _ in range(400 if tier == "quick" else 8000):
        k = rng.choice([2, 2, 3])
        doms = [rng.choice(["1..3", "0..2", "-1..1", "0,2,3"]) for _ in range(k)]
        gaps = [rng.choice([0, 0, 1, 62, 63, 64, 65, 127, 128]) for _ in range(k + 1)]
        decl, idx = [], []
        for i in range(k):
            decl += [("%d..%d" % (v, v)) for v in [rng.randint(-2, 2) for _ in range(gaps[i])]]
            idx.append(len(decl)); decl.append(doms[i])
        decl += ["0..0"] * gaps[k]
        props = []
        for _ in range(rng.choice([1, 2, 2])):
            a, b = rng.sample(idx, 2)
            props.append(rng.choice(["neq x%d x%d", "lt x%d x%d", "leq x%d x%d", "lineq 1,1 x%d,x%d 3", "linne 1,-1 x%d,x%d 0", "eq x%d x%d"]) % (a, b))
        if k == 3 and rng.random() < 0.5: props.append("alldiff " + ",".join("x%d" % i for i in idx))
        cases.append(" ; ".join(["|".join(decl)] + props + [rng.choice(["enum", "enum", "first", "min x%d" % idx[0]])]))
    return cases
FAMILIES = [
    Family("schedules", "solve", gen_sched, nontrivial=ec.nontrivial_solve, prop_judge=plevel.judge_solve),
    Family("permutations_implied", "solve", gen_perm, nontrivial=ec.nontrivial_solve, prop_judge=plevel.judge_solve),
    Family("element_orders", "solve", gen_element_orders, nontrivial=ec.nontrivial_solve, prop_judge=plevel.judge_solve),
    Family("count_orders", "solve", gen_count_orders, nontrivial=ec.nontrivial_solve, prop_judge=plevel.judge_solve),
    Family("wide_declarations", "solve", gen_wide_declarations, nontrivial=ec.nontrivial_solve, prop_judge=plevel.judge_solve),
]
