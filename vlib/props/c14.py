"""C14 — solution set independent of posting, declaration and propagation order."""
import random
from ..core import Family
from .. import plevel
from . import engine_common as ec
TRUSTED_BASE = ec.TB + ["propagation schedules are explored through hook H3 (seeded perturbation of Agenda::pop); the model's scheduler argument implements the same function, so perturbed runs are compared exactly"]
ASSUMPTIONS = ec.ASSUME
RULE = ("case = propagator-level model run under a seeded agenda perturbation and/or with its propagators permuted and/or with an "
        "implied constraint added; each run must equal the extracted model's sequence exactly and its solution SET / verdict / optimum "
        "must equal the brute-force one computed from the Coq `sat` (hence equal across all orders); non-trivial = at least one solution")
def gen_sched(tier, rng):
    return ec.gen_models(ec.entry_any, 8000, 400000, sched_frac=1.0)(tier, rng)
def gen_perm(tier, rng):
    cases = []
    for c in ec.gen_models(ec.entry_any, 800, 150000)(tier, rng) + ec.structured(tier, rng):
        parts = c.split(" ; ")
        doms, props, entry = parts[0], parts[1:-1], parts[-1]
        for _ in range(2):
            p = props[:]; rng.shuffle(p)
            implied = []
            if rng.random() < 0.5:
                implied = ["leq x0 c:1000"]           # implied by the declared domains
            if rng.random() < 0.3 and props:
                implied.append(rng.choice(props))     # a duplicate is implied by the original
            extra = [" ; sched %d" % rng.randint(1, 10**6)] if rng.random() < 0.5 else [""]
            cases.append(" ; ".join([doms] + p + implied + [entry]) + extra[0])
    return cases
FAMILIES = [
    Family("schedules", "solve", gen_sched, nontrivial=ec.nontrivial_solve, prop_judge=plevel.judge_solve),
    Family("permutations_implied", "solve", gen_perm, nontrivial=ec.nontrivial_solve, prop_judge=plevel.judge_solve),
]
