"""Shared families for the engine-level properties C01-C04, C14 (props-level core)."""
import random
from ..core import Family
from .. import plevel

TB = [
    "Coq 8.16.1 kernel (coqc full .vo build)",
    "hand-written model coq/Model/{Dom,Views,PropDefs,Propagate,Search}.v + Model/Props/*.v of views.rs, props/*.rs, search/{agenda,branch,mode,mod}.rs (modelled, not verified); tied by this run's differential: solution SEQUENCES of the extracted model and of selen::search::search are compared exactly, in order",
    "generic theorems hold for every propagator list satisfying the four local contracts (proved per kind in Properties/C05.v) — kinds outside that vocabulary are not covered",
    "the root LP step (search/mod.rs) and the optimisation fast path are switched off in the correspondence runs through hook H5; the fast path is NOT modelled, the root LP step (repaired, finding D10) is modelled as an oracle refinement in Model/LpRoot.v (Properties/C04.v lp_tentative_sound)",
    "extraction: ExtrOcamlBasic only, no Extract Constant; OCaml driver ocaml/plevel_cmd.ml incl. the brute-force oracle over the Coq `sat`; Rust harness harness/src/plevel.rs",
    "i32 modelled as unbounded Z (InRange)",
]
ASSUME = ["models are posted at the propagator level (Vars/Propagators doc-hidden API); the Model-level API and lowering are C10's subject",
          "no time or memory limit fires (C15)"]

def nontrivial_solve(case, impl):
    return impl.startswith("sols ") and impl != "sols -" or "fail" in impl

def gen_models(entry_fn, n_quick, n_thorough, sched_frac=0.0, kinds=None):
    def gen(tier, rng):
        n = n_quick if tier == "quick" else n_thorough
        cases = []
        for _ in range(n):
            nv, doms, props = plevel.rand_model(rng, kinds or (plevel.ALL_KINDS if rng.random() < 0.6 else plevel.BASIC_KINDS))
            e = entry_fn(rng, nv)
            c = " ; ".join(["|".join(doms)] + props + [e])
            if rng.random() < sched_frac:
                c += " ; sched %d" % rng.randint(1, 10**6)
            cases.append(c)
        return cases
    return gen

def gen_alldiff_wide(entry_fn, n_quick, n_thorough):
    """all-different over variables whose (small) domains sit in clusters far apart — joint span beyond 128 values, values at
    127/128/129 above the smallest, negative offsets — plus at most one extra basic constraint: the bit-set engine's masks,
    Hall-set unions and the hybrid engine's choice are exercised THROUGH solve/enumerate/optimise (seeded change C02c)"""
    def gen(tier, rng):
        cases = []
        for _ in range(n_quick if tier == "quick" else n_thorough):
            nv = rng.choice([3, 4, 4, 5, 6])
            base = rng.choice([0, 0, -5, -130, 1000])
            offs = [rng.choice([0, 0, 1, 100, 126, 127, 128, 129, 200, 255, 256, 300]) for _ in range(nv)]
            doms = []
            for o in offs:
                lo = base + o + rng.randint(-1, 1); w = rng.choice([0, 1, 1, 1, 2])
                doms.append("%d..%d" % (lo, lo + w))
            if rng.random() < 0.25:        # one WIDE variable (> 128 values): the hybrid engine keeps it out of the bit-set engine
                i = rng.randrange(nv); lo = base + rng.randint(-3, 3)
                doms[i] = "%d..%d" % (lo, lo + rng.randint(129, 210))
            xs = list(range(nv))
            if nv > 3 and rng.random() < 0.3: xs = rng.sample(xs, nv - 1)
            props = ["alldiff " + ",".join("x%d" % i for i in xs)]
            if rng.random() < 0.4:
                a, b = rng.sample(range(nv), 2)
                props.append(rng.choice(["leq x%d x%d", "neq x%d x%d", "lt x%d x%d"]) % (a, b))
            cases.append(" ; ".join(["|".join(doms)] + props + [entry_fn(rng, nv)]))
        return cases
    return gen

def entry_enum(rng, nv): return "enum"
def entry_first(rng, nv): return "first"
def entry_opt(rng, nv):
    v = plevel.rand_view(rng, nv, allow_const=False, depth=2)
    return "%s %s" % (rng.choice(["min", "max"]), v)
def entry_any(rng, nv):
    r = rng.random()
    return entry_enum(rng, nv) if r < 0.4 else entry_first(rng, nv) if r < 0.55 else entry_opt(rng, nv)

def structured(tier, rng):
    """n-queens, magic-square-like sums, knapsacks: structured families (props-level vocabulary)."""
    cases = []
    for n in ([4, 5] if tier == "quick" else [4, 5, 6]):
        doms = "|".join("0..%d" % (n - 1) for _ in range(n))
        props = []
        for i in range(n):
            for j in range(i + 1, n):
                props.append("linne 1,-1 x%d,x%d 0" % (i, j))
                props.append("linne 1,-1 x%d,x%d %d" % (i, j, j - i))
                props.append("linne 1,-1 x%d,x%d %d" % (i, j, i - j))
        cases.append(" ; ".join([doms] + props + ["enum"]))
        cases.append(" ; ".join([doms] + props + ["first"]))
        cases.append(" ; ".join([doms] + props + ["max x0"]))
    # knapsack
    for _ in range(10 if tier == "quick" else 60):
        k = rng.randint(2, 4)
        w = [rng.randint(1, 5) for _ in range(k)]; v = [rng.randint(1, 6) for _ in range(k)]
        cap = rng.randint(3, 10)
        doms = "|".join(["0..2"] * k + ["0..%d" % (2 * sum(v))])
        props = ["linle %s %s %d" % (",".join(map(str, w)), ",".join("x%d" % i for i in range(k)), cap),
                 "lineq %s,-1 %s,x%d 0" % (",".join(map(str, v)), ",".join("x%d" % i for i in range(k)), k)]
        cases.append(" ; ".join([doms] + props + ["max x%d" % k]))
        cases.append(" ; ".join([doms] + props + ["enum"]))
    return cases
