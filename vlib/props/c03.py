"""C03 — enumerate yields exactly the solution set, each solution once."""
from ..core import Family
from .. import plevel
from . import engine_common as ec
PROPERTY_FILES = ["C03", "C03_Stack"]
TRUSTED_BASE = ec.TB + ["Properties/C03_Stack.v: the explicit-stack machine (Model/EngineStack.v, an independent literal transcription of Engine::next and SplitOnUnassigned) is PROVED to yield exactly what the recursive dfs / dfs_lim yield, for every scheduler, mode, check interval, clock and memory limit (solutions in order, best, counters, stop reason, stack depth)"]
ASSUMPTIONS = ec.ASSUME
RULE = ("case = random or structured propagator-level model (1-5 variables with holes/negatives/singletons, 0-4 propagators with views) "
        "run through enumerate to exhaustion; the yielded sequence must equal the model's sequence exactly and, as a set without "
        "repetition, the brute-force solution set computed from the Coq `sat`; non-trivial = at least one solution or a failure; family enum_large: 10^4..10^5 assignments with no limit configured, far beyond the engine's periodic limit check")
def gen_large(tier, rng):
    """enumerations far beyond the engine's periodic limit check (every 10 000 loop turns, Generated/Consts.v
    engine_check_interval) with NO limit configured: the check must be a no-op, every right branch still on the stack must be
    explored.  4-6 variables, 10^4 .. 10^5 assignments, at most two loose constraints."""
    cases = []
    for _ in range(16 if tier == "quick" else 120):
        while True:
            nv = rng.choice([4, 5, 5, 6])
            sizes = [rng.choice([2, 3, 4, 6, 8, 10, 12]) for _ in range(nv)]
            prod = 1
            for z in sizes: prod *= z
            if 12000 <= prod <= 120000: break
        doms = []
        for z in sizes:
            lo = rng.randint(-4, 3); doms.append("%d..%d" % (lo, lo + z - 1))
        props = []
        for _ in range(rng.choice([0, 1, 1, 2])):
            a, b = rng.sample(range(nv), 2)
            props.append(rng.choice(["neq x%d x%d", "leq x%d x%d", "neq x%d x%d"]) % (a, b))
        cases.append(" ; ".join(["|".join(doms)] + props + ["enum"]))
    return cases

FAMILIES = [
    Family("enum_random", "solve", ec.gen_models(ec.entry_enum, 12000, 600000), nontrivial=ec.nontrivial_solve, prop_judge=plevel.judge_solve),
    Family("enum_large", "solve", gen_large, nontrivial=ec.nontrivial_solve, prop_judge=plevel.judge_solve),
    Family("enum_alldiff_wide", "solve", ec.gen_alldiff_wide(ec.entry_enum, 2000, 60000), nontrivial=ec.nontrivial_solve, prop_judge=plevel.judge_solve),
    Family("enum_structured", "solve", lambda tier, rng: [c for c in ec.structured(tier, rng) if c.endswith("enum")], nontrivial=ec.nontrivial_solve, prop_judge=plevel.judge_solve),
]
