"""C03 — enumerate yields exactly the solution set, each solution once."""
from ..core import Family
from .. import plevel
from . import engine_common as ec
PROPERTY_FILES = ["C03", "C03_Stack"]
TRUSTED_BASE = ec.TB + ["Properties/C03_Stack.v: the explicit-stack machine (Model/EngineStack.v, an independent literal transcription of Engine::next and SplitOnUnassigned) is PROVED to yield exactly what the recursive dfs / dfs_lim yield, for every scheduler, mode, check interval, clock and memory limit (solutions in order, best, counters, stop reason, stack depth)"]
ASSUMPTIONS = ec.ASSUME
RULE = ("case = random or structured propagator-level model (1-5 variables with holes/negatives/singletons, 0-4 propagators with views) "
        "run through enumerate to exhaustion; the yielded sequence must equal the model's sequence exactly and, as a set without "
        "repetition, the brute-force solution set computed from the Coq `sat`; non-trivial = at least one solution or a failure")
FAMILIES = [
    Family("enum_random", "solve", ec.gen_models(ec.entry_enum, 3000, 600000), nontrivial=ec.nontrivial_solve, prop_judge=plevel.judge_solve),
    Family("enum_structured", "solve", lambda tier, rng: [c for c in ec.structured(tier, rng) if c.endswith("enum")], nontrivial=ec.nontrivial_solve, prop_judge=plevel.judge_solve),
]
