"""C03 — enumerate yields exactly the solution set, each solution once."""
from ..core import Family
from .. import plevel
from . import engine_common as ec
TRUSTED_BASE = ec.TB
ASSUMPTIONS = ec.ASSUME
RULE = ("case = random or structured propagator-level model (1-5 variables with holes/negatives/singletons, 0-4 propagators with views) "
        "run through enumerate to exhaustion; the yielded sequence must equal the model's sequence exactly and, as a set without "
        "repetition, the brute-force solution set computed from the Coq `sat`; non-trivial = at least one solution or a failure")
FAMILIES = [
    Family("enum_random", "solve", ec.gen_models(ec.entry_enum, 3000, 600000), nontrivial=ec.nontrivial_solve, prop_judge=plevel.judge_solve),
    Family("enum_structured", "solve", lambda tier, rng: [c for c in ec.structured(tier, rng) if c.endswith("enum")], nontrivial=ec.nontrivial_solve, prop_judge=plevel.judge_solve),
]
