"""C13 — views transform bounds exactly (offset, scale, negate, next/prev)."""
import itertools
from ..core import Family
from .. import plevel
from .c12 import expand

TRUSTED_BASE = [
    "Coq 8.16.1 kernel (coqc full .vo build)",
    "hand-written model coq/Model/Views.v of views.rs:618-1264 (integer views; Times::new sign dispatch, times_neg, minus) — modelled, not verified; tied by this run's differential through hook H1",
    "extraction: ExtrOcamlBasic only, no Extract Constant; OCaml driver ocaml/plevel_cmd.ml; Rust harness harness/src/plevel.rs (view types built by monomorphised recursion to depth 3)",
    "the judge is an independent python re-statement of the property: bounds = min/max of f over the domain; a tightening keeps exactly the values whose image satisfies the bound, fails iff none, reports a change iff the domain shrank",
]
ASSUMPTIONS = ["integer views only here (float views: C12F/C06 work)", "i32 modelled as unbounded Z"]
RULE = ("case = domain (holes, negatives) + view term of depth <= 3 over {opp, plus c, times k (k in -3..3 incl. 0), next, prev} + a "
        "sequence of try_set_min/try_set_max on the view; exhaustive over all 156 shapes x parameter grid x a domain set x bound grid in "
        "the thorough tier, sampled in quick; non-trivial = a tightening changed the domain or failed")

def parse_view(s):
    s = s.strip()
    if s.startswith("x") and s[1:].isdigit(): return ("x", int(s[1:]))
    if s.startswith("c:"): return ("c", int(s[2:]))
    name, inner = s[:s.index("(")], s[s.index("(") + 1:-1]
    depth, comma = 0, None
    for i, ch in enumerate(inner):
        if ch == "(": depth += 1
        elif ch == ")": depth -= 1
        elif ch == "," and depth == 0: comma = i
    sub, arg = (inner[:comma], int(inner[comma + 1:])) if comma is not None else (inner, None)
    return (name, parse_view(sub), arg)

def vfun(w, x):
    k = w[0]
    if k == "x": return x
    if k == "c": return w[1]
    y = vfun(w[1], x)
    return {"opp": -y, "plus": y + (w[2] or 0), "times": y * (w[2] or 0), "next": y + 1, "prev": y - 1}[k] if k != "plus" and k != "times" else (y + w[2] if k == "plus" else y * w[2])

def uvar(w):
    if w[0] == "x": return w[1]
    if w[0] == "c": return None
    if w[0] == "times" and w[2] == 0: return None   # Times::ZeroI has no underlying variable
    return uvar(w[1])

def judge_view(case, impl, spec):
    if impl.startswith("PANIC"): return "implementation panicked: " + impl
    parts = [p.strip() for p in case.split(";")]
    doms = [expand(d) for d in parts[0].split("|")]
    w = parse_view(parts[1])
    x = uvar(w)
    outs = impl.split(" / ")
    def bounds():
        vals = [vfun(w, v) for v in doms[x]] if x is not None else [vfun(w, 0)]
        return min(vals), max(vals)
    lo, hi = bounds()
    if outs[0] != "bnd %d %d" % (lo, hi): return "bounds %s, expected %d %d" % (outs[0], lo, hi)
    k = 1
    for op in parts[2:]:
        if not op: continue
        t = op.split(); b = int(t[1]); mx = t[0] == "max"
        keep = (lambda v: vfun(w, v) <= b) if mx else (lambda v: vfun(w, v) >= b)
        if k >= len(outs): return "missing output for " + op
        o = outs[k]; k += 1
        if x is None:
            ok = keep(0)
            if ok and o == "fail": return "%s on a constant view failed although the bound holds" % op
            if not ok and o != "fail": return "%s on a constant view succeeded although the bound is violated" % op
            if not ok: return None
            continue
        new = [v for v in doms[x] if keep(v)]
        if not new:
            if o != "fail": return "%s: no value's image satisfies the bound but the call did not fail (%s)" % (op, o)
            return None
        if o == "fail": return "%s: failed although %s would be left" % (op, new)
        f = o.split(" ")
        ev, ds = int(f[1][3:]), plevel.parse_doms(f[2])
        changed = new != doms[x]
        doms[x] = new
        if ds != doms: return "%s: domains are %s, expected %s" % (op, ds, doms)
        if ev != (1 if changed else 0): return "%s: change reported %d time(s)" % (op, ev)
        lo, hi = bounds()
        if f[3:] != ["bnd", str(lo), str(hi)]: return "%s: bounds afterwards %s, expected %d %d" % (op, f[3:], lo, hi)
    return None

UN = [("opp", None), ("next", None), ("prev", None)] + [("plus", c) for c in (-2, 3)] + [("times", k) for k in (-3, -1, 0, 1, 2)]
def shapes(depth):
    out = ["x0"]
    cur = ["x0"]
    for _ in range(depth):
        nxt = []
        for s in cur:
            for (n, a) in UN:
                nxt.append("%s(%s)" % (n, s) if a is None else "%s(%s,%d)" % (n, s, a))
        out += nxt; cur = nxt
    return out

def gen_exhaustive(tier, rng):
    doms = ["-3,-1,0,2,4", "-2..1", "3", "-5,-4", "0,1"]
    cases = []
    sh = shapes(3) if tier == "thorough" else shapes(2)
    for s in sh:
        for d in doms:
            for b in (range(-9, 10, 3) if tier == "quick" else range(-10, 11)):
                cases.append("%s ; %s ; min %d" % (d, s, b))
                cases.append("%s ; %s ; max %d" % (d, s, b))
    if tier == "quick":
        s3 = shapes(3)[len(sh):]
        for s in rng.sample(s3, 400):
            d = rng.choice(doms)
            cases.append("%s ; %s ; min %d ; max %d" % (d, s, rng.randint(-9, 9), rng.randint(-9, 9)))
    # constant-leaf views
    for s in ["c:2", "opp(c:2)", "times(c:-3,2)", "plus(times(c:1,0),4)", "times(x0,0)", "next(times(x0,0))"]:
        for b in range(-7, 8):
            cases.append("0..3 ; %s ; min %d" % (s, b)); cases.append("0..3 ; %s ; max %d" % (s, b))
    return cases

def gen_random(tier, rng):
    n = 3000 if tier == "quick" else 1000000
    cases = []
    for _ in range(n):
        d = plevel.rand_dom(rng, -12, 12)
        v = "x0"
        for _ in range(rng.randint(0, 3)):
            k = rng.choice(["opp", "plus", "times", "next", "prev"])
            v = {"opp": "opp(%s)" % v, "next": "next(%s)" % v, "prev": "prev(%s)" % v,
                 "plus": "plus(%s,%d)" % (v, rng.randint(-5, 5)), "times": "times(%s,%d)" % (v, rng.randint(-4, 4))}[k]
        ops = ["%s %d" % (rng.choice(["min", "max"]), rng.randint(-30, 30)) for _ in range(rng.randint(1, 4))]
        cases.append(" ; ".join([d, v] + ops))
    return cases

def split(model_line): return model_line, "python-judge", None
nontrivial = lambda case, impl: "ev=1" in impl or "fail" in impl
FAMILIES = [
    Family("shapes_exhaustive", "view", gen_exhaustive, split=split, nontrivial=nontrivial, prop_judge=judge_view, exhaustive=True),
    Family("views_random", "view", gen_random, split=split, nontrivial=nontrivial, prop_judge=judge_view),
]
