"""Public posting routes other than fluent trees (C01 "whichever posting route", C02 validation, C10 spellings):
Model::{add,sub,mul,modulo,abs,min,max,sum, alldiff,alleq,element,array_int_element,table,count,at_least,at_most,exactly,gcc,between,
bool_and,bool_or,bool_not,bool_xor,implies,bool_clause, eq_reif..ge_reif, lin_*_reif, bool_lin_*} and the free functions
and/or/not/xor/implies/element/bool2int/cumulative of constraints::functions exported by the prelude.
Stand-alone: ./check C01_Routes --tier quick|thorough   (vlib/props/c01_routes.py imports this module)."""
import itertools, random
from ..core import Family
from . import c10

PROPERTY_FILES = ["C01_Routes"]
KNOWN_PIDS = ["C01", "C02", "C10", "C17"]
# classes of the fluent vocabulary (C10) that random programs mixing fluent constraints with routes also reach
SHARED_CLASSES = ("nested_ne", "aux_bounds", "mod_rejected", "empty_domain_panic", "lin_zero_coeffs")

TRUSTED_BASE = [
    "Coq 8.16.1 kernel (coqc full .vo build)",
    "hand-written model coq/Model/Routes.v of constraints/api/{arithmetic,array,boolean,global,linear,reified}.rs, the free functions "
    "and/or/not/xor/implies/element/bool2int/cumulative of constraints/functions.rs, the ReifiedLinearInt arm of materialize_constraint_kind, "
    "core/validation.rs (all-different conflicts and duplicates, operand counts of add/mul/modulo, zero in a divisor's domain): modelled, "
    "not verified; tied by this run's STRUCTURAL differential (final domains of every variable incl. result and auxiliary variables + the "
    "propagator list in PropId order, normalised Debug text == model dump, validation verdict) through hook H2 Model::verif_lower",
    "semantic tie: Model::enumerate / solve / minimize / maximize through the public API, projected on every handle the program holds "
    "(declared variables AND returned result variables); compared with (i) the extracted engine (Model/Search.v) run on the model's lowered "
    "propagator records (denote_route) and (ii) the brute force over the declared domains of the Coq `route_fun` / `route_sem` / `eval_cons`",
    "that each propagator's pruning enforces its `sat` is C05's subject (Forall good premise of routes_model_solutions)",
    "root LP step and optimisation fast path switched off in the semantic runs (hook H5): not part of this model (D8, D10)",
    "extraction: ExtrOcamlBasic + ExtrOcamlNatInt; OCaml driver ocaml/mroutes_cmd.ml; Rust harness harness/src/mroutes.rs (incl. the normaliser of the Debug text)",
    "i32 modelled as unbounded Z; integer arguments only: Model::div and every float route are outside this model",
]
ASSUMPTIONS = [
    "vocabulary: the routes listed in harness/src/mroutes.rs, mixed with the fluent / lin_* vocabulary of C10; operands of the boolean routes "
    "and reification variables are 0/1 variables (class nonbool_arg otherwise)",
    "malformed arguments (repaired tree): lin_*_reif / bool_lin_*_reif with |coeffs| != |vars| mean `b = 0` (e45322d, route_sem); "
    "Model::table with a tuple of the wrong arity and lin_* / bool_lin_* with |coeffs| != |vars| record a validation error that every "
    "solving call returns (e2596cd, 596c327); min / max of an empty list return Err from the call",
    "no time or memory limit fires (C15)",
]
RULE = ("rlower: declarations + calls through the real public API; the normalised dump of Model::verif_lower (domains of every variable, "
        "propagators in order, validation verdict, whether a posting-time validation error was recorded) must equal the extracted model's dump. "
        "rsolve: enumerate's solution set projected on all handles (so every returned result variable is checked to equal the function of its "
        "operands) must equal the extracted engine's on the model's lowering and, outside the known classes, the brute-force meaning; "
        "solve/minimize/maximize return a member / an optimal member; malformed arguments must give the documented error. "
        "Each route alone over all triples of 11 domain shapes, then seeded random programs mixing routes and fluent constraints; "
        "non-trivial = the lowered model has a propagator / the solution set is non-empty")

DOMS = ["-2..2", "0..3", "1..3", "-3..-1", "0..0", "2..2", "-1,1", "0,2,3", "b", "-2..0", "1..4"]
BOOLISH = ["b", "0..0", "1..1", "0..1"]

# route templates over x0,x1,x2 (+ constants); {K},{N} are filled from small grids
ARITH = ["add x0 x1", "add x0 c:{K}", "add c:{K} x1", "sub x0 x1", "sub x0 c:{K}", "sub c:{K} x1", "mul x0 x1", "mul x0 c:{K}", "mul c:{K} x1",
         "mod x0 x1", "mod x0 c:{K}", "mod c:{K} x1", "mod c:{N} c:{K}", "add c:{K} c:{N}", "sub c:{K} c:{N}", "mul c:{K} c:{N}", "abs x0", "min x0,x1", "min x0,x1,x2", "min x0", "max x0,x1", "max x0,x1,x2", "max x2", "sum x0,x1", "sum x0,x1,x2", "sum x0", "sum -",
         "min x0,x0", "sum x0,x0", "add x0 x0", "mul x0 x0", "sub x0 x0"]
GLOBAL = ["alldiff x0,x1", "alldiff x0,x1,x2", "alldiff x0", "alldiff -", "alleq x0,x1", "alleq x0,x1,x2", "alleq x0", "alleq -",
          "element x0,x1 x2 x0", "element x0,x1 x2 x1", "element x0,x1,x0 x2 x1", "aelement x2 x0,x1 x0", "element - x2 x0",
          "table x0,x1 0:1/1:2/2:2/-1:3", "table x0,x1,x2 0:1:1/1:2:0/2:2:2", "table x0,x1 -", "table - e", "table x0 1/2/5",
          "count x0,x1 c:{K} x2", "count x0,x1 x2 x0", "count x0,x1,x2 c:{K} x2", "count - c:{K} x2",
          "atleast x0,x1,x2 {K} {N}", "atmost x0,x1,x2 {K} {N}", "exactly x0,x1,x2 {K} {N}", "atleast x0,x1 {K} {N}", "exactly - {K} {N}",
          "gcc x0,x1 {K},2 x2,x2", "gcc x0,x1,x2 {K} x2", "gcc x0,x1 - -", "between x0 x1 x2", "between x0 x0 x1", "between x2 x1 x0"]
BOOLR = ["band x0,x1", "band x0,x1,x2", "band x0", "band -", "bor x0,x1", "bor x0,x1,x2", "bor x0", "bor -", "bnot x0", "bxor x0 x1", "bxor x0 x0",
         "implies x0 x1", "implies x0 x0", "clause x0 x1", "clause x0,x1 x2", "clause x0 x1,x2", "clause x0,x1 -", "clause - x0,x1", "clause - -",
         "clause x0 x0", "fand x0 x1", "for x0 x1", "fnot x0", "fxor x0 x1", "bool2int x0"]
REIF = ["eqr x0 x1 x2", "ner x0 x1 x2", "ltr x0 x1 x2", "ler x0 x1 x2", "gtr x0 x1 x2", "ger x0 x1 x2", "eqr x0 x0 x2", "ltr x0 x0 x2",
        "lineqr {K},{N} x0,x1 {C} x2", "linler {K},{N} x0,x1 {C} x2", "linner {K},{N} x0,x1 {C} x2",
        "blineqr {K},{N} x0,x1 {C} x2", "blinler {K},{N} x0,x1 {C} x2", "blinner {K},{N} x0,x1 {C} x2",
        "lineqr {K} x0 {C} x2", "linler {K},{N} x0,x0 {C} x2", "linner - - {C} x2"]
LINB = ["blin eq {K},{N} x0,x1 {C}", "blin le {K},{N} x0,x1 {C}", "blin ne {K},{N} x0,x1 {C}", "lin le {K},{N},1 x0,x1,x2 {C}"]
# array_int_minimum / array_int_maximum / sum_iter (handles or constants)
ARRAY = ["amin x0,x1", "amin x0,x1,x2", "amin x0", "amin x1,x1", "amax x0,x1", "amax x0,x1,x2", "amax x2",
         "sumiter x0,x1", "sumiter x0,x1,x2", "sumiter x0", "sumiter -", "sumiter x0,x0", "sumiter c:{K},c:{N}", "sumiter c:{K}"]
FUNCS = ["felement x0,x1 x2", "fimplies x0 x1", "cumulative x0,x1 2,1 2,2 3", "cumulative x0,x1,x2 1,2,1 2,2,1 3", "cumulative x0,x1 1,1 1,1 3"]

def fill(t, rng=None, grid=False):
    """instantiate {K},{N},{C}: all grid points (grid=True) or one random point"""
    if "{" not in t: return [t]
    Ks, Ns, Cs = [-1, 0, 1, 2], [-2, 0, 1, 3], [-1, 0, 2, 3]
    if grid:
        out = set()
        for k in Ks:
            for n in Ns:
                for c in Cs:
                    out.add(t.replace("{K}", str(k)).replace("{N}", str(n)).replace("{C}", str(c)))
        return sorted(out)
    return [t.replace("{K}", str(rng.choice(Ks))).replace("{N}", str(rng.choice(Ns))).replace("{C}", str(rng.choice(Cs)))]

def third_is_bool(t):
    k = t.split()[0]
    return k.endswith("r") and k not in ("for",)

def each_cases(tier, rng, templates, boolish_all=False):
    cases = []
    for t in templates:
        insts = fill(t, grid=True)
        if tier == "quick" and len(insts) > 6: insts = rng.sample(insts, 6)
        for inst in insts:
            call = inst if inst.startswith(("lin ", "blin ")) else "call " + inst
            if boolish_all:
                triples = list(itertools.product(BOOLISH, repeat=3))
            elif third_is_bool(inst):
                triples = [(a, b, c) for a in DOMS for b in DOMS for c in BOOLISH]
            else:
                triples = list(itertools.product(DOMS, repeat=3))
            if tier == "quick" and len(triples) > 150: triples = rng.sample(triples, 150)
            for tr in triples:
                cases.append("|".join(tr) + " ; " + call)
    return cases

# ---- element_2d / element_3d / table_2d / table_3d and the array factories: cells come from a factory declaration, the index /
# value handles follow.  Shapes: rectangular, 1 x n, n x 1, ragged, empty matrix, empty rows; index domains inside, partly outside
# and wholly outside the valid range, negative values included.
IDX = ["0..1", "0..2", "-1..1", "-1..2", "1..1", "0..0", "b", "0,2", "2..3", "-2..-1", "1..3"]
VALD = ["0..2", "1..1", "0,2", "-1..0"]
MATS4 = ["x0,x1/x2,x3", "x0,x1,x2,x3", "x0/x1/x2/x3", "x0,x1/x2", "x0/x1,x2", "x0/x1,x2/x3", "e/x0,x1", "x0,x1/e", "x0", "-", "e", "e/e",
         "x0,x1,x2/x3", "x0,x0/x1,x1", "x0,x1/x2,x3/x0,x1"]
CUBES8 = ["x0,x1/x2,x3//x4,x5/x6,x7", "x0,x1/x2,x3", "x0,x1//x2,x3", "x0//x1//x2", "x0/x1//x2/x3", "x0", "-", "E", "e", "E//x0,x1", "e//x0",
          "x0,x1/x2,x3//x4,x5", "x0,x1/x2//x3,x4/x5", "x0,x1/x2,x3//x4/x5/x6", "x0,x1,x2//x3,x4,x5", "x0//x1,x2"]
TUP2 = ["0:1/1:2/2:2", "1:1", "-", "0:0/1:1/2:2/0:2"]
TUP2_BAD = ["0:1:2/1:2", "1/1:2", "e/0:1", "0:1/e"]
FACT = ["ints(3,0,2)", "ints(3,2,0)", "ints(0,0,1)", "ints(2,1,1)", "bools(2)", "bools(0)", "ints2d(2,2,0,1)", "ints2d(2,2,1,0)", "ints2d(0,3,0,1)", "ints2d(2,0,0,1)",
        "bools2d(1,2)", "bools2d(2,1)", "ints3d(1,2,1,-1,1)", "ints3d(2,1,1,3,1)", "ints3d(0,2,2,0,1)", "bools3d(1,1,2)", "bools3d(2,1,1)", "ints(1,-2,-2)|bools(1)|0..1"]

def nd_cases(tier, rng, malformed_only=False):
    q = tier == "quick"
    out = []
    def pick(l, n): return l if (not q or len(l) <= n) else rng.sample(l, n)
    for mat in MATS4:
        for cell in pick(["ints2d(2,2,0,1)", "ints(4,0,2)", "0..1|1..2|2..2|0,2"], 2):
            for r in pick(IDX, 5):
                for c in pick(IDX, 5):
                    for v in pick(VALD, 2):
                        out.append("%s|%s|%s|%s ; call element2d %s x4 x5 x6" % (cell, r, c, v, mat))
            out.append("%s|0..2 ; call element2d %s x4 x4 x4" % (cell, mat))
            out.append("%s|0..1 ; call element2d %s x0 x1 x4" % (cell, mat))
    for cube in CUBES8:
        for cell in pick(["ints3d(2,2,2,0,1)", "bools(8)", "ints(8,1,2)"], 2):
            for _ in range(12 if q else 120):
                d, r, c = rng.choice(IDX), rng.choice(IDX), rng.choice(IDX)
                out.append("%s|%s|%s|%s|%s ; call element3d %s x8 x9 x10 x11" % (cell, d, r, c, rng.choice(VALD), cube))
            out.append("%s|0..1 ; call element3d %s x8 x8 x8 x0" % (cell, cube))
    for mat in MATS4:
        for cell in ["ints2d(2,2,0,2)", "0..1|1..2|2..2|0,2"]:
            for t in TUP2 + TUP2_BAD + ["e", "1:1:1:1/0:1:2:0"]:
                out.append("%s ; call table2d %s %s" % (cell, mat, t))
    for cube in CUBES8:
        for t in TUP2 + TUP2_BAD[:2] + ["e", "1/0"]:
            out.append("ints3d(2,2,2,0,2) ; call table3d %s %s" % (cube, t))
    for f in FACT:
        out.append(f)
        out.append(f + "|0..3 ; call sum x0")
    return out

def gen_each_lower(tier, rng):
    return (each_cases(tier, rng, ARITH + GLOBAL + REIF + LINB + FUNCS + ARRAY) + each_cases(tier, rng, BOOLR, boolish_all=True)
            + each_cases(tier, rng, ["felement x0,x1 x2", "fimplies x0 x1", "cumulative x0,x1 2,1 2,2 3"], boolish_all=True)
            + nd_cases(tier, rng))

def gen_each_solve(tier, rng):
    cs = gen_each_lower(tier, rng)
    n = 30000 if tier == "quick" else 200000
    if len(cs) > n: cs = rng.sample(cs, n)
    out = []
    for c in cs:
        r = rng.random()
        nv = 3 if (c.count("|") == 2 and "(" not in c.split(";")[0]) else 0      # factory declarations: the number of handles varies
        e = "enum" if r < 0.75 else "first" if (r < 0.85 or nv == 0) else "%s x%d" % (rng.choice(["min", "max"]), rng.randrange(nv))
        out.append(c + " ; " + e)
        # the same call on variables PINNED beforehand by top-level `x == c` posts (the declared range stays, the current
        # domain is a single value): what validation and the posting helpers read must be the current domain (seed C02d)
        parts = [p.strip() for p in c.split(";")]
        if nv == 3 and len(parts) == 2 and rng.random() < 0.12:
            doms = parts[0].split("|")
            pins = []
            for i in rng.sample(range(3), rng.choice([1, 2, 2, 3])):
                vals = c10.dom_values(doms[i]) if hasattr(c10, "dom_values") else None
                v = rng.choice(vals) if vals else rng.randint(-1, 3)
                pins.append("new eq(x%d,%d)" % (i, v))
            out.append(" ; ".join([parts[0]] + pins + [parts[1], e]))
    return out

# ---------------------------------------------------------------- random programs mixing routes and fluent constraints
def rand_prog(rng, maxprod=400, malformed=False):
    while True:
        nv = rng.randint(2, 4)
        doms = []
        for _ in range(nv):
            r = rng.random()
            doms.append("b" if r < 0.35 else c10.rand_dom(rng, -3, 4))
        prod = 1
        for d in doms: prod *= c10.dom_size(d)
        if prod <= maxprod: break
    kinds = ["b" if d in ("b", "0..1", "0..0", "1..1") else "i" for d in doms]   # handle kinds: b = 0/1, i = int
    posts = []
    def anyv(): return "x%d" % rng.randrange(len(kinds))
    def boolv():
        bs = [i for i, k in enumerate(kinds) if k == "b"]
        if not bs or (malformed and rng.random() < 0.3): return anyv()
        return "x%d" % rng.choice(bs)
    def vl(lo=1, hi=3, f=anyv):
        n = rng.randint(lo, hi)
        return ",".join(f() for _ in range(n)) if n else "-"
    def op(): return anyv() if rng.random() < 0.75 else "c:%d" % rng.randint(-3, 4)
    def K(): return rng.randint(-2, 4)
    # pins: top-level `x == c` posts on declared variables BEFORE the calls (materialised at once / narrowed by
    # infer_unbounded_from_asts while the declared range stays what it was): validation pre-checks and result bounds
    # must read the CURRENT domain (seeded change C02d read the declared lower bound of a fixed variable)
    if rng.random() < 0.3:
        for _ in range(rng.randint(1, 3)):
            posts.append("new eq(x%d,%d)" % (rng.randrange(len(kinds)), rng.randint(-1, 5)))
    for _ in range(rng.randint(1, 4)):
        r = rng.random()
        if r < 0.22:
            k = rng.choice(["add", "sub", "mul", "mod", "abs", "min", "max", "sum", "amin", "amax", "sumiter"])
            if k == "abs": posts.append("call abs " + op())
            elif k == "sumiter":
                n = rng.randint(0, 3)
                posts.append("call sumiter " + ((",".join("c:%d" % rng.randint(-3, 4) for _ in range(n)) if rng.random() < 0.3 else ",".join(anyv() for _ in range(n))) or "-"))
            elif k in ("min", "max", "sum", "amin", "amax"): posts.append("call %s %s" % (k, vl(0 if malformed or k == "sum" else 1, 3)))
            else: posts.append("call %s %s %s" % (k, op(), op()))
            kinds.append("i")
        elif r < 0.40:
            k = rng.choice(["alldiff", "alleq", "element", "aelement", "table", "count", "atleast", "atmost", "exactly", "gcc", "between", "felement",
                            "element2d", "element3d", "table2d", "table3d"])
            def mat(rows=None, cols=None):
                rows = rng.randint(1, 2) if rows is None else rows
                cols = rng.randint(1, 2) if cols is None else cols
                rs = []
                for _ in range(rows):
                    w = cols if not (malformed and rng.random() < 0.25) else rng.randint(0, 3)      # ragged / empty rows
                    rs.append(",".join(anyv() for _ in range(w)) or "e")
                if malformed and rng.random() < 0.08: return "-"
                return "/".join(rs)
            def cube():
                d, rws, cls = rng.randint(1, 2), rng.randint(1, 2), rng.randint(1, 2)
                if malformed and rng.random() < 0.08: return "-"
                return "//".join((mat(rws, cls) if not (malformed and rng.random() < 0.1) else "E") for _ in range(d))
            def tuples(n):
                return "/".join(":".join(str(rng.randint(-2, 3)) for _ in range(n if not (malformed and rng.random() < 0.3) else n + 1)) for _ in range(rng.randint(0, 4))) or "-"
            if k in ("alldiff", "alleq"): posts.append("call %s %s" % (k, vl(0, 3)))
            elif k == "element2d": posts.append("call element2d %s %s %s %s" % (mat(), anyv(), anyv(), anyv()))
            elif k == "element3d": posts.append("call element3d %s %s %s %s %s" % (cube(), anyv(), anyv(), anyv(), anyv()))
            elif k == "table2d":
                cols = rng.randint(1, 2)
                posts.append("call table2d %s %s" % (mat(None, cols), tuples(cols)))
            elif k == "table3d":
                cols = rng.randint(1, 2)
                posts.append("call table3d %s %s" % ("//".join(mat(rng.randint(1, 2), cols) for _ in range(rng.randint(1, 2))), tuples(cols)))
            elif k == "element": posts.append("call element %s %s %s" % (vl(1, 3), anyv(), anyv()))
            elif k == "aelement": posts.append("call aelement %s %s %s" % (anyv(), vl(1, 3), anyv()))
            elif k == "felement": posts.append("call felement %s %s" % (vl(1, 3), anyv())); kinds.append("i")
            elif k == "table":
                n = rng.randint(1, 3)
                rows = "/".join(":".join(str(rng.randint(-2, 3)) for _ in range(n if not (malformed and rng.random() < 0.3) else n + 1)) for _ in range(rng.randint(0, 4))) or "-"
                posts.append("call table %s %s" % (",".join(anyv() for _ in range(n)), rows))
            elif k == "count": posts.append("call count %s %s %s" % (vl(0, 3), op(), anyv()))
            elif k == "gcc":
                n = rng.randint(0, 2)
                m = n if not (malformed and rng.random() < 0.5) else rng.randint(0, 3)
                posts.append("call gcc %s %s %s" % (vl(1, 3), ",".join(str(K()) for _ in range(n)) or "-", ",".join(anyv() for _ in range(m)) or "-"))
            elif k == "between": posts.append("call between %s %s %s" % (anyv(), anyv(), anyv()))
            else: posts.append("call %s %s %d %d" % (k, vl(0, 3), K(), rng.randint(-1, 3)))
        elif r < 0.62:
            k = rng.choice(["band", "bor", "bnot", "bxor", "implies", "clause", "fand", "for", "fnot", "fxor", "bool2int", "fimplies"])
            if k in ("band", "bor"): posts.append("call %s %s" % (k, vl(0, 3, boolv))); kinds.append("b")
            elif k in ("bnot", "fnot", "bool2int"): posts.append("call %s %s" % (k, boolv())); kinds.append("b")
            elif k in ("bxor", "fand", "for", "fxor"): posts.append("call %s %s %s" % (k, boolv(), boolv())); kinds.append("b")
            elif k in ("implies", "fimplies"): posts.append("call %s %s %s" % (k, boolv(), boolv()))
            else: posts.append("call clause %s %s" % (vl(0, 2, boolv), vl(0, 2, boolv)))
        elif r < 0.80:
            k = rng.choice(["eqr", "ner", "ltr", "ler", "gtr", "ger", "lineqr", "linler", "linner", "blineqr", "blinler", "blinner"])
            if len(k) == 3: posts.append("call %s %s %s %s" % (k, anyv(), anyv(), boolv()))
            else:
                n = rng.randint(0, 3)
                m = n if not (malformed and rng.random() < 0.5) else rng.randint(0, 3)
                posts.append("call %s %s %s %d %s" % (k, ",".join(str(rng.choice([-2, -1, 0, 1, 1, 2, 3])) for _ in range(m)) or "-",
                                                     ",".join(anyv() for _ in range(n)) or "-", rng.randint(-3, 6), boolv()))
        elif r < 0.88:
            n = rng.randint(1, 3)
            m = n if not (malformed and rng.random() < 0.5) else rng.randint(0, 3)
            posts.append("%s %s %s %s %d" % (rng.choice(["lin", "blin"]), rng.choice(["eq", "le", "ne"]),
                                             ",".join(str(rng.choice([-2, -1, 0, 1, 1, 2, 3])) for _ in range(m)) or "-",
                                             ",".join(anyv() for _ in range(n)), rng.randint(-4, 8)))
        else:
            posts.append("new " + c10.rand_cons(rng, len(kinds), 2, 1, logic=0.1, modw=0.0))
    return " ; ".join(["|".join(doms)] + posts), len(kinds)

def gen_random_lower(tier, rng):
    n = 30000 if tier == "quick" else 200000
    return [rand_prog(rng, maxprod=5000)[0] for _ in range(n)]

def with_entry(rng, p, nh):
    r = rng.random()
    e = "enum" if r < 0.6 else "first" if r < 0.75 else "%s x%d" % (rng.choice(["min", "max"]), rng.randrange(nh))
    return p + " ; " + e

def gen_random_solve(tier, rng):
    n = 20000 if tier == "quick" else 120000
    return [with_entry(rng, *rand_prog(rng)) for _ in range(n)]

N_MALFORMED_FIXED = 48
def gen_malformed_lower(tier, rng):
    n = 6000 if tier == "quick" else 40000
    fixed = ["0..3|0..3 ; lin eq 1 x0,x1 2", "0..3|0..3 ; blin le 1,2,3 x0,x1 2", "0..3 ; call min -", "0..3 ; call max -",
             "0..3|0..3 ; call table x0,x1 1:2:3", "0..3|0..3|b ; call lineqr 1 x0,x1 2 x2", "0..3|0..3|b ; call linler 1,2,3 x0,x1 2 x2",
             "0..3|0..3 ; call gcc x0,x1 1,2 x0", "0..3|0..3 ; call alldiff x0,x0", "0..3|0..3 ; call mod x0 c:2", "0..3|0..3 ; call mod c:7 x0",
             "0..3|0..3 ; call add c:1 c:2", "0..3|0..3 ; call mul c:1 c:2", "0..3|0..3 ; call element - x0 x1", "0..3 ; new eq(x0,7) ; call abs x0",
             "0..3 ; new eq(x0,7) ; call min x0", "0..3|b ; new eq(x0,7) ; call sum x0,x1",
             "0..3 ; call amin -", "0..3 ; call amax -", "0..3 ; new eq(x0,7) ; call amin x0", "0..3|b ; new eq(x0,7) ; call sumiter x0,x1",
             # empty operand domains read at posting time (repaired: empty result variable, InvalidDomain from the solving call)
             "3..1|0..3 ; call add x0 x1", "0..3|3..1 ; call sub x0 x1", "3..1 ; call mul x0 c:2", "0..3 ; new eq(x0,7) ; call mod x0 c:2",
             "3..1|0..3 ; call max x1,x0", "3..1 ; call amax x0", "0..3|3..1 ; call sum x0,x1", "0..3 ; new eq(x0,7) ; call felement x0,x0 x0",
             "0..3|0..3 ; new eq(x0,7) ; call cumulative x0,x1 2,2 2,2 3", "3..1|0..3 ; api add x0 x1", "0..3|0..3 ; new eq(x0,7) ; api mul x0 x1",
             "0..3|0..3 ; new eq(x1,-1) ; call add x0 x1 ; call abs x2 ; call min x0,x3",
             # Model::gcc length mismatch (repaired: recorded validation error)
             "0..3|0..3 ; call gcc x0,x1 1 x0,x1", "0..3|0..3 ; call gcc x0,x1 - x0", "0..3|0..3 ; call gcc x0,x1 1,2,3 -",
             "0..3|0..3|0..1 ; call table2d x0,x1/x1,x0 1:2:3", "0..3|0..3|0..1 ; call table2d x0,x1/x2 1:2", "0..3|0..3 ; call table3d x0,x1//x1 1:2/0",
             "0..3|0..3|-1..2|-1..2 ; call element2d - x2 x3 x0", "0..3|0..3|-1..2|-1..2 ; call element2d e/x0,x1 x2 x3 x0",
             "0..3|0..3|-1..2|-1..2 ; call element2d x0,x1/x1 x2 x3 x0", "0..3|0..3|-3..-1|0..1 ; call element2d x0,x1/x1,x0 x2 x3 x0",
             "0..3|0..3|-1..2 ; call element3d - x2 x2 x2 x0", "0..3|0..3|-1..2 ; call element3d E//x0,x1 x2 x2 x2 x0", "0..3|0..3|-1..2 ; call element3d e//x0,x1 x2 x2 x2 x0",
             "0..3|0..3|-1..2 ; call element3d x0,x1/x1//x0 x2 x2 x2 x0", "0..3 ; new eq(x0,7) ; call element2d x0,x0/x0,x0 x0 x0 x0"]
    assert len(fixed) == N_MALFORMED_FIXED
    return fixed + [rand_prog(rng, maxprod=5000, malformed=True)[0] for _ in range(n)]

def gen_malformed_solve(tier, rng):
    n = 6000 if tier == "quick" else 40000
    out = []
    for c in gen_malformed_lower("quick", random.Random(rng.random()))[:N_MALFORMED_FIXED]:
        for e in ("enum", "first"): out.append(c + " ; " + e)
    return out + [with_entry(rng, *rand_prog(rng, malformed=True)) for _ in range(n)]

# ---------------------------------------------------------------- judges
def judge_rsolve(case, impl, spec):
    if impl.startswith(("PANIC", "CRASH", "HANG")):
        return "implementation panicked: " + impl
    if spec == "expcallerr":
        return None if impl.startswith("callerr") else "min/max of an empty list must return Err(InvalidInput) from the call; got " + impl
    if impl.startswith("callerr"):
        return "the call returned an error for a well-formed argument list: " + impl
    if spec == "experr":
        e = c10.entry_of(case)
        if e[0] == "enum":
            return None if impl == "sols -" else "enumerate yields assignments although a posting-time validation error was recorded (solve returns that error)"
        return None if impl.startswith("err InvalidConstraint") else "a recorded posting-time validation error must be returned by the solving call; got " + impl
    return c10.judge_msolve(case, impl, spec)

def corr_rsolve(case, impl, mpart):
    return mpart is None or mpart.strip() == "-" or impl == mpart

def nontrivial_lower(case, impl):
    return impl.startswith("ok ") and not impl.endswith("; -") or impl.startswith(("err", "callerr"))
def nontrivial_solve(case, impl):
    return impl not in ("sols -",) and not impl.startswith(("err", "callerr"))

FAMILIES = [
    Family("rlower_each", "rlower", gen_each_lower, nontrivial=nontrivial_lower, exhaustive=True),
    Family("rlower_random", "rlower", gen_random_lower, nontrivial=nontrivial_lower),
    Family("rlower_malformed", "rlower", gen_malformed_lower, nontrivial=nontrivial_lower),
    Family("rsolve_each", "rsolve", gen_each_solve, nontrivial=nontrivial_solve, prop_judge=judge_rsolve),
    Family("rsolve_random", "rsolve", gen_random_solve, nontrivial=nontrivial_solve, prop_judge=judge_rsolve),
    Family("rsolve_malformed", "rsolve", gen_malformed_solve, nontrivial=nontrivial_solve, prop_judge=judge_rsolve),
]
def normal(s):
    return "PANIC" if s.startswith("PANIC") else s
for f in FAMILIES:
    f.normal = normal
    if f.sub == "rsolve": f.corr = corr_rsolve

# Scope (not a finding): property C17 lists "zero in a divisor's domain" among the DOCUMENTED invalid inputs that surface as an
# Err value; C02 speaks of well-formed models and C10's tree has no value where the divisor is 0.  A model whose divisor's bounds
# contain 0 and which ModelValidator rejects with InvalidConstraint (exactly what the Coq validation model predicts: classes
# mod_rejected / mod_zero_div) is therefore outside the scope of C01/C02/C10; any other answer on such a model is still judged.
def _documented_zero_divisor(case, impl):
    return impl.startswith("err InvalidConstraint") or impl in ("sols -", "sols") or impl.startswith("err Invalid")
for _f in FAMILIES:
    _f.scope_classes = {"mod_rejected": _documented_zero_divisor, "mod_zero_div": _documented_zero_divisor}
