(* sub-command `limits` over the extracted model (Model/Limits.v); grammar of harness/src/limits.rs *)
open Selen_model
open Conv
open Plevel_cmd

let run_case (line : string) : string =
  let parts = List.filter (fun p -> p <> "") (List.map String.trim (String.split_on_char ';' line)) in
  let doms, rest = match parts with d :: r -> d, r | [] -> failwith "empty" in
  let iv = ref (int_of_z engine_check_interval) and tfire = ref None and mem = ref None and buildmem = ref false in
  let entry = ref ["solve"] and posts = ref [] in
  List.iter (fun p -> match words p with
    | ["iv"; n] -> iv := int_of_string n
    | ["tfire"; k] -> tfire := Some (int_of_string k)
    | ["mem"; l] -> mem := Some (int_of_string l)
    | ["buildmem"] -> buildmem := true
    | ("solve" | "min" | "max" | "enumstats" | "enum") :: _ as e -> entry := e
    | _ -> posts := post p :: !posts) rest;
  let props = List.rev !posts in
  let store = parse_doms doms in
  let clock = match !tfire with Some k -> from_check (z_of_int k) | None -> never in
  let mlimit = match !mem with Some l -> Some (z_of_int l) | None -> None in
  (* a configured limit of 0 MB is already exceeded while the model is built *)
  let bm = !buildmem in
  let ivz = z_of_int !iv in
  let fmt_out (o, ck) =
    (match o with
     | OOk t -> "ok " ^ fmt_sol t
     | ONoSolution -> "nosol"
     | OTimeout -> "timeout"
     | OMemory -> "memory"
     | OFuelOut -> "FUEL") ^ Printf.sprintf " checks=%d" (int_of_z ck) in
  match !entry with
  | ["solve"] -> fmt_out (solve_lim fifo ivz clock mlimit bm false props store)
  | ["min"; v] -> fmt_out (minimize_lim fifo ivz clock mlimit bm false (VVar (var_ix v)) props store)
  | ["max"; v] -> fmt_out (minimize_lim fifo ivz clock mlimit bm false (VOpp (VVar (var_ix v))) props store)
  | ["enumstats"] | ["enum"] ->
    (match enumerate_lim fifo ivz clock mlimit bm props store with
     | None -> "FUEL"
     | Some (sols, ck) -> Printf.sprintf "%s checks=%d" (fmt_sols sols) (int_of_z ck))
  | _ -> failwith "bad entry"

(* spec: the unlimited run on the same model (brute force from `sat`), for the judge *)
let run_case_full (line : string) : string =
  let parts = List.filter (fun p -> p <> "") (List.map String.trim (String.split_on_char ';' line)) in
  let doms, rest = match parts with d :: r -> d, r | [] -> failwith "empty" in
  let props = List.filter_map (fun p -> match words p with
    | ("iv" | "tfire" | "mem" | "buildmem" | "solve" | "min" | "max" | "enumstats" | "enum") :: _ -> None
    | _ -> Some (post p)) rest in
  let store = parse_doms doms in
  match (try Some (all_solutions store props) with Too_big -> None) with
  | Some sols -> run_case line ^ " ||| " ^ known_class line ^ "all " ^ fmt_isols sols
  | None -> run_case line ^ " ||| skip"
