(* sub-commands `lp` and `lpjudge` over the extracted model coq/Model/LP.v.

   lp      : <case>                      (grammar of harness/src/lp.rs)
             prints  "<status> ||| [BAD:phase1 ]<status> [opt=<p/q>] ph1=<0|1>"
             status = Optimal | Infeasible | Unbounded | FUEL | ERROR  from the certified `lp_solve`
             (an Optimal / Infeasible here has passed check_opt / check_infeasible, which are proved
             sound in Proofs/LPProofs.v).  ph1 = 1 when the slack basis of the shifted standard form is
             infeasible, i.e. the implementation has to run its Phase I; those cases carry the class marker
             BAD:phase1 (known-finding class, see known_findings.txt / vlib/props/c09.py).

   lpjudge : <case> ||| <harness output line> [||| tol=<p/q>] [||| mode=cold|warm|all]
             prints "ok" or the failed clauses joined by " & ":
               a:status     implementation status differs from the certified exact status
                            (exact Infeasible is matched by Infeasible and by Err:NumericalInstability, the
                            code's only way of saying "Phase I ended with a positive artificial sum")
               b:objective  |impl objective - certified optimum| > tol*(1+|optimum|)      (q_close_rel)
               c:point      the returned point fails the verified feasible_tol P tol
               d:obj-vs-cx  |impl objective - c.x(returned point)| > tol*(1+|c.x|)        (q_close_rel)
               e:warm       warm start (same problem, from the cold basis) is not Optimal-with-the-same-
                            objective when cold was Optimal, or fails a-d itself
               f:wadd       warm start from the solution of the problem without its last row fails a-d
             mode=cold judges a-d on the cold solve only; mode=warm judges e,f only; all = both.
   Every comparison on rationals is done by extracted, verified functions (feasible_tol, q_close_rel,
   objective, lp_solve); f64 bit patterns are decoded by the extracted f64_to_Q.  The OCaml below only
   parses, dispatches and prints. *)
open Selen_model
open Conv

let q_of_string (s : string) : q =
  match String.index_opt s '/' with
  | None -> { qnum = z_of_int (int_of_string s); qden = XH }
  | Some i ->
    let p = int_of_string (String.sub s 0 i) in
    let d = int_of_string (String.sub s (i + 1) (String.length s - i - 1)) in
    if d <= 0 then failwith "bad denominator";
    { qnum = z_of_int p; qden = pos_of_int d }

let rec pos_bits (p : positive) : int = match p with XH -> 1 | XO r | XI r -> 1 + pos_bits r
let string_of_z (x : z) : string =
  match x with
  | Z0 -> "0"
  | Zpos p -> if pos_bits p > 61 then "BIG" else string_of_int (int_of_pos p)
  | Zneg p -> if pos_bits p > 61 then "-BIG" else string_of_int (- (int_of_pos p))
let string_of_q (x : q) : string =
  match x.qden with
  | XH -> string_of_z x.qnum
  | d -> string_of_z x.qnum ^ "/" ^ string_of_z (Zpos d)

let qvec (s : string) : q list = List.map q_of_string (words s)

let parse_problem (line : string) : lP =
  let c = ref [] and a = ref [] and b = ref [] and l = ref [] and u = ref [] in
  List.iter (fun sec ->
      let sec = String.trim sec in
      if sec <> "" then begin
        let tag, rest = match String.index_opt sec ' ' with
          | Some i -> String.sub sec 0 i, String.trim (String.sub sec (i + 1) (String.length sec - i - 1))
          | None -> sec, "" in
        match tag with
        | "c" -> c := qvec rest
        | "A" -> if rest <> "" then a := List.map qvec (String.split_on_char '|' rest)
        | "b" -> b := qvec rest
        | "l" -> l := qvec rest
        | "u" -> u := qvec rest
        | _ -> failwith ("bad section " ^ tag)
      end) (String.split_on_char ';' line);
  { lp_c = !c; lp_A = !a; lp_b = !b; lp_l = !l; lp_u = !u }

let fuel = nat_of_int 2000

let status_string = function
  | Optimal _ -> "Optimal" | Infeasible _ -> "Infeasible" | Unbounded -> "Unbounded"
  | LpOutOfFuel -> "FUEL" | LpError -> "ERROR"

let run_case (line : string) : string =
  let p = parse_problem line in
  let r = lp_solve fuel p in
  let st = status_string r in
  let opt = match r with Optimal (_, z, _) -> " opt=" ^ string_of_q z | _ -> "" in
  let ph1 = needs_phase1 p in
  Printf.sprintf "%s ||| %s%s%s ph1=%s" st (if ph1 then "BAD:phase1 " else "") st opt (b2s ph1)

(* ---- judge ---- *)

type res =
  | Sol of string * q option * q list option   (* status, objective, point (None = not finite) *)
  | Err of string
  | Panic of string
  | Skipped

let q_of_bits (h : string) : q option =
  if String.length h <> 16 then failwith ("bad f64 bits " ^ h);
  let hi = int_of_string ("0x" ^ String.sub h 0 8) and lo = int_of_string ("0x" ^ String.sub h 8 8) in
  f64_to_Q (z_of_int hi) (z_of_int lo)

let all_some (l : 'a option list) : 'a list option =
  if List.for_all (fun o -> o <> None) l then Some (List.map (function Some x -> x | None -> assert false) l) else None

let parse_res (s : string) : string * res =
  match words s with
  | label :: rest ->
    let r = match rest with
      | ["skipped"] -> Skipped
      | [t] when String.length t >= 4 && String.sub t 0 4 = "Err:" -> Err (String.sub t 4 (String.length t - 4))
      | [t] when String.length t >= 5 && String.sub t 0 5 = "PANIC" -> Panic t
      | [st; o; x] when String.length o > 4 && String.sub o 0 4 = "obj=" && String.length x >= 2 && String.sub x 0 2 = "x=" ->
        let ob = String.sub o 4 16 in
        let xs = String.sub x 2 (String.length x - 2) in
        let xl = if xs = "-" then [] else String.split_on_char ',' xs in
        Sol (st, q_of_bits ob, all_some (List.map q_of_bits xl))
      | _ -> failwith ("unparsable result: " ^ s) in
    label, r
  | [] -> failwith "empty result"

let res_string = function
  | Sol (st, _, _) -> st | Err e -> "Err:" ^ e | Panic m -> m | Skipped -> "skipped"

(* clauses a-d for one implementation result against the certified exact answer *)
let check_res (p : lP) (tol : q) (exact : lp_result) (label : string) (r : res) : string list =
  match exact, r with
  | (LpOutOfFuel | LpError | Unbounded), _ -> ["MODEL:" ^ status_string exact]
  | _, Skipped -> []
  | Optimal (_, z, _), Sol ("Optimal", Some obj, Some x) ->
    (if q_close_rel tol obj z then [] else [Printf.sprintf "b:objective %s impl=%s exact=%s" label (string_of_q obj) (string_of_q z)])
    @ (if feasible_tol p tol x then [] else [Printf.sprintf "c:point %s not feasible within tol" label])
    @ (let cx = objective p x in
       if q_close_rel tol obj cx then [] else [Printf.sprintf "d:obj-vs-cx %s obj=%s c.x=%s" label (string_of_q obj) (string_of_q cx)])
  | Optimal _, Sol ("Optimal", _, _) -> [Printf.sprintf "c:point %s has a non-finite objective or coordinate" label]
  | Infeasible _, Sol ("Optimal", _, Some x) ->
    [Printf.sprintf "a:status %s=Optimal exact=Infeasible" label]
    @ (if feasible_tol p tol x then [] else [Printf.sprintf "c:point %s not feasible within tol" label])
  | Infeasible _, (Sol ("Infeasible", _, _) | Err "NumericalInstability") -> []
  | _, _ -> [Printf.sprintf "a:status %s=%s exact=%s" label (res_string r) (status_string exact)]

let relabel (c : string) (l : string list) : string list =
  List.map (fun s -> c ^ ":" ^ (match String.index_opt s ':' with Some i -> String.sub s 0 i ^ "/" ^ String.sub s (i + 1) (String.length s - i - 1) | None -> s)) l

let split3 (s : string) : string list =
  (* split on " ||| " *)
  let sep = " ||| " in
  let n = String.length sep in
  let rec go acc i start =
    if i + n > String.length s then List.rev (String.sub s start (String.length s - start) :: acc)
    else if String.sub s i n = sep then go (String.sub s start (i - start) :: acc) (i + n) (i + n)
    else go acc (i + 1) start in
  go [] 0 0

let judge (line : string) : string =
  let parts = split3 line in
  let case, impl, opts = match parts with
    | c :: i :: o -> c, i, o
    | _ -> failwith "lpjudge needs <case> ||| <impl>" in
  let tol = ref (q_of_string "1/1000000") and mode = ref "all" in
  List.iter (fun o ->
      let o = String.trim o in
      if String.length o > 4 && String.sub o 0 4 = "tol=" then tol := q_of_string (String.sub o 4 (String.length o - 4))
      else if String.length o > 5 && String.sub o 0 5 = "mode=" then mode := String.sub o 5 (String.length o - 5)
      else failwith ("bad option " ^ o)) opts;
  let p = parse_problem case in
  let exact = lp_solve fuel p in
  let rs = List.map parse_res (List.map String.trim (String.split_on_char ';' impl)) in
  let get l = try List.assoc l rs with Not_found -> failwith ("missing result " ^ l) in
  let cold = get "cold" and warm = get "warm" and wadd = get "wadd" in
  let fails = ref [] in
  if !mode = "cold" || !mode = "all" then fails := !fails @ check_res p !tol exact "cold" cold;
  if !mode = "warm" || !mode = "all" then begin
    (* e: warm against cold, and warm against the exact answer *)
    (match cold, warm with
     | Sol ("Optimal", Some oc, _), Sol ("Optimal", Some ow, _) ->
       if q_close_rel !tol ow oc then () else
         fails := !fails @ [Printf.sprintf "e:warm objective %s differs from cold %s" (string_of_q ow) (string_of_q oc)]
     | Sol ("Optimal", _, _), w ->
       fails := !fails @ [Printf.sprintf "e:warm %s but cold Optimal" (res_string w)]
     | _, _ -> ());
    (match warm with
     | Skipped | Panic _ -> ()
     | _ -> fails := !fails @ relabel "e" (check_res p !tol exact "warm" warm));
    (match wadd with
     | Skipped -> ()
     | _ -> fails := !fails @ relabel "f" (check_res p !tol exact "wadd" wadd));
    (* the same after dropping the last two / three rows (absent in lines written before these were added) *)
    List.iter (fun l ->
        match (try Some (List.assoc l rs) with Not_found -> None) with
        | None | Some Skipped -> ()
        | Some w -> fails := !fails @ relabel "f" (check_res p !tol exact l w)) ["wadd2"; "wadd3"]
  end;
  if !fails = [] then "ok" else String.concat " & " !fails
