(* `gac` / `gacspec` sub-commands over the extracted model (coq/Model/Gac.v); same grammar and
   output format as harness/src/gac.rs.
     gac     (bitset|sparse|hybrid) <doms> ; op ; ...   ->  alt1 @@ alt2 ... ||| judge
             (one alternative per distinct outcome over all iteration orders of the sparse engine's
              variable map; exactly one alternative for bitset and hybrid)
     gacspec <doms>                                     ->  unsat | supp d|d|...
             specification side: small families by the extracted brute force `all_sols`, larger
             ones by a search whose every witness is checked with the extracted `sol_check` *)
open Selen_model
open Conv

let fmt_dom (d : z list) : string =
  let v = List.sort_uniq compare (ilist d) in
  if v = [] then "-" else begin
    let a = Array.of_list v in
    let n = Array.length a in
    let out = ref [] in
    let i = ref 0 in
    while !i < n do
      let j = ref !i in
      while !j + 1 < n && a.(!j + 1) = a.(!j) + 1 do incr j done;
      if !j - !i >= 2 then out := Printf.sprintf "%d..%d" a.(!i) a.(!j) :: !out
      else for k = !i to !j do out := string_of_int a.(k) :: !out done;
      i := !j + 1
    done;
    String.concat "," (List.rev !out)
  end
let fmt_doms (s : z list list) : string = String.concat "|" (List.map fmt_dom s)

let range_of (d : string) : (int * int) option =
  match Str.bounded_split_delim (Str.regexp_string "..") d 2 with
  | [lo; hi] when (try ignore (int_of_string lo); ignore (int_of_string hi); true with _ -> false) ->
    Some (int_of_string lo, int_of_string hi)
  | _ -> None

(* printed format (values and lo..hi runs mixed) -> value list *)
let parse_printed (d : string) : int list =
  let d = String.trim d in
  if d = "-" || d = "" then [] else
    List.concat_map (fun t -> match range_of t with
        | Some (lo, hi) -> List.init (hi - lo + 1) (fun k -> lo + k)
        | None -> [int_of_string t]) (String.split_on_char ',' d)

let split_doms (s : string) : string list =
  List.filter (fun d -> d <> "") (List.map String.trim (String.split_on_char '|' s))

let rec perms (l : 'a list) : 'a list list =
  match l with
  | [] -> [[]]
  | _ -> List.concat_map (fun x -> List.map (fun p -> x :: p) (perms (List.filter (fun y -> y <> x) l))) l

let seq_nat n = List.init n nat_of_int
let b2i b = if b then 1 else 0

type st = { tags : bool list; doms : z list list }

let step_bh (eng : string) (st : st) (op : string list) : st * string =
  let n = List.length st.doms in
  match op with
  | ["prop"] ->
    let ((s, ch), ok) = (match eng with
        | "bitset" -> bitset_alldiff (seq_nat n) st.doms
        | _ -> hybrid_alldiff st.tags (seq_nat n) st.doms) in
    { st with doms = s }, Printf.sprintf "c=%d %s %s" (b2i ch) (if ok then "ok" else "inc") (fmt_doms s)
  | [o; i; v] ->
    let i = nat_of_int (int_of_string i) and v = z_of_int (int_of_string v) in
    let f = (match eng, o with
        | "bitset", "rm" -> bs_remove_value | "bitset", "assign" -> bs_assign
        | "bitset", "below" -> bs_remove_below | "bitset", "above" -> bs_remove_above
        | "sparse", "rm" -> bs_remove_value | "sparse", "assign" -> sp_assign
        | "sparse", "below" -> bs_remove_below | "sparse", "above" -> bs_remove_above
        | "hybrid", "rm" -> hy_remove_value st.tags | "hybrid", "assign" -> hy_assign st.tags
        | "hybrid", "below" -> hy_remove_below st.tags | "hybrid", "above" -> hy_remove_above st.tags
        | _ -> failwith "bad gac op") in
    let (s, r) = f i v st.doms in
    { st with doms = s }, Printf.sprintf "r=%d %s" (b2i r) (fmt_doms s)
  | _ -> failwith "bad gac op"

(* all outcomes of one sparse propagate over the iteration orders *)
let sparse_prop_outcomes (st : st) : (st * string) list =
  let n = List.length st.doms in
  let outs = Hashtbl.create 8 in
  List.iter (fun order ->
      let r = match sparse_alldiff order st.doms with
        | SpOk (s, ch) -> { st with doms = s }, Printf.sprintf "c=%d ok %s" (b2i ch) (fmt_doms s)
        | SpInc -> st, Printf.sprintf "c=0 inc %s" (fmt_doms st.doms)
        | SpFuel -> st, "FUEL" in
      if not (Hashtbl.mem outs (snd r)) then Hashtbl.add outs (snd r) r) (perms (seq_nat n));
  Hashtbl.fold (fun _ r acc -> r :: acc) outs []

let init_state (eng : string) (ds : string list) : st =
  let mk d =
    match eng, range_of d with
    | "bitset", Some (lo, hi) -> true, bs_new (z_of_int lo) (z_of_int hi)
    | "bitset", None -> true, bs_from_values (zlist (parse_list d))
    | "sparse", Some (lo, hi) -> false, sp_new (z_of_int lo) (z_of_int hi)
    | "sparse", None -> false, sp_from_values (zlist (parse_list d))
    | _, Some (lo, hi) -> if lo > hi then failwith "hybrid add_variable Err" else hy_new (z_of_int lo) (z_of_int hi)
    | _, None -> if parse_list d = [] then failwith "hybrid add_variable_with_values Err" else hy_from_values (zlist (parse_list d)) in
  let l = List.map mk ds in
  { tags = List.map fst l; doms = List.map snd l }

let run_one (line : string) : string =
  let parts = List.map String.trim (String.split_on_char ';' line) in
  let head, ops = match parts with h :: r -> h, List.filter (fun p -> p <> "") r | [] -> failwith "empty" in
  let eng, doms = match Str.bounded_split (Str.regexp " +") head 2 with [e; d] -> e, d | _ -> failwith "engine and domains" in
  let st0 = init_state eng (split_doms doms) in
  (* alternatives: (state, reversed trace) *)
  let alts = ref [ (st0, ["init " ^ fmt_doms st0.doms]) ] in
  List.iter (fun p ->
      let op = words p in
      alts := List.concat_map (fun (st, tr) ->
          if eng = "sparse" && op = ["prop"] then
            List.map (fun (st', o) -> (st', o :: tr)) (sparse_prop_outcomes st)
          else let (st', o) = step_bh eng st op in [ (st', o :: tr) ]) !alts;
      (* dedupe identical traces *)
      alts := List.sort_uniq (fun (_, a) (_, b) -> compare a b) !alts) ops;
  String.concat " @@ " (List.map (fun (_, tr) -> String.concat " / " (List.rev tr)) !alts)

let run_case (line : string) : string =
  let line = String.trim line in
  (if String.length line > 4 && String.sub line 0 4 = "all " then
     let rest = String.sub line 4 (String.length line - 4) in
     String.concat " ## " (List.map (fun e -> try run_one (e ^ " " ^ rest) with Failure m -> "DRIVERERR " ^ m) ["bitset"; "sparse"; "hybrid"])
   else run_one line) ^ " ||| judge"

(* ---- specification side ---- *)
let product_le (doms : int list list) (bound : int) : bool =
  let rec go acc = function [] -> true | d :: r -> let acc = acc * max 1 (List.length d) in acc <= bound && go acc r in
  go 1 doms

(* search for a solution with x_i = v; most constrained variable first *)
let find_witness (doms : int list array) (fix : (int * int) option) : int array option =
  let n = Array.length doms in
  let a = Array.make n 0 and set = Array.make n false in
  let used = Hashtbl.create 16 in
  let rec go k =
    if k = n then true
    else begin
      (* pick the unset variable with the fewest remaining values *)
      let best = ref (-1) and bc = ref max_int in
      for i = 0 to n - 1 do
        if not set.(i) then begin
          let c = List.length (List.filter (fun v -> not (Hashtbl.mem used v)) doms.(i)) in
          if c < !bc then (bc := c; best := i)
        end
      done;
      let i = !best in
      List.exists (fun v ->
          if Hashtbl.mem used v then false
          else begin
            set.(i) <- true; a.(i) <- v; Hashtbl.add used v ();
            let ok = go (k + 1) in
            if not ok then (set.(i) <- false; Hashtbl.remove used v);
            ok
          end) doms.(i)
    end in
  let start = match fix with
    | Some (i, v) -> set.(i) <- true; a.(i) <- v; Hashtbl.add used v (); 1
    | None -> 0 in
  if go start then Some (Array.copy a) else None

let spec_of (doms : int list list) : string =
  let n = List.length doms in
  let zd = List.map zlist doms in
  if product_le doms 20000 then begin
    let sols = List.map ilist (all_sols zd) in
    if sols = [] then "unsat"
    else "supp " ^ String.concat "|" (List.init n (fun i -> fmt_dom (zlist (List.sort_uniq compare (List.map (fun s -> List.nth s i) sols)))))
  end else begin
    let da = Array.of_list doms in
    let certified w = if sol_check zd (zlist (Array.to_list w)) then () else failwith "witness rejected by sol_check" in
    match find_witness da None with
    | None -> "unsat"
    | Some w0 ->
      certified w0;
      (* values used by already known witnesses are supported; search only for the others *)
      let supp = Array.make n [] in
      let known = Array.init n (fun _ -> Hashtbl.create 16) in
      let note w = Array.iteri (fun i v -> Hashtbl.replace known.(i) v ()) w in
      note w0;
      List.iteri (fun i d ->
          List.iter (fun v ->
              if not (Hashtbl.mem known.(i) v) then
                (match find_witness da (Some (i, v)) with
                 | Some w -> certified w; note w
                 | None -> ())) d;
          supp.(i) <- List.filter (fun v -> Hashtbl.mem known.(i) v) d) doms;
      "supp " ^ String.concat "|" (List.map (fun l -> fmt_dom (zlist l)) (Array.to_list supp))
  end

let run_spec (line : string) : string =
  spec_of (List.map parse_printed (List.filter (fun d -> d <> "") (List.map String.trim (String.split_on_char '|' line))))
