(* sub-commands propf / searchf / solvef / lowerf (grammar: harness/src/fsolve.rs).
   propf and searchf run the extracted bit-exact model (coq/Model/{FloatStore,FloatProps,FloatSearch}.v) on the same
   props-level case and print the same canonical line as the harness (domains / values as f64 bit patterns).
   solvef and lowerf exercise the public Model API, whose float path (runtime_api lowering of float constraints,
   minimize/maximize dispatch, root LP step, optimisation fast path) has NO Coq model: these two sub-commands are
   oracle-only, the driver prints "- ||| -" and the property is judged by vlib/fmodel.py (exact rationals) and, for
   C08, by the verified exact-rational LP model through the `lp` sub-command. *)
open Selen_model
open Conv
open Fi_cmd

let var_ix (t : string) : int = int_of_string (String.sub t 1 (String.length t - 1))
let var_list (t : string) : int list = if t = "-" then [] else List.map var_ix (String.split_on_char ',' t)
let flist (t : string) : f64 list = if t = "-" then [] else List.map f_of_hex (String.split_on_char ',' t)


(* solvef: the only modelled part is the DISPATCH (coq/Model/FloatDispatch.v): the case line is abstracted into the list of
   posts and the extracted gate predicates are evaluated; printed as the model part `gate=<0|1> fp=<0|1>` (gate = the root LP
   step runs, fp = the optimisation fast path is consulted), `nogate` for entries / vocabulary outside the dispatch model
   (solve, conversions).  The property part is "-" (judged by vlib). *)
let rel_of = function
  | "le" | "leq" -> RLe | "lt" -> RLt | "ge" | "geq" -> RGe | "gt" -> RGt | "eq" -> REq | "ne" -> RNe
  | r -> failwith ("bad rel " ^ r)
let vars_in (s : string) : int list =
  (* every xN occurrence, in order of first appearance, without repetition *)
  let re = Str.regexp "x\\([0-9]+\\)" in
  let rec go pos acc =
    match (try Some (Str.search_forward re s pos) with Not_found -> None) with
    | None -> List.rev acc
    | Some _ ->
      let v = int_of_string (Str.matched_group 1 s) in
      let e = Str.match_end () in
      go e (if List.mem v acc then acc else v :: acc) in
  go 0 []
let contains (s : string) (sub : string) : bool =
  try ignore (Str.search_forward (Str.regexp_string sub) s 0); true with Not_found -> false
(* ExprBuilder::mul folds a multiplication by the INTEGER literal 1 at build time (runtime_api/mod.rs, `pub fn mul`) *)
let fold_mul_one (cons : string) : string =
  let c = Str.global_replace (Str.regexp "mul(\\(x[0-9]+\\),1)") "\\1" cons in
  Str.global_replace (Str.regexp "mul(1,\\(x[0-9]+\\))") "\\1" c
let is_plain_var (t : string) : bool = Str.string_match (Str.regexp "^x[0-9]+$") t 0
let is_plain_const (t : string) : bool = Str.string_match (Str.regexp "^\\(f:[0-9a-f]+\\|-?[0-9]+\\)$") t 0
(* declared variable kinds: true = float *)
let decl_kinds (decls : string) : bool array =
  Array.of_list (List.map (fun d -> match words d with "F" :: _ -> true | _ -> false)
                   (List.filter (fun d -> String.trim d <> "") (String.split_on_char '|' decls)))
let any_float (kinds : bool array) (vs : int list) : bool =
  List.exists (fun v -> v < Array.length kinds && kinds.(v)) vs
let is_float_kind k = (k = KFloatLin)

(* lowerf: the modelled part is the KIND of propagator family every linear post is materialised as (Coq: linear_lowering);
   printed as the model part `kinds=<F|I>:<v,v,..> ...` in posting order, one item per lin / ilin / linear fluent post
   (Var == Val excluded: it is materialised as an Eq propagator). *)
let run_lowerf (line : string) : string =
  let parts = List.map String.trim (String.split_on_char ';' line) in
  match parts with
  | _ :: decls :: rest ->
    let kinds = decl_kinds decls in
    let items = List.filter_map (fun p ->
        let item il vs = Some ((if is_float_kind (linear_lowering il (any_float kinds vs)) then "F:" else "I:")
                               ^ String.concat "," (List.map string_of_int (List.sort compare vs))) in
        match words p with
        | ["lin"; _; _; xs; _] -> item false (var_list xs)
        | ["ilin"; _; _; xs; _] -> item true (var_list xs)
        | ["new"; cons] ->
          let cons = fold_mul_one cons in
          let inner = String.sub cons (String.index cons '(' + 1) (String.length cons - String.index cons '(' - 2) in
          let op = String.sub cons 0 (String.index cons '(') in
          let vv = op = "eq" && not (String.contains inner '(') &&
                   (match String.split_on_char ',' inner with
                    | [a; b] -> (is_plain_var a && is_plain_const b) || (is_plain_const a && is_plain_var b)
                    | _ -> false) in
          if vv || contains cons "div(" then None else item (not (contains cons "f:")) (vars_in cons)
        | ["props"; k; _; xs; _] when String.length k > 4 && String.sub k 0 4 = "flin" ->
          Some ("F:" ^ String.concat "," (List.map string_of_int (List.sort compare (var_list xs))))
        | _ -> None) rest in
    "kinds=" ^ (if items = [] then "-" else String.concat " " items) ^ " ||| -"
  | _ -> failwith "lowerf syntax"

let run_solvef (line : string) : string =
  let parts = List.map String.trim (String.split_on_char ';' line) in
  let posts = ref [] and entry = ref [] and lp = ref false and fp = ref false and outside = ref false in
  let kinds = match parts with _ :: decls :: _ -> decl_kinds decls | _ -> [||] in
  (match parts with
   | _ :: _ :: rest ->
     List.iter (fun p ->
         match words p with
         | [] -> ()
         | ["lin"; rel; _; xs; _] -> posts := !posts @ [PLin (true, rel_of rel, var_list xs)]
         | ["ilin"; rel; _; xs; _] ->
           posts := !posts @ [PLin (is_float_kind (linear_lowering true (any_float kinds (var_list xs))), rel_of rel, var_list xs)]
         | ["new"; cons] ->
           let cons = fold_mul_one cons in
           let op = String.sub cons 0 (String.index cons '(') in
           let inner = String.sub cons (String.index cons '(' + 1) (String.length cons - String.index cons '(' - 2) in
           let vv = op = "eq" && not (String.contains inner '(') &&
                    (match String.split_on_char ',' inner with
                     | [a; b] -> (is_plain_var a && is_plain_const b) || (is_plain_const a && is_plain_var b)
                     | _ -> false) in
           let il = not (contains cons "f:") in
           posts := !posts @ [PNew (rel_of op, vars_in cons, not (is_float_kind (linear_lowering il (any_float kinds (vars_in cons)))), vv)]
         | ["props"; k; _; xs; _] when String.length k > 4 && String.sub k 0 4 = "flin" ->
           posts := !posts @ [PFlin (rel_of (String.sub k 4 (String.length k - 4)), var_list xs)]
         | ["props"; k; a; b] ->
           let pv t = if is_plain_var t then Some (var_ix t) else None in
           posts := !posts @ [PCmp (rel_of k, pv a, pv b)]
         | "conv" :: _ -> outside := true
         | ("arith" | "elem" | "elemi" | "elemx") :: _ -> outside := true   (* arithmetic / element routes: oracle-only *)
         | ("solve" | "min" | "max") :: _ as e -> entry := e
         | ["lp"] -> lp := true
         | ["fp"] -> fp := true
         | "to" :: _ -> ()
         | _ -> failwith ("bad post " ^ p)) rest
   | _ -> failwith "solvef syntax");
  match !entry with
  | [("min" | "max"); x] when not !outside ->
    Printf.sprintf "gate=%s fp=%s ||| -" (b2s (root_lp_gate !lp !posts (var_ix x))) (b2s (fast_path_consulted !fp !posts))
  | _ -> "nogate ||| -"


let strip_prefix (p : string) (s : string) : string option =
  let n = String.length p in
  if String.length s >= n && String.sub s 0 n = p then Some (String.sub s n (String.length s - n)) else None

let rec parse_fv (s : string) : fview =
  let s = String.trim s in
  match strip_prefix "next(" s with
  | Some r -> FNext (parse_fv (String.sub r 0 (String.length r - 1)))
  | None ->
    match strip_prefix "f:" s with
    | Some r -> FConst (VlF (f_of_hex r))
    | None ->
      match strip_prefix "i:" s with
      | Some r -> FConst (VlI (z_of_int (int_of_string r)))
      | None -> FVar (var_ix s)

let parse_dom (d : string) : fvar =
  let d = String.trim d in
  match strip_prefix "F " d with
  | Some r ->
    (match words r with
     | [a; b; s] -> VF { imin = f_of_hex a; imax = f_of_hex b; istep = f_of_hex s }
     | _ -> failwith "bad float dom")
  | None ->
    (match Str.bounded_split_delim (Str.regexp_string "..") d 2 with
     | [lo; hi] -> VI (drange (z_of_int (int_of_string lo)) (z_of_int (int_of_string hi)))
     | _ -> VI (dof_values (zlist (parse_list d))))

let post (t : string list) : fprop option =
  match t with
  | ["flineq"; c; x; k] -> Some (mk_flin_eq (flist c) (var_list x) (f_of_hex k))
  | ["flinle"; c; x; k] -> Some (mk_flin_le (flist c) (var_list x) (f_of_hex k))
  | ["flinne"; c; x; k] -> Some (mk_flin_ne (flist c) (var_list x) (f_of_hex k))
  | ["flineqr"; c; x; k; b] -> Some (mk_flin_eq_reif (flist c) (var_list x) (f_of_hex k) (var_ix b))
  | ["flinler"; c; x; k; b] -> Some (mk_flin_le_reif (flist c) (var_list x) (f_of_hex k) (var_ix b))
  | ["flinner"; c; x; k; b] -> Some (mk_flin_ne_reif (flist c) (var_list x) (f_of_hex k) (var_ix b))
  | ["ilinle"; c; x; k] -> Some (mk_ilin_le_mixed (zlist (parse_list c)) (var_list x) (z_of_int (int_of_string k)))
  | ["leq"; a; b] -> Some (mk_fleq (parse_fv a) (parse_fv b))
  | ["lt"; a; b] -> Some (mk_flt (parse_fv a) (parse_fv b))
  | ["geq"; a; b] -> Some (mk_fgeq (parse_fv a) (parse_fv b))
  | ["gt"; a; b] -> Some (mk_fgt (parse_fv a) (parse_fv b))
  | ["eq"; a; b] -> Some (mk_feq (parse_fv a) (parse_fv b))
  | ["add"; a; b; s] -> Some (mk_fadd (parse_fv a) (parse_fv b) (var_ix s))
  | ["sub"; a; b; s] -> Some (mk_fsub (parse_fv a) (parse_fv b) (var_ix s))
  | ["mul"; a; b; s] -> Some (mk_fmul (parse_fv a) (parse_fv b) (var_ix s))
  | _ -> None

let fmt_dom_ints (e : int list) : string =
  (* maximal runs a..b, single values, comma separated; "-" if empty (mlevel.rs fmt_dom) *)
  if e = [] then "-" else begin
    let a = Array.of_list e in
    let n = Array.length a in
    let segs = ref [] in
    let i = ref 0 in
    while !i < n do
      let j = ref !i in
      while !j + 1 < n && a.(!j + 1) = a.(!j) + 1 do incr j done;
      segs := (if !j > !i then Printf.sprintf "%d..%d" a.(!i) a.(!j) else string_of_int a.(!i)) :: !segs;
      i := !j + 1
    done;
    String.concat "," (List.rev !segs)
  end

let fmt_var (x : fvar) : string =
  match x with
  | VI d -> fmt_dom_ints (ilist d)
  | VF i -> "F " ^ st i
let fmt_store (s : fvar list) : string = String.concat "|" (List.map fmt_var s)
let fmt_val (b : fval) : string =
  match b with VlI z -> string_of_int (int_of_z z) | VlF x -> "F" ^ hex_of_f x

type setup = { store : fvar list; props : fprop list; entry : string list }
let setup (line : string) : setup =
  let parts = List.map String.trim (String.split_on_char ';' line) in
  let doms, rest = match parts with d :: r -> d, r | [] -> failwith "empty" in
  let store = List.map parse_dom (List.filter (fun d -> String.trim d <> "") (String.split_on_char '|' doms)) in
  let props = ref [] and entry = ref [] in
  List.iter (fun p ->
      if p <> "" then begin
        let t = words p in
        match t with
        | ("first" | "min" | "max") :: _ -> entry := t
        | _ -> (match post t with Some pr -> props := !props @ [pr] | None -> failwith ("bad pspec " ^ p))
      end) rest;
  { store; props = !props; entry = !entry }

let pfuel = nat_of_int 30000

let run_propf (line : string) : string =
  let st = setup line in
  (match fpropagate_all pfuel st.props st.store with
   | FPFail -> "fail"
   | FPFuel -> "FUEL"
   | FPDone s -> Printf.sprintf "ok %s %s" (if fall_assigned s then "solved" else "stalled") (fmt_store s))

let run_searchf (line : string) : string =
  let st = setup line in
  let depth = nat_of_int 4000 and budget = nat_of_int 60000 in
  let r = match st.entry with
    | [] | ["first"] -> fsolve_first depth budget st.props st.store
    | ["min"; x] -> fminimize_seq depth budget (nat_of_int 40) (FVar (var_ix x)) st.props st.store
    | ["max"; x] -> fminimize_seq depth budget (nat_of_int 40) (FOpp (FVar (var_ix x))) st.props st.store
    | _ -> failwith "bad entry" in
  match r.fs_stop with
  | StopFuel -> "FUEL"
  | StopPanic -> "PANIC"
  | Running | StopMore ->
    "sols " ^ (if r.fs_sols = [] then "-" else String.concat " " (List.map (fun sol -> String.concat "," (List.map fmt_val sol)) r.fs_sols))
