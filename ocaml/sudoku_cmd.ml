(* `sudoku` sub-command (property C18) over the extracted model coq/Model/Sudoku.v; same case grammar as
   harness/src/sudoku.rs.  Output: `model ||| spec`.
   model = grid|none|perr ; parse=ok|err|- ; res=<grid>|none ; gen=<grid>|none ; c0=<masks> ; adv=0|1 ; c1=<masks> ; eqs=<r,c,d ...>|- ; str=<grid>|none|-
   spec  = sat | unsat | parse-err.  A raw grid with a cell outside 0..9 is an ordinary case: no completion, the
   answer must be none (theorem sudoku_out_of_range_none; the former class kf_clue_out_of_range is repaired).
   The specification side ("do the clues admit a completion?") is decided by the model's own complete search:
   theorems sudoku_complete / sudoku_none_sound / sudoku_sound (Properties/C18.v) say that its verdict IS the
   existence of a completion; a `sat` answer is additionally certified here by checking the model's grid with the
   extracted valid_sudokub / agreesb; when the specialised and the general model disagree the line says SPECSPLIT. *)
open Selen_model
open Conv

let fmt_grid (g : z list) : string =
  let l = ilist g in
  if List.for_all (fun v -> v >= 0 && v <= 9) l
  then String.concat "" (List.map string_of_int l)
  else String.concat "," (List.map string_of_int l)

let fmt_res (r : z list option option) : string =
  match r with
  | None -> "FUEL"
  | Some None -> "none"
  | Some (Some g) -> fmt_grid g

let fmt_masks (cs : z list list) : string =
  String.concat "" (List.map (fun ds ->
    let m = List.fold_left (fun m d -> let d = int_of_z d in if d >= 1 && d <= 16 then m lor (1 lsl (d - 1)) else m) 0 ds in
    Printf.sprintf "%03x" m) cs)

let fmt_posts (l : (nat * z) list) : string =
  if l = [] then "-" else
  String.concat " " (List.map (fun (i, d) -> let i = int_of_nat i in Printf.sprintf "%d,%d,%d" (i / 9) (i mod 9) (int_of_z d)) l)

(* clue count >= 28: the harness also goes through solve_sudoku_string *)
let clue_count (p : z list) : int = List.length (List.filter (fun v -> int_of_z v <> 0) p)

let grid_part (p : z list) : string * string * z list option option =
  let res = solve_sudoku_exec p in
  let gen = solve_general_exec p in
  let c0, adv, c1, eqs =
    let cs = new_cands p in
    let ((posts, cs'), prog) = apply_advanced p cs in
    fmt_masks cs, b2s prog, fmt_masks cs', fmt_posts posts in
  let certified = match res with
    | Some (Some g) -> valid_sudokub g && agreesb p g
    | _ -> false in
  let split = match res, gen with
    | Some (Some _), Some (Some _) | Some None, Some None -> ""
    | _ -> " SPECSPLIT" in
  let spec =
    (match res with
     | Some (Some _) when certified -> "sat"
     | Some (Some _) -> "UNCERTIFIED"
     | Some None -> "unsat"
     | None -> "FUEL") ^ split in
  (Printf.sprintf "res=%s ; gen=%s ; c0=%s ; adv=%s ; c1=%s ; eqs=%s" (fmt_res res) (fmt_res gen) c0 adv c1 eqs, spec, res)

let strip_prefix (pre : string) (s : string) : string option =
  let n = String.length pre in
  if String.length s >= n && String.sub s 0 n = pre then Some (String.sub s n (String.length s - n)) else None

let outcome (m : string) : string =
  if String.length m >= 8 && String.sub m 0 8 = "res=none" then "none" else "grid"

let run_case (line : string) : string =
  let line = String.trim line in
  match strip_prefix "g:" line with
  | Some raw ->
    let vals = List.map (fun t -> z_of_int (int_of_string (String.trim t))) (String.split_on_char ',' raw) in
    if List.length vals <> 81 then "BADCASE" else begin
      let (m, spec, _) = grid_part vals in
      Printf.sprintf "%s ; parse=- ; %s ; str=- ||| %s" (outcome m) m spec
    end
  | None ->
    let text = match strip_prefix "s:" line with Some t -> t | None -> line in
    let bytes = List.init (String.length text) (fun i -> nat_of_int (Char.code text.[i])) in
    match parse_string bytes with
    | None ->
      Printf.sprintf "perr ; parse=err ; res=- ; str=%s ||| parse-err" (fmt_res (solve_sudoku_string_exec bytes))
    | Some p ->
      let (m, spec, res) = grid_part p in
      (* solve_sudoku_string = parse_string then solve_sudoku: same function of p; reported when the harness does *)
      let str = if clue_count p >= 28 then fmt_res res else "-" in
      Printf.sprintf "%s ; parse=ok ; %s ; str=%s ||| %s" (outcome m) m str spec
