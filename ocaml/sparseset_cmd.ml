(* sub-command `sparseset`: same grammar as harness/src/sparseset.rs.
   Output: "<model observations> ||| <spec observations>" *)
open Selen_model
open Conv

let obs_model (s : sset) (extra : string) : string =
  let el = List.sort compare (ilist (ss_iter s)) in
  let co = List.sort compare (ilist (ss_complement_iter s)) in
  let empty = ss_is_empty s in
  let mn, mx = if empty then "-", "-" else string_of_int (int_of_z (ss_min s)), string_of_int (int_of_z (ss_max s)) in
  let fl = match ss_first s, ss_last s with
    | Some a, Some b -> if List.mem (int_of_z a) el && List.mem (int_of_z b) el then "in" else "OUT"
    | None, None -> "none"
    | _ -> "MIXED" in
  Printf.sprintf "sz=%d e=%s f=%s mn=%s mx=%s el=%s co=%s fl=%s%s"
    (int_of_nat s.size) (b2s empty) (b2s (ss_is_fixed s)) mn mx (fmt_list el) (fmt_list co) fl extra

(* the spec side prints what a plain set would report *)
let obs_spec (sp : spec) (extra : string) : string =
  let el = List.sort_uniq compare (ilist sp.cur) in
  let un = ilist (universe sp) in
  let co = List.filter (fun x -> not (List.mem x el)) un in
  let empty = el = [] in
  let mn, mx = if empty then "-", "-" else string_of_int (List.hd el), string_of_int (List.nth el (List.length el - 1)) in
  Printf.sprintf "sz=%d e=%s f=%s mn=%s mx=%s el=%s co=%s fl=%s%s"
    (List.length el) (b2s empty) (b2s (List.length el = 1)) mn mx (fmt_list el) (fmt_list co)
    (if empty then "none" else "in") extra

let run_case (line : string) : string =
  let parts = List.map String.trim (String.split_on_char ';' line) in
  let init, ops = match parts with i :: r -> i, r | [] -> failwith "empty" in
  let s0 = match words init with
    | ["r"; lo; hi] -> ss_new (z_of_int (int_of_string lo)) (z_of_int (int_of_string hi))
    | ["v"; l] -> ss_new_from_values (zlist (parse_list l))
    | ["v"] -> ss_new_from_values []
    | _ -> failwith "bad init" in
  let c = ref (s0, []) in
  let sp = ref (spec_init s0) in
  let outm = ref [obs_model s0 ""] in
  let outs = ref [obs_spec !sp ""] in
  let step o = c := ss_step !c o; sp := spec_step !sp o in
  List.iter (fun p ->
    if p <> "" then begin
      let em = ref "" and es = ref "" in
      let curset () = List.sort_uniq compare (ilist (!sp).cur) in
      (match words p with
       | ["rm"; x] ->
         let x = int_of_string x in
         let (_, r) = ss_remove (fst !c) (z_of_int x) in
         em := " r=" ^ b2s r; es := " r=" ^ b2s (List.mem x (curset ()));
         step (ORemove (z_of_int x))
       | ["rmall"] -> step ORemoveAll
       | ["only"; x] -> step (OOnly (z_of_int (int_of_string x)))
       | ["below"; x] -> step (OBelow (z_of_int (int_of_string x)))
       | ["above"; x] -> step (OAbove (z_of_int (int_of_string x)))
       | ["inter"; l] -> step (OInter (zlist (parse_list l)))
       | ["union"; l] -> step (OUnion (zlist (parse_list l)))
       | ["diff"; l] -> step (ODiff (zlist (parse_list l)))
       | ["save"] -> step OSave
       | ["restore"; k] -> step (ORestore (nat_of_int (int_of_string k)))
       | ["subset"; l] ->
         let l = parse_list l in
         em := " r=" ^ b2s (ss_is_subset_of (fst !c) (ss_new_from_values (zlist l)));
         es := " r=" ^ b2s (List.for_all (fun x -> List.mem x l) (curset ()))
       | ["equals"; l] ->
         let l = parse_list l in
         em := " r=" ^ b2s (ss_equals (fst !c) (ss_new_from_values (zlist l)));
         es := " r=" ^ b2s (curset () = List.sort_uniq compare l)
       | ["has"; x] ->
         let x = int_of_string x in
         em := " r=" ^ b2s (ss_contains (fst !c) (z_of_int x));
         es := " r=" ^ b2s (List.mem x (curset ()))
       | _ -> failwith ("bad op " ^ p));
      outm := obs_model (fst !c) !em :: !outm;
      outs := obs_spec !sp !es :: !outs
    end) ops;
  String.concat " / " (List.rev !outm) ^ " ||| " ^ (if (!sp).bad then "BAD:restore_after_union " else "") ^ String.concat " / " (List.rev !outs)
