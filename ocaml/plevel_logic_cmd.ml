(* Group `Logic` (Model/Props/Logic.v): same pspec kinds as harness/src/plevel_logic.rs *)
open Selen_model
open Conv
open Plevel_cmd

let triple (tok : string) =
  match String.split_on_char ':' tok with
  | [k; v; z] -> k, var_ix v, zi z
  | _ -> failwith ("bad ite atom " ^ tok)
let cond_of tok =
  let k, v, z = triple tok in
  let k = match k with "eq" -> CEq | "ne" -> CNe | "gt" -> CGt | "lt" -> CLt | _ -> failwith ("bad condition kind " ^ k) in
  ((k, v), z)
let simple_of tok =
  let k, v, z = triple tok in
  let k = match k with "eq" -> SEq | "ne" -> SNe | "gt" -> SGt | "lt" -> SLt | "ge" -> SGe | "le" -> SLe
                     | _ -> failwith ("bad simple constraint kind " ^ k) in
  ((k, v), z)

let () =
  let prev = !post_hook in
  post_hook := (fun kind args ->
    match kind, args with
    | "band", [xs; r] -> Some (mk_band (var_list xs) (var_ix r))
    | "bor", [xs; r] -> Some (mk_bor (var_list xs) (var_ix r))
    | "bnot", [o; r] -> Some (mk_bnot (var_ix o) (var_ix r))
    | "bxor", [x; y; r] -> Some (mk_bxor (var_ix x) (var_ix y) (var_ix r))
    | "eqr", [x; y; b] -> Some (mk_eq_reif (var_ix x) (var_ix y) (var_ix b))
    | "ner", [x; y; b] -> Some (mk_ne_reif (var_ix x) (var_ix y) (var_ix b))
    | "ltr", [x; y; b] -> Some (mk_lt_reif (var_ix x) (var_ix y) (var_ix b))
    | "ler", [x; y; b] -> Some (mk_le_reif (var_ix x) (var_ix y) (var_ix b))
    | "gtr", [x; y; b] -> Some (mk_gt_reif (var_ix x) (var_ix y) (var_ix b))
    | "ger", [x; y; b] -> Some (mk_ge_reif (var_ix x) (var_ix y) (var_ix b))
    | "alleq", [xs] -> Some (mk_alleq_fixed (var_list xs))   (* repaired in /repo by fix commit c1688a4 *)
    | "between", [l; m; u] -> Some (mk_between (var_ix l) (var_ix m) (var_ix u))
    | "ite", [c; t] -> Some (mk_ite (cond_of c) (simple_of t) None)
    | "ite", [c; t; e] -> Some (mk_ite (cond_of c) (simple_of t) (Some (simple_of e)))
    | _ -> prev kind args)

(* alleq_empty was repaired (fix c1688a4): no known class is registered; a recurrence is a violation *)
