(* Model-level sub-commands over the extracted model (Model/Api.v, Model/Lower.v); same case grammar
   as harness/src/mlevel.rs.
     lower   -> `ok <final domains> ; <pspec> ; ...` | `err <variant>` | `PANIC`
     msolve  -> `<model> ||| [BAD:<class> ]<spec>`
                model = solution set predicted by the exact characterisation `impl_cons` (what the
                        lowering enforces; = `holds` since the repair of D3: LowerProofs.impl_holds),
                        spec = brute force of `eval_cons` over the declared domains
     mspell  -> every alternative's predicted set ` / `-joined ||| spec of the first alternative *)
open Selen_model
open Conv

let split_top (s : string) : string list =
  let out = ref [] and depth = ref 0 and start = ref 0 in
  String.iteri (fun i ch -> match ch with
    | '(' -> incr depth | ')' -> decr depth
    | ',' when !depth = 0 -> out := String.sub s !start (i - !start) :: !out; start := i + 1
    | _ -> ()) s;
  List.rev (String.sub s !start (String.length s - !start) :: !out)

let head_args (s : string) : (string * string list) option =
  match String.index_opt s '(' with
  | Some op when s.[String.length s - 1] = ')' ->
    Some (String.sub s 0 op, split_top (String.sub s (op + 1) (String.length s - op - 2)))
  | _ -> None

(* the user's call tree, read as its arithmetic meaning (raw constructors; `build` applies the
   smart constructors through fold_cons) *)
let rec parse_expr (s : string) : expr =
  let s = String.trim s in
  let n = String.length s in
  if n > 1 && s.[0] = 'x' && int_of_string_opt (String.sub s 1 (n - 1)) <> None
  then EVar (nat_of_int (int_of_string (String.sub s 1 (n - 1))))
  else match int_of_string_opt s with
    | Some c -> EVal (z_of_int c)
    | None ->
      match head_args s with
      | Some (h, [a; b]) ->
        let l = parse_expr a and r = parse_expr b in
        (match h with
         | "add" -> EAdd (l, r) | "sub" -> ESub (l, r) | "mul" -> EMul (l, r) | "mod" -> EMod (l, r)
         | _ -> failwith ("bad expr op " ^ h))
      | _ -> failwith ("expr syntax " ^ s)

let cmp_of = function
  | "eq" -> OEq | "ne" -> ONe | "lt" -> OLt | "le" -> OLe | "gt" -> OGt | "ge" -> OGe
  | h -> failwith ("bad comparison " ^ h)

(* and_all / or_all / all_of / any_of over a Vec<Constraint> (Model/Api.v c_and_all ..): None on an empty vector *)
let rec parse_cons_opt (s : string) : cons option =
  let s = String.trim s in
  let list args = List.map parse_cons (List.filter (fun a -> String.trim a <> "") args) in
  match head_args s with
  | Some ("andall", args) -> c_and_all (list args)
  | Some ("orall", args) -> c_or_all (list args)
  | Some ("allof", args) -> c_all_of (list args)
  | Some ("anyof", args) -> c_any_of (list args)
  | _ -> Some (parse_cons s)
and parse_cons (s : string) : cons =
  let s = String.trim s in
  match head_args s with
  | Some (("andall" | "orall" | "allof" | "anyof"), _) ->
    (match parse_cons_opt s with Some c -> c | None -> failwith "empty combinator nested in a tree")
  | Some ("and", [a; b]) -> CAnd (parse_cons a, parse_cons b)
  | Some ("or", [a; b]) -> COr (parse_cons a, parse_cons b)
  | Some ("not", [a]) -> CNot (parse_cons a)
  | Some (h, [a; b]) -> CBin (parse_expr a, cmp_of h, parse_expr b)
  | _ -> failwith ("cons syntax " ^ s)

let var_ix (t : string) : nat =
  let t = String.trim t in
  nat_of_int (int_of_string (if String.length t > 0 && t.[0] = 'x' then String.sub t 1 (String.length t - 1) else t))

let parse_decl (d : string) : stmt =
  if d = "b" then SBool
  else match Str.bounded_split_delim (Str.regexp_string "..") d 2 with
    | [lo; hi] when int_of_string_opt lo <> None && int_of_string_opt hi <> None ->
      SInt (z_of_int (int_of_string lo), z_of_int (int_of_string hi))
    | _ -> SSet (zlist (parse_list d))

let parse_decls (s : string) : stmt list =
  List.filter_map (fun d -> let d = String.trim d in if d = "" then None else Some (parse_decl d)) (String.split_on_char '|' s)

(* `new <combinator>()`: the helper returned None, nothing is posted *)
let empty_new (p : string) : bool =
  match words p with
  | ["new"; c] -> parse_cons_opt c = None
  | _ -> false

let parse_post (p : string) : stmt option =
  match words p with
  | ["new"; c] -> (match parse_cons_opt c with Some c -> Some (SNew c) | None -> None)
  | ["lin"; op; cs; xs; k] ->
    Some (SLin (cmp_of op, zlist (parse_list cs), (if xs = "-" then [] else List.map var_ix (String.split_on_char ',' xs)), z_of_int (int_of_string k)))
  | ["api"; f; x; y] ->
    Some (SApi ((match f with "add" -> FAdd | "sub" -> FSub | "mul" -> FMul | _ -> failwith "bad api fn"), var_ix x, var_ix y))
  | _ -> None

type case = { prog : stmt list; entry : string list }

let parse_case (line : string) : case =
  match List.map String.trim (String.split_on_char ';' line) with
  | [] -> failwith "empty"
  | decls :: rest ->
    let posts = ref [] and entry = ref ["enum"] in
    List.iter (fun p ->
      if p <> "" && not (empty_new p) then
        match parse_post p with
        | Some s -> posts := s :: !posts
        | None ->
          (match words p with
           | ("enum" | "enumall" | "first" | "min" | "max") :: _ as e -> entry := e
           | ["prod"] -> ()   (* production configuration flag: concerns the implementation run only *)
           | _ -> failwith ("bad post " ^ p))) rest;
    { prog = parse_decls decls @ List.rev !posts; entry = !entry }

(* ---- printing: the canonical dump shared with the harness ---- *)
let fmt_dom (d : z list) : string =
  let e = Array.of_list (ilist d) in
  let n = Array.length e in
  if n = 0 then "-" else begin
    let segs = ref [] and i = ref 0 in
    while !i < n do
      let j = ref !i in
      while !j + 1 < n && e.(!j + 1) = e.(!j) + 1 do incr j done;
      segs := (if !j > !i then Printf.sprintf "%d..%d" e.(!i) e.(!j) else string_of_int e.(!i)) :: !segs;
      i := !j + 1
    done;
    String.concat "," (List.rev !segs)
  end

let rec fmt_view (w : view) : string =
  match w with
  | VVar v -> "x" ^ string_of_int (int_of_nat v)
  | VConst c -> "c:" ^ string_of_int (int_of_z c)
  | VOpp w -> "opp(" ^ fmt_view w ^ ")"
  | VPlus (w, c) -> Printf.sprintf "plus(%s,%d)" (fmt_view w) (int_of_z c)
  | VTimesPos (w, k) -> Printf.sprintf "times(%s,%d)" (fmt_view w) (int_of_z k)
  | VNext w -> "next(" ^ fmt_view w ^ ")"
  | VPrev w -> "prev(" ^ fmt_view w ^ ")"

let dash l = if l = [] then "-" else String.concat "," l
let xv v = "x" ^ string_of_int (int_of_nat v)
let fmt_pdesc (p : pdesc) : string =
  let lin k cs xs c = Printf.sprintf "%s %s %s %d" k (dash (List.map (fun z -> string_of_int (int_of_z z)) cs)) (dash (List.map xv xs)) (int_of_z c) in
  match p with
  | PAdd (x, y, s) -> Printf.sprintf "add %s %s %s" (fmt_view x) (fmt_view y) (xv s)
  | PMul (x, y, s) -> Printf.sprintf "mul %s %s %s" (fmt_view x) (fmt_view y) (xv s)
  | PMod (x, y, s) -> Printf.sprintf "mod %s %s %s" (fmt_view x) (fmt_view y) (xv s)
  | PLeq (x, y) -> Printf.sprintf "leq %s %s" (fmt_view x) (fmt_view y)
  | PEq (x, y) -> Printf.sprintf "eq %s %s" (fmt_view x) (fmt_view y)
  | PNeq (x, y) -> Printf.sprintf "neq %s %s" (fmt_view x) (fmt_view y)
  | PLinEq (cs, xs, k) -> lin "lineq" cs xs k
  | PLinLe (cs, xs, k) -> lin "linle" cs xs k
  | PLinNe (cs, xs, k) -> lin "linne" cs xs k
  (* the reified lowering of Or / Not (Lower.reify): same spelling as the posting routes' dump (mroutes) *)
  | PCmpR (op, x, y, b) ->
    Printf.sprintf "%s %s %s %s" (match op with OEq -> "eqr" | ONe -> "ner" | OLt -> "ltr" | OLe -> "ler" | OGt -> "gtr" | OGe -> "ger") (xv x) (xv y) (xv b)
  | PLinEqR (cs, xs, k, b) -> lin "lineqr" cs xs k ^ " " ^ xv b
  | PLinLeR (cs, xs, k, b) -> lin "linler" cs xs k ^ " " ^ xv b
  | PLinNeR (cs, xs, k, b) -> lin "linner" cs xs k ^ " " ^ xv b
  | PAndR (xs, r) -> Printf.sprintf "band %s %s" (dash (List.map xv xs)) (xv r)
  | POrR (xs, r) -> Printf.sprintf "bor %s %s" (dash (List.map xv xs)) (xv r)
  | PNotR (o, r) -> Printf.sprintf "bnot %s %s" (xv o) (xv r)

let run_lower (line : string) : string =
  let c = parse_case line in
  match lower (build c.prog) with
  | LPanic -> "PANIC"
  | LOk (s, ps) ->
    (match validate s ps with
     | Some EInvalidDomain -> "err InvalidDomain"
     | Some EInvalidConstraint -> "err InvalidConstraint"
     | None ->
       Printf.sprintf "ok %s ; %s" (String.concat "|" (List.map fmt_dom s))
         (if ps = [] then "-" else String.concat " ; " (List.map fmt_pdesc ps)))

(* ---- semantic side ---- *)
(* user variables: declared (with their declared domain) or defined by an api call *)
type uvar = Decl of int list | Def of afn * int * int

let user_vars (prog : stmt list) : uvar list =
  List.filter_map (fun s -> match s with
    | SInt (lo, hi) -> Some (Decl (ilist (drange lo hi)))
    | SSet vs -> Some (Decl (ilist (dof_values vs)))
    | SBool -> Some (Decl [0; 1])
    | SApi (f, x, y) -> Some (Def (f, int_of_nat x, int_of_nat y))
    | _ -> None) prog

let posted (prog : stmt list) : cons list = List.filter_map stmt_cons prog

let asg_of (arr : int array) : asg = fun v -> let i = int_of_nat v in if i < Array.length arr then z_of_int arr.(i) else Z0

(* all assignments of the user variables (api results computed), filtered by `keep` *)
let enumerate (uvs : uvar list) (keep : asg -> bool) : int list list =
  let uv = Array.of_list uvs in
  let n = Array.length uv in
  let cur = Array.make n 0 in
  let out = ref [] in
  let rec go i =
    if i = n then begin
      if keep (asg_of (Array.copy cur)) then out := Array.to_list cur :: !out
    end else match uv.(i) with
      | Decl d -> List.iter (fun x -> cur.(i) <- x; go (i + 1)) d
      | Def (f, x, y) ->
        cur.(i) <- (match f with FAdd -> cur.(x) + cur.(y) | FSub -> cur.(x) - cur.(y) | FMul -> cur.(x) * cur.(y));
        go (i + 1) in
  go 0; List.sort compare !out

let fmt_sols (l : int list list) = if l = [] then "-" else String.concat " " (List.map (fun s -> String.concat "," (List.map string_of_int s)) l)

let stored (c : cons) : cons = to_linear (fold_cons c)

let spec_set (prog : stmt list) : int list list =
  let cs = posted prog in
  enumerate (user_vars prog) (fun a -> List.for_all (fun c -> holds c a) cs)
let impl_set (prog : stmt list) : int list list =
  let cs = List.map stored (posted prog) in
  enumerate (user_vars prog) (fun a -> List.for_all (fun c -> impl_cons c a) cs)

(* D4 (C05, Modulo CASE 2 forces the remainder's sign from the divisor): can only matter when the
   dividend or the divisor of some Modulo can be negative *)
let mod_sign_risk (s : z list list) (p : pdesc) : bool =
  let neg w = match w with
    | VVar v -> List.exists (fun x -> int_of_z x < 0) (List.nth s (int_of_nat v))
    | _ -> true in
  match p with PMod (x, y, _) -> neg x || neg y | _ -> false

let has_api prog = List.exists (function SApi _ -> true | _ -> false) prog

(* known classes: the decidable predicates of Model/Lower.v on the posted trees, then the classes
   read off the lowered model (validation verdict, propagator-level findings of C05) *)
let known_class (prog : stmt list) : string =
  let cs = posted prog in
  let m = build prog in
  let lowered = lower m in
  let low_has f = match lowered with LOk (_, ps) -> List.exists f ps | LPanic -> false in
  (* outside the in-range condition (doms_nonempty) of lower_denotes: an auxiliary variable whose computed
     range exceeds MAX_SPARSE_SET_DOMAIN_SIZE is represented by the empty domain (Model/Lower.v aux_dom),
     i.e. an empty domain of a variable that is not a handle of the program; the validator answers
     InvalidDomain (known_findings.txt: C02 class oversize_domain) *)
  let users = List.map int_of_nat m.muser in
  let aux_oversize s = List.exists (fun (i, d) -> d = [] && not (List.mem i users)) (List.mapi (fun i d -> (i, d)) s) in
  if lowered = LPanic then "BAD:empty_domain_panic "
  else if (match lowered with LOk (s, ps) -> validate s ps = Some EInvalidDomain && aux_oversize s | LPanic -> false) then "BAD:oversize_domain "
  else if (match lowered with LOk (s, ps) -> validate s ps = Some EInvalidConstraint | LPanic -> false) then "BAD:mod_rejected "
  else if low_has (function PLinEq (c, x, _) | PLinLe (c, x, _) | PLinEqR (c, x, _, _) | PLinLeR (c, x, _, _) | PLinNeR (c, x, _, _) -> all_zero c x | _ -> false) then "BAD:lin_zero_coeffs "
  else if (match lowered with LOk (s, ps) -> List.exists (mod_sign_risk s) ps | LPanic -> false) then "BAD:modulo_prop "
  else ""

(* the model part is withheld (`-`) when the prediction is not meant to be exact: a panic, or a
   propagator whose pruning function is known not to enforce its `sat` (all-zero
   IntLinEq/IntLinLe, D11) *)
let model_part (prog : stmt list) : string =
  match lower (build prog) with
  | LPanic -> "PANIC"
  | LOk (s, ps) ->
    if validate s ps <> None then "sols -"
    else if List.exists (function PLinEq (c, x, _) | PLinLe (c, x, _) | PLinEqR (c, x, _, _) | PLinLeR (c, x, _, _) | PLinNeR (c, x, _, _) -> all_zero c x | _ -> false) ps then "-"
    else if List.exists (mod_sign_risk s) ps then "-"
    else "sols " ^ fmt_sols (impl_set prog)

let run_msolve (line : string) : string =
  let c = parse_case line in
  let m = match c.entry with ["enum"] -> model_part c.prog | _ -> "-" in
  let spec = spec_set c.prog in
  let obj = match c.entry with
    | [("min" | "max"); v] -> let i = int_of_nat (var_ix v) in " obj " ^ (if spec = [] then "-" else String.concat " " (List.map (fun s -> string_of_int (List.nth s i)) spec))
    | _ -> "" in
  m ^ " ||| " ^ known_class c.prog ^ "all " ^ fmt_sols spec ^ obj

let split_alts (rest : string) : string list =
  List.map String.trim (Str.split (Str.regexp_string ";;") rest)

let run_mspell (line : string) : string =
  let i = String.index line ';' in
  let decls = String.sub line 0 i and rest = String.sub line (i + 1) (String.length line - i - 1) in
  let alts = split_alts rest in
  let is_p a = String.length a >= 2 && String.sub a 0 2 = "P:" in
  let progs = List.filter_map (fun a -> if is_p a then None else Some (parse_case (decls ^ " ; " ^ a)).prog) alts in
  let models = List.map (fun a ->
      if is_p a then "-" else model_part (parse_case (decls ^ " ; " ^ a)).prog) alts in
  let cls = List.fold_left (fun acc p -> if acc <> "" then acc else known_class p) "" progs in
  let spec = match progs with p :: _ -> spec_set p | [] -> [] in
  String.concat " / " models ^ " ||| " ^ cls ^ "all " ^ fmt_sols spec
