(* Group `Global`: count / atleast / atmost / exactly / element / table over the extracted model
   (coq/Model/Props/Global.v); same pspec grammar as harness/src/plevel_global.rs *)
open Selen_model
open Conv
open Plevel_cmd

let parse_tuples (tok : string) : z list list =
  if tok = "-" then []
  else List.map (fun tp -> if tp = "e" then [] else List.map (fun v -> z_of_int (int_of_string v)) (String.split_on_char ':' tp))
      (String.split_on_char '/' tok)

let () =
  let prev = !Plevel_cmd.post_hook in
  Plevel_cmd.post_hook := (fun kind args ->
    match kind, args with
    | "count", [xs; t; c] -> Some (mk_count (var_list xs) (parse_view t) (var_ix c))
    | "atleast", [xs; k; n] -> Some (mk_at_least (var_list xs) (zi k) (zi n))
    | "atmost", [xs; k; n] -> Some (mk_at_most (var_list xs) (zi k) (zi n))
    | "exactly", [xs; k; n] -> Some (mk_exactly (var_list xs) (zi k) (zi n))
    | "element", [arr; i; v] -> Some (mk_element (var_list arr) (var_ix i) (var_ix v))
    | "table", [xs; tps] -> Some (mk_table (var_list xs) (parse_tuples tps))
    | _ -> prev kind args)

(* sub-command `prune1`: one call of `prune` per posted propagator, in posting order, threading
   the context (store, events); no propagation loop *)
let run_prune1 (line : string) : string =
  let st = setup line in
  let rec go c = function
    | [] -> Some c
    | p :: r -> (match p.prune c with None -> None | Some c' -> go c' r) in
  match go (st.store, []) st.props with
  | None -> "fail"
  | Some (s, ev) -> Printf.sprintf "ok %s ev=%s" (fmt_doms s) (fmt_list (List.map int_of_nat ev))
