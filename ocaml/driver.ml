let () =
  let sub = if Array.length Sys.argv > 1 then Sys.argv.(1) else "" in
  let f = match sub with
    | "sparseset" -> Sparseset_cmd.run_case
    | "prop" -> Plevel_cmd.run_prop_full
    | "deps" -> Plevel_cmd.run_deps
    | "prune1" -> Plevel_global_cmd.run_prune1
    | "solve" -> Plevel_cmd.run_solve_full
    | "ctx" -> Plevel_cmd.run_ctx
    | "view" -> Plevel_cmd.run_view
    | "lower" -> Mlevel_cmd.run_lower
    | "msolve" -> Mlevel_cmd.run_msolve
    | "mspell" -> Mlevel_cmd.run_mspell
    | "rlower" -> Mroutes_cmd.run_rlower
    | "rsolve" -> Mroutes_cmd.run_rsolve
    | "lp" -> Lp_cmd.run_case
    | "solvef" -> Fsolve_cmd.run_solvef
    | "lowerf" -> Fsolve_cmd.run_lowerf
    | "propf" -> Fsolve_cmd.run_propf
    | "searchf" -> Fsolve_cmd.run_searchf
    | "api" -> Api_cmd.run_case
    | "fi" -> Fi_cmd.run_case_fi
    | "ctxf" -> Fi_cmd.run_case_ctxf
    | "limits" -> Limits_cmd.run_case_full
    | "lpjudge" -> Lp_cmd.judge
    | "gac" -> Gac_cmd.run_case
    | "gacspec" -> Gac_cmd.run_spec
    | "sudoku" -> Sudoku_cmd.run_case
    | _ -> prerr_endline ("unknown sub-command " ^ sub); exit 2 in
  (try
     while true do
       let line = String.trim (input_line stdin) in
       if line <> "" then
         print_endline (try f line with
             | Stack_overflow -> "FUEL stack"
             | Failure m -> "DRIVERERR " ^ m
             | Not_found -> "DRIVERERR notfound")
     done
   with End_of_file -> ())
