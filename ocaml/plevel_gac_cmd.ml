(* registers the `alldiff` propagator kind (coq/Model/Props/AllDiff.v) with the props-level driver *)
open Selen_model
let () =
  let prev = !Plevel_cmd.post_hook in
  Plevel_cmd.post_hook := (fun kind args ->
      match kind, args with
      | "alldiff", [xs] -> Some (mk_alldiff (Plevel_cmd.var_list xs))
      | _ -> prev kind args)
