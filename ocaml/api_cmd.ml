(* sub-command `api` (C17) over the extracted model; case grammar of harness/src/api.rs.
   Output:  <model> ||| <spec>
     model = predicted outcome class per call, ` ; `-joined:  ok | err <Variant> | unsat | PANIC | run | ?
             (`run` = the entry point reaches the search: ok / unsat / timeout; `?` = no prediction).
             Predictions come from Model/Lower.v (`build`, `mpanic`, `lower`/`LPanic`, `validate`) and exist only
             for the vocabulary that model covers (int / bool / intset / ints, new <cons>, lin, add/sub/mul on two
             variables), small domains, default configuration.  They describe the DEBUG profile.
     spec  = the property's verdict for the case:
             must_not_panic [at=i,j kinds=...]       in-range and valid (calls i,j must themselves return Err)
             must_be_err_or_unsat kinds=... [at=..]  contains a documented invalid input: every solving entry
                                                     point must answer Err / unsat (never a solution), no panic
             unspecified                             some magnitude leaves InRange
   The in-range test is the magnitude analysis below; for linear postings and fluent trees it calls the
   predicates extracted from Model/Checked.v (lin_in_rangeb, cons_in_rangeb). *)
open Selen_model
open Conv

let i32max = 2147483647
let i32min = -2147483648
let cap = 1 lsl 40
let sat x = if x > cap then cap else x
let ( +! ) a b = sat (a + b)
let ( *! ) a b = if a <> 0 && b > cap / a then cap else sat (a * b)

type vinfo = { mutable dom : int list option; mag : int; iv : (int * int) option }   (* iv: bounds the API gave a derived variable *)

type st = {
  mutable vars : vinfo list;          (* reversed *)
  mutable nv : int;
  mutable inrange : bool;
  mutable why : string list;
  mutable kinds : string list;        (* documented invalid inputs that must make every entry fail *)
  mutable at : int list;              (* calls that must return Err themselves *)
  mutable at_kinds : string list;
  mutable divisors : int list;        (* user variables used as a modulo divisor *)
  mutable elems : (int * int) list;   (* (index variable, array length) *)
  mutable eqpairs : (int * int) list; (* posted Var == Var *)
  mutable mem_limit : int option;
  mutable mem_lb : int;               (* lower bound of Model::estimated_memory_bytes *)
  mutable mem_exceeded : bool;
  mutable created : int;              (* variables that really exist in the store *)
  mutable notes : string list;        (* invalid inputs whose documented outcome is not Err *)
  mutable classes : string list;      (* known-finding classes this case falls in (decidable from the case text) *)
}

let new_st () = { vars = []; nv = 0; inrange = true; why = []; kinds = []; at = []; at_kinds = []; divisors = []; elems = []; eqpairs = [];
                  mem_limit = None; mem_lb = 0; mem_exceeded = false; created = 0; notes = []; classes = [] }
let var st i = List.nth st.vars (st.nv - 1 - i)
let push st v = st.vars <- v :: st.vars; st.nv <- st.nv + 1
let out st w = if st.inrange then (st.inrange <- false; st.why <- w :: st.why)
let need st w c = if not c then out st w
let kind st k = if not (List.mem k st.kinds) then st.kinds <- k :: st.kinds
(* classes whose defect has been repaired in /repo (fixed: entries of known_findings.txt) are no longer classes:
   a recurrence must be reported, and they must not shadow another class of the same case *)
let repaired_classes = ["reif_len_mismatch"; "memory_dummy_varid"; "table_arity"; "len_mismatch_iter"; "element_nd_index"; "table_nd_arity";
                        "empty_domain_read"; "gcc_len"]
let cls st k = if not (List.mem k repaired_classes) && not (List.mem k st.classes) then st.classes <- st.classes @ [k]

let vix t = int_of_string (String.sub t 1 (String.length t - 1))
let vlist t = if t = "-" then [] else List.map vix (String.split_on_char ',' t)
let is_const t = String.length t > 2 && String.sub t 0 2 = "c:"
let cval t = int_of_string (String.sub t 2 (String.length t - 2))
let opmag st t = if is_const t then abs (cval t) else (var st (vix t)).mag
let range lo hi = List.init (hi - lo + 1) (fun i -> lo + i)

(* Model::estimate_variable_memory for an integer variable *)
let est_mem lo hi =
  if lo > hi then 96 else
    let size = hi - lo + 1 in
    96 + 48 + (if size > 1000 then size * 8 / 8 else size * 8)
let account st lo hi =
  st.mem_lb <- st.mem_lb + est_mem lo hi;
  match st.mem_limit with
  | Some l when st.mem_exceeded || st.mem_lb > l * 1024 * 1024 -> st.mem_exceeded <- true; kind st "memory_budget"
  | _ -> st.created <- st.created + 1

let decl_int st lo hi =
  if lo > hi then begin kind st "reversed_bounds"; account st lo hi; push st { dom = Some []; mag = 0; iv = None } end
  else if lo = i32min || hi = i32max then begin                                    (* "unbounded": bounds are inferred *)
    (match st.mem_limit with Some _ when st.mem_exceeded -> () | _ -> st.created <- st.created + 1);
    push st { dom = None; mag = 1 lsl 31; iv = None } end
  else begin
    need st "domain_width" (hi - lo < 4000000);
    need st "domain_touches_i32_extreme" (lo > i32min + 1);
    account st lo hi;
    push st { dom = (if hi - lo <= 64 then Some (range lo hi) else None); mag = max (abs lo) (abs hi); iv = Some (lo, hi) }
  end

(* post-time narrowing: Var == Val (materialised immediately) and Var == Var (apply_var_eq_bounds) *)
let narrow_eq_val st v c =
  let vi = var st v in
  match vi.dom, vi.iv with
  | Some d, _ -> vi.dom <- Some (if List.mem c d then [c] else [])
  | None, Some (lo, hi) -> vi.dom <- Some (if lo <= c && c <= hi then [c] else [])
  | None, None -> ()
(* current bounds of an operand, when known *)
let bounds st t =
  if is_const t then Some (cval t, cval t) else
    let vi = var st (vix t) in
    match vi.dom with
    | Some (x :: r) -> Some (List.fold_left min x r, List.fold_left max x r)
    | Some [] -> None
    | None -> vi.iv
let iv2 f a b = match a, b with Some (l1, h1), Some (l2, h2) -> Some (f l1 h1 l2 h2) | _ -> None
let narrow_eq_var st a b =
  let va = var st a and vb = var st b in
  match va.dom, vb.dom with
  | Some da, Some db when da <> [] && db <> [] ->
    let lo = max (List.fold_left min max_int da) (List.fold_left min max_int db)
    and hi = min (List.fold_left max min_int da) (List.fold_left max min_int db) in
    if lo <= hi then begin
      va.dom <- Some (List.filter (fun x -> lo <= x && x <= hi) da);
      vb.dom <- Some (List.filter (fun x -> lo <= x && x <= hi) db) end
  | _ -> va.dom <- None; vb.dom <- None

let rec mod_divisors (e : expr) : expr list =
  match e with
  | EVar _ | EVal _ -> []
  | EAdd (a, b) | ESub (a, b) | EMul (a, b) -> mod_divisors a @ mod_divisors b
  | EMod (a, b) -> b :: (mod_divisors a @ mod_divisors b)
let rec cons_exprs (c : cons) : expr list =
  match c with
  | CBin (l, _, r) -> [l; r]
  | CAnd (a, b) | COr (a, b) -> cons_exprs a @ cons_exprs b
  | CNot a -> cons_exprs a
  | CLinInt _ -> []

let post_cons st (c : cons) =
  let m v = z_of_int (var st (int_of_nat v)).mag in
  need st "fluent_magnitude" (cons_in_rangeb m c);
  List.iter (fun e -> List.iter (fun d -> match d with
      | EVal z when int_of_z z = 0 -> kind st "zero_divisor"
      | EVar v -> st.divisors <- int_of_nat v :: st.divisors
      | _ -> ()) (mod_divisors e)) (cons_exprs c);
  match fold_cons c with
  | CBin (EVar v, OEq, EVal k) | CBin (EVal k, OEq, EVar v) -> narrow_eq_val st (int_of_nat v) (int_of_z k)
  | CBin (EVar a, OEq, EVar b) ->
    let a = int_of_nat a and b = int_of_nat b in
    if (var st a).dom = Some [] || (var st b).dom = Some [] then cls st "empty_domain_read";
    st.eqpairs <- (a, b) :: st.eqpairs;
    narrow_eq_var st a b
  | _ -> ()

(* posting methods that read min_raw / max_raw of their operands (constraints/api/arithmetic.rs) *)
let reads st (ops : string list) =
  let vs = List.filter (fun t -> not (is_const t)) ops in
  if vs <> [] && st.created = 0 then cls st "memory_dummy_varid";
  if List.exists (fun t -> (var st (vix t)).dom = Some []) vs then cls st "empty_domain_read"

(* matrix / cube tokens of element2d / element3d / table2d / table3d (grammar of harness/src/api.rs) *)
let parse_mat tok = if tok = "-" || tok = "E" then [] else List.map (fun r -> if r = "e" then [] else vlist r) (String.split_on_char '/' tok)
let parse_cube tok = if tok = "-" then [] else List.map parse_mat (Str.split_delim (Str.regexp_string "//") tok)
(* is every value of the index variable inside / outside 0 .. n-1 ?  (None: domain not tracked) *)
let idx_all st v (p : int -> bool) : bool option =
  let vi = var st v in
  match vi.dom, vi.iv with
  | Some d, _ -> Some (List.for_all p d)
  | None, Some (lo, hi) when hi - lo <= 100000 -> Some (List.for_all p (range lo hi))
  | _ -> None

let is_entry k = List.mem k ["solve"; "enum"; "enumstats"; "minimize"; "maximize"; "miniter"; "maxiter"; "validate"]

(* one building call; i = its position among the building calls *)
let rec spec_call st i (t : string list) =
  let imax = i32max in
  match t with
  | ["int"; lo; hi] -> decl_int st (int_of_string lo) (int_of_string hi)
  | ["bool"] -> decl_int st 0 1
  | ["ints"; n; lo; hi] ->
    let lo = int_of_string lo and hi = int_of_string hi in
    let lo, hi = if lo < hi then lo, hi else hi, lo in       (* Model::new_vars swaps *)
    for _ = 1 to int_of_string n do decl_int st lo hi done
  | ["ints2d"; r; c; lo; hi] -> spec_call st i ["ints"; string_of_int (int_of_string r * int_of_string c); lo; hi]
  | ["ints3d"; d; r; c; lo; hi] -> spec_call st i ["ints"; string_of_int (int_of_string d * int_of_string r * int_of_string c); lo; hi]
  | ["bools"; n] -> spec_call st i ["ints"; n; "0"; "1"]
  | ["bools2d"; r; c] -> spec_call st i ["ints2d"; r; c; "0"; "1"]
  | ["bools3d"; d; r; c] -> spec_call st i ["ints3d"; d; r; c; "0"; "1"]
  | ["amin"; xs] -> spec_call st i ["min"; xs]                  (* array_int_minimum = self.min *)
  | ["amax"; xs] -> spec_call st i ["max"; xs]
  | ["sumiter"; ops] ->
    let l = if ops = "-" then [] else String.split_on_char ',' ops in
    if List.for_all (fun t -> not (is_const t)) l then spec_call st i ["sum"; ops]
    else begin
      let m = List.fold_left (fun a t -> a +! opmag st t) 0 l in
      need st "sum_magnitude" (m <= imax);
      push st { dom = None; mag = m; iv = None } end
  | ["element2d"; mat; r; c; _] ->
    let m = parse_mat mat in
    let cols = match m with [] -> 0 | r0 :: _ -> List.length r0 in
    let rect = List.for_all (fun row -> List.length row = cols) m in
    let r = vix r and c = vix c in
    if cols = 0 then (if List.concat m <> [] then cls st "element_nd_index" else kind st "elem_index_oob")   (* no cell exists *)
    else begin
      (* the individual indices are not constrained: a column index outside 0..cols-1 addresses another row *)
      if not rect || idx_all st c (fun x -> 0 <= x && x < cols) <> Some true then cls st "element_nd_index";
      if rect && (idx_all st r (fun x -> x < 0 || x >= List.length m) = Some true || idx_all st c (fun x -> x < 0 || x >= cols) = Some true)
      then kind st "elem_index_oob" end
  | ["element3d"; cube; d; r; c; _] ->
    let q = parse_cube cube in
    let rows = match q with [] -> 0 | m0 :: _ -> List.length m0 in
    let cols = match q with (r0 :: _) :: _ -> List.length r0 | _ -> 0 in
    let rect = List.for_all (fun m -> List.length m = rows && List.for_all (fun row -> List.length row = cols) m) q in
    let d = vix d and r = vix r and c = vix c in
    if rows = 0 || cols = 0 then (if List.concat (List.concat q) <> [] then cls st "element_nd_index" else kind st "elem_index_oob")
    else begin
      if not rect || idx_all st c (fun x -> 0 <= x && x < cols) <> Some true || idx_all st r (fun x -> 0 <= x && x < rows) <> Some true
      then cls st "element_nd_index";
      if rect && (idx_all st d (fun x -> x < 0 || x >= List.length q) = Some true || idx_all st r (fun x -> x < 0 || x >= rows) = Some true
                  || idx_all st c (fun x -> x < 0 || x >= cols) = Some true)
      then kind st "elem_index_oob" end
  | ["table2d"; _; _] | ["table3d"; _; _] -> ()      (* since b2362f9 each row goes through Model::table: a tuple of the wrong arity is an InvalidConstraint error from the solving call; nothing is expected here beyond "no panic" *)
  | ["intset"; vs] ->
    let l = List.sort_uniq compare (parse_list vs) in
    st.created <- st.created + 1;          (* Model::intset bypasses the memory accounting *)
    if l = [] then begin kind st "empty_set"; push st { dom = Some []; mag = 0; iv = None } end
    else begin
      let lo = List.hd l and hi = List.nth l (List.length l - 1) in
      need st "domain_width" (hi - lo < 4000000);
      need st "domain_touches_i32_extreme" (lo > i32min + 1 && hi < i32max);   (* InRange: bounded B with B < i32::MAX *)
      push st { dom = Some l; mag = max (abs lo) (abs hi); iv = Some (lo, hi) } end
  | [("add" | "sub"); a; b] ->
    reads st [a; b];
    let m = opmag st a +! opmag st b in need st "add_magnitude" (m <= imax);
    let iv = if List.hd t = "add" then iv2 (fun l1 h1 l2 h2 -> (l1 + l2, h1 + h2)) (bounds st a) (bounds st b)
      else iv2 (fun l1 h1 l2 h2 -> (l1 - h2, h1 - l2)) (bounds st a) (bounds st b) in
    push st { dom = None; mag = m; iv }
  | ["mul"; a; b] ->
    reads st [a; b];
    let m = opmag st a *! opmag st b in need st "mul_magnitude" (m <= imax);
    let iv = iv2 (fun l1 h1 l2 h2 -> let p = [l1 * l2; l1 * h2; h1 * l2; h1 * h2] in
                   (List.fold_left min max_int p, List.fold_left max min_int p)) (bounds st a) (bounds st b) in
    push st { dom = None; mag = m; iv }
  | ["mod"; a; b] ->
    reads st [a; b];
    let ma = opmag st a and mb = opmag st b in
    need st "mod_magnitude" (ma <= imax && mb <= imax);
    if is_const b then (if cval b = 0 then kind st "zero_divisor") else st.divisors <- vix b :: st.divisors;
    push st { dom = None; mag = max ma mb; iv = None }
  | ["abs"; a] -> reads st [a]; let m = opmag st a in need st "abs_magnitude" (m <= imax); push st { dom = None; mag = m; iv = None }
  | [("min" | "max"); xs] ->
    let l = vlist xs in
    if l <> [] then reads st (String.split_on_char ',' xs);
    if l = [] then begin st.at <- i :: st.at; st.at_kinds <- "empty_minmax" :: st.at_kinds end
    else begin
      let bs = List.map (fun v -> bounds st ("x" ^ string_of_int v)) l in
      let iv = if List.mem None bs then None else
          let bs = List.filter_map (fun x -> x) bs in
          let pick f g = List.fold_left f (g (List.hd bs)) (List.map g bs) in
          Some (if List.hd t = "min" then (pick min fst, pick min snd) else (pick max fst, pick max snd)) in
      push st { dom = None; mag = List.fold_left (fun a v -> max a (var st v).mag) 0 l; iv } end
  | ["sum"; xs] ->
    if xs <> "-" then reads st (String.split_on_char ',' xs);
    let m = List.fold_left (fun a v -> a +! (var st v).mag) 0 (vlist xs) in
    need st "sum_magnitude" (m <= imax);
    let bs = List.map (fun v -> bounds st ("x" ^ string_of_int v)) (vlist xs) in
    let iv = if List.mem None bs then None else
        Some (List.fold_left (fun (a, b) o -> match o with Some (l, h) -> (a + l, b + h) | None -> (a, b)) (0, 0) bs) in
    push st { dom = None; mag = m; iv }
  | (("lin" | "blin" | "linr" | "blinr") as k) :: _op :: cs :: xs :: kc :: rest ->
    let cs = parse_list cs and xs = vlist xs and kc = int_of_string kc in
    (* non-reified: the posting records InvalidConstraint, which the solving call must return.  Reified: the pinned test
       tests_all/test_int_lin_reif.rs::test_int_lin_reif_mismatched_lengths documents "mismatched lengths force b = 0"
       (an Ok answer), so the property's Err/unsat demand is not applied; the case must still not panic.  A SHORTER
       coefficient vector is the known class reif_len_mismatch (index out of bounds in the propagator) *)
    if List.length cs <> List.length xs then begin
      if rest = [] then kind st "len_mismatch"
      else begin
        st.notes <- "len_mismatch_reif" :: st.notes;
        if List.length cs < List.length xs then cls st "reif_len_mismatch" end end;
    let b = List.fold_left (fun a v -> max a (var st v).mag) 0 xs in
    ignore k;
    (* the proved predicate wants a coefficient for every variable; for the magnitude question pad/truncate *)
    let n = List.length xs in
    let csn = List.init n (fun j -> if j < List.length cs then List.nth cs j else 0) in
    let extra = List.fold_left (fun a c -> max a (abs c)) 0 cs in
    need st "lin_magnitude"
      (b < imax && extra <= imax && lin_in_rangeb (z_of_int (max b 1)) (zlist csn) (List.map nat_of_int xs) (z_of_int (abs kc + 1)))
  | ["reif"; _; x; y; _] -> need st "reif_magnitude" ((var st (vix x)).mag +! (var st (vix y)).mag +! 1 <= imax)
  | [("band" | "bor"); _] | ["bnot"; _] | ["bxor"; _; _] -> push st { dom = Some [0; 1]; mag = 1; iv = Some (0, 1) }
  | ["implies"; _; _] | ["clause"; _; _] | ["alldiff"; _] | ["alleq"; _] | ["between"; _; _; _] -> ()
  | ["element"; xs; idx; _] -> st.elems <- (vix idx, List.length (vlist xs)) :: st.elems
  | ["aelement"; idx; xs; _] -> st.elems <- (vix idx, List.length (vlist xs)) :: st.elems
  | ["elementf"; xs; idx] ->
    (* functions::element computes the hull of the array entries' bounds (/repo b9ad7d3): min_raw / max_raw *)
    if xs <> "-" then reads st (String.split_on_char ',' xs);
    (* the value handle: hull of the entries' bounds, so its magnitude is the largest magnitude among the entries
       (an empty array still gets int(-1000, 1000)).  It used to be declared as -1000..1000 here, which under-estimated
       the magnitude and predicted "no panic" for a later mul of the handle whose product leaves i32 (false alarm, VERIF_SEED=3) *)
    let l = vlist xs in
    if l = [] then decl_int st (-1000) 1000
    else begin
      let lo_of v = match (var st v).iv with Some (lo, _) -> lo | None -> - (var st v).mag
      and hi_of v = match (var st v).iv with Some (_, hi) -> hi | None -> (var st v).mag in
      let lo = List.fold_left (fun a v -> min a (lo_of v)) max_int l and hi = List.fold_left (fun a v -> max a (hi_of v)) min_int l in
      decl_int st (max lo (i32min + 2)) (min hi (i32max - 1))
    end;
    st.elems <- (vix idx, List.length (vlist xs)) :: st.elems
  | ["table"; xs; tl] ->
    let n = List.length (vlist xs) in
    if tl <> "-" && List.exists (fun r -> List.length (parse_list r) <> n) (String.split_on_char '|' tl) then cls st "table_arity"
  | ["count"; _; _; _] | [("atleast" | "atmost" | "exactly"); _; _; _] -> ()
  | ["gcc"; _; vals; cnts] ->
    (* one fixed variable per (value, count) pair is created inside the model, not handed to the program.
       |values| <> |counts| is a documented invalid input since the repair routes_gcc_len: Model::gcc records InvalidConstraint *)
    if List.length (parse_list vals) <> List.length (vlist cnts) then kind st "gcc_len_mismatch"
  | ["new"; c] -> (match Mlevel_cmd.parse_cons_opt c with Some c -> post_cons st c | None -> ())
  | ["fn"; op; l; r] -> post_cons st (CBin (Mlevel_cmd.parse_expr l, Mlevel_cmd.cmp_of op, Mlevel_cmd.parse_expr r))
  | _ -> failwith ("api: bad statement " ^ String.concat " " t)

let finish st (entries : string list list) =
  List.iter (fun (a, b) -> if (var st a).dom = Some [] || (var st b).dom = Some [] then cls st "empty_domain_read") st.eqpairs;
  ignore entries;
  List.iter (fun v -> match (var st v).dom with
      | Some d when List.mem 0 d -> kind st "zero_divisor"
      | _ -> ()) st.divisors;
  List.iter (fun (v, len) -> match (var st v).dom with
      | Some d when d <> [] && List.for_all (fun x -> x < 0 || x >= len) d -> kind st "elem_index_oob"
      | _ -> ()) st.elems

let spec_of (calls : string list list) (entries : string list list) (cfg : string list) : string =
  let st = new_st () in
  let rec cfgp = function
    | "mem" :: n :: r -> st.mem_limit <- Some (int_of_string n); cfgp r
    | "timeout" :: _ :: r -> cfgp r
    | _ -> () in
  cfgp (match cfg with _ :: r -> r | [] -> []);
  List.iteri (fun i t -> spec_call st i t) calls;
  finish st entries;
  let at = if st.at = [] then "" else
      Printf.sprintf " at=%s" (String.concat "," (List.rev_map string_of_int st.at)) in
  let bad = match st.classes with [] -> "" | c :: _ -> "BAD:" ^ c ^ " " in
  bad ^
  if not st.inrange then "unspecified " ^ String.concat "," st.why
  else if st.kinds <> [] then
    Printf.sprintf "must_be_err_or_unsat kinds=%s%s" (String.concat "," (List.rev st.kinds @ st.at_kinds)) at
  else if st.at <> [] then Printf.sprintf "must_not_panic%s kinds=%s" at (String.concat "," st.at_kinds)
  else if st.notes <> [] then "must_not_panic kinds=" ^ String.concat "," st.notes
  else "must_not_panic"

(* ---- the model's prediction ---- *)
let small_int lo hi = lo > i32min && hi < i32max && hi - lo <= 2000 && abs lo <= 1000000 && abs hi <= 1000000

(* Some stmts if the call is in the vocabulary of Model/Lower.v *)
let to_stmts (t : string list) : stmt list option =
  match t with
  | ["int"; lo; hi] ->
    let lo = int_of_string lo and hi = int_of_string hi in
    if small_int (min lo hi) (max lo hi) then Some [SInt (z_of_int lo, z_of_int hi)] else None
  | ["bool"] -> Some [SBool]
  | ["ints"; n; lo; hi] ->
    let lo = int_of_string lo and hi = int_of_string hi in
    let lo, hi = if lo < hi then lo, hi else hi, lo in
    if small_int lo hi then Some (List.init (int_of_string n) (fun _ -> SInt (z_of_int lo, z_of_int hi))) else None
  | ["intset"; vs] ->
    let l = parse_list vs in
    if List.for_all (fun x -> abs x <= 1000000) l && (l = [] || List.fold_left max min_int l - List.fold_left min max_int l <= 2000)
    then Some [SSet (zlist l)] else None
  | ["new"; c] -> (try (match Mlevel_cmd.parse_cons_opt c with Some c -> Some [SNew c] | None -> Some []) with _ -> None)
  | ["lin"; op; cs; xs; k] ->
    Some [SLin (Mlevel_cmd.cmp_of op, zlist (parse_list cs), List.map nat_of_int (vlist xs), z_of_int (int_of_string k))]
  | [("add" | "sub" | "mul") as f; a; b] when not (is_const a) && not (is_const b) ->
    Some [SApi ((match f with "add" -> FAdd | "sub" -> FSub | _ -> FMul), nat_of_int (vix a), nat_of_int (vix b))]
  | _ -> None

(* set to true once fixes/c17_validation_errors_all_entries.patch is applied to /repo: then the iterator entry points
   (enumerate, enumerate_with_stats, minimize_and_iterate, maximize_and_iterate) also see the recorded error *)
let fix_validation_all_entries = true     (* /repo 596c327: prepare_for_search returns the recorded error *)

let lin_mismatch (t : string list) = match t with
  | ["lin"; _; cs; xs; _] -> List.length (parse_list cs) <> List.length (vlist xs)
  | _ -> false

let predict (calls : string list list) (entries : string list list) (cfg : string list) : string list =
  let unknown () = List.map (fun _ -> "?") (calls @ entries) in
  if List.length cfg > 1 then unknown () else
    let stmts = List.map to_stmts calls in
    if List.exists (fun s -> s = None) stmts then unknown () else begin
      (* api results of add/sub/mul may be wide: the model handles them, but keep the store small *)
      let outs = ref [] and m = ref ms0 and panicked = ref false in
      List.iter (fun s ->
          if not !panicked then begin
            List.iter (fun st -> m := exec st !m) (match s with Some l -> l | None -> []);
            if (!m).mpanic then (panicked := true; outs := "PANIC" :: !outs) else outs := "ok" :: !outs
          end) stmts;
      if !panicked then List.rev !outs else begin
        let mism = List.exists lin_mismatch calls in
        let low = lower !m in
        let ent (e : string list) =
          match e with
          | ["validate"] -> "?"
          | k :: _ ->
            let result_api = List.mem k ["solve"; "minimize"; "maximize"] in
            if mism && result_api then "err InvalidConstraint"
            else if mism && fix_validation_all_entries then "unsat"
            else (match low with
                | LPanic -> "PANIC"
                | LOk (s, ps) ->
                  (match validate s ps with
                   | Some EInvalidDomain -> if result_api then "err InvalidDomain" else "unsat"
                   | Some EInvalidConstraint -> if result_api then "err InvalidConstraint" else "unsat"
                   | None -> "run"))
          | [] -> "?" in
        List.rev !outs @ List.map ent entries
      end
    end

let run_case (line : string) : string =
  let stmts = List.filter (fun t -> t <> []) (List.map words (String.split_on_char ';' line)) in
  let cfg = ref ["cfg"] and calls = ref [] and entries = ref [] in
  List.iter (fun t -> match t with
      | "cfg" :: _ -> cfg := t
      | k :: _ when is_entry k -> entries := t :: !entries
      | _ -> calls := t :: !calls) stmts;
  let calls = List.rev !calls and entries = List.rev !entries in
  let spec = spec_of calls entries !cfg in
  let contains_sub (h : string) (n : string) =
    let lh = String.length h and ln = String.length n in
    let rec go i = i + ln <= lh && (String.sub h i ln = n || go (i + 1)) in go 0 in
  (* the Z model is the i32 behaviour only inside InRange (no_overflow_in_range): no prediction outside *)
  let model = if contains_sub spec "unspecified" then String.concat " ; " (List.map (fun _ -> "?") (calls @ entries))
    else try String.concat " ; " (predict calls entries !cfg) with Stack_overflow -> "?" in
  (* Lower.v's mpanic / LPanic IS the decidable class "min()/max() of an emptied domain is read" *)
  let has_panic = List.mem "PANIC" (List.map String.trim (String.split_on_char ';' model)) in
  let spec = if has_panic && not (String.length spec >= 4 && String.sub spec 0 4 = "BAD:") then "BAD:empty_domain_read " ^ spec else spec in
  (if model = "" then "-" else model) ^ " ||| " ^ spec
