(* sub-commands `fi` and `ctxf`: same grammar as harness/src/fi.rs.
   f64 values travel as 16 hex digits (IEEE-754 binary64 bit pattern); NaN is printed as
   7ff8000000000000 on both sides.  The spec part after " ||| " carries, per tightening step of
   `ctxf`, whether (interval, bound) satisfies the magnitude hypothesis `Magn` of the loss/no-widen
   theorems (decided by the extracted Coq predicate); the property itself is judged in
   vlib/props/c12f.py with exact rationals on the bit patterns. *)
open Selen_model
open Conv

let rec pos_of_i64 (n : int64) : positive =
  if n = 1L then XH
  else let r = pos_of_i64 (Int64.shift_right_logical n 1) in
    if Int64.logand n 1L = 0L then XO r else XI r
let z_of_u64 (n : int64) : z = if n = 0L then Z0 else Zpos (pos_of_i64 n)
let rec i64_of_pos (p : positive) : int64 = match p with
  | XH -> 1L
  | XO q -> Int64.shift_left (i64_of_pos q) 1
  | XI q -> Int64.logor (Int64.shift_left (i64_of_pos q) 1) 1L
let u64_of_z (x : z) : int64 = match x with Z0 -> 0L | Zpos p -> i64_of_pos p | Zneg _ -> failwith "negative bits"

let f_of_hex (s : string) : f64 =
  if String.length s <> 16 then failwith ("bad f64 " ^ s);
  of_bits (z_of_u64 (Int64.of_string ("0x" ^ s)))
let hex_of_f (x : f64) : string =
  if fis_nan x then "7ff8000000000000" else Printf.sprintf "%016Lx" (u64_of_z (to_bits x))
let hex_of_uz (x : z) : string = Printf.sprintf "%016Lx" (u64_of_z x)

let st (i : fint) : string = hex_of_f i.imin ^ " " ^ hex_of_f i.imax ^ " " ^ hex_of_f i.istep

exception Panic

let unopt = function Some x -> x | None -> raise Panic

let run_fi (line : string) : string =
  let parts = List.map String.trim (String.split_on_char ';' line) in
  let init, ops = match parts with i :: r -> i, r | [] -> failwith "empty" in
  match words init with
  | ["ar"; a; b] ->
    let a = f_of_hex a and b = f_of_hex b in
    "ar " ^ String.concat " " (List.map hex_of_f (arith_probe a b)) ^ " c=" ^ String.concat "" (List.map b2s (cmp_probe a b))
  | ["cv"; a] ->
    let a = f_of_hex a in
    (match conv_probe a with
     | [x; c; f; u] -> Printf.sprintf "cv %d %d %d %s" (int_of_z x) (int_of_z c) (int_of_z f) (hex_of_uz u)
     | _ -> failwith "conv_probe")
    ^ " " ^ hex_of_f (ulp_of a) ^ " " ^ hex_of_f (next_float a) ^ " " ^ hex_of_f (prev_float a)
  | ["i2f"; n] -> "i2f " ^ hex_of_f (f64_of_Z (z_of_int (int_of_string n)))
  | ["p2s"; n] -> "p2s " ^ hex_of_f (precision_to_step_size (z_of_int (int_of_string n)))
  | w ->
    let i0 = match w with
      | ["new"; a; b] -> fi_new (f_of_hex a) (f_of_hex b)
      | ["ws"; a; b; s] -> fi_with_step (f_of_hex a) (f_of_hex b) (f_of_hex s)
      | ["un"; a; b; s] -> fi_with_step_unchecked (f_of_hex a) (f_of_hex b) (f_of_hex s)
      | _ -> failwith "bad init" in
    let cur = ref i0 in
    let snaps = ref [] in
    let out = ref [st i0] in
    (try
       List.iter (fun p ->
         if p <> "" then begin
           let i = !cur in
           let r = match words p with
             | ["next"; x] -> hex_of_f (fi_next i (f_of_hex x))
             | ["prev"; x] -> hex_of_f (fi_prev i (f_of_hex x))
             | ["contains"; x] -> b2s (fi_contains i (f_of_hex x))
             | ["empty"] -> b2s (fi_is_empty i)
             | ["fixed"] -> b2s (fi_is_fixed i)
             | ["size"] -> hex_of_f (fi_size i)
             | ["count"] -> hex_of_uz (fi_step_count i)
             | ["round"; x] -> hex_of_f (unopt (fi_round_to_step i (f_of_hex x)))
             | ["floor"; x] -> hex_of_f (unopt (fi_floor_to_step i (f_of_hex x)))
             | ["ceil"; x] -> hex_of_f (unopt (fi_ceil_to_step i (f_of_hex x)))
             | ["inter"; a; b; s] ->
               let o = fi_with_step_unchecked (f_of_hex a) (f_of_hex b) (f_of_hex s) in
               String.concat "," (List.map hex_of_f (let j = fi_intersect i o in [j.imin; j.imax; j.istep]))
             | ["inters"; a; b; s] ->
               let o = fi_with_step_unchecked (f_of_hex a) (f_of_hex b) (f_of_hex s) in
               b2s (fi_intersects i o)
             | ["assign"; x] -> cur := unopt (fi_assign i (f_of_hex x)); "-"
             | ["below"; x] -> cur := unopt (fi_remove_below i (f_of_hex x)); "-"
             | ["above"; x] -> cur := unopt (fi_remove_above i (f_of_hex x)); "-"
             | ["mid"] -> hex_of_f (unopt (fi_mid i))
             | ["save"] -> snaps := !snaps @ [fi_save i]; "-"
             | ["restore"; k] ->
               let k = int_of_string k in
               if k < List.length !snaps then cur := fi_restore i (List.nth !snaps k); "-"
             | _ -> failwith ("bad op " ^ p) in
           out := (st !cur ^ " r=" ^ r) :: !out
         end) ops;
       String.concat " / " (List.rev !out)
     with Panic -> "PANIC")

(* ctxf *)
let run_ctxf (line : string) : string =
  let parts = List.map String.trim (String.split_on_char ';' line) in
  let init, ops = match parts with i :: r -> i, r | [] -> failwith "empty" in
  let ops = List.filter (fun p -> p <> "") ops in
  let ops = List.map (fun p -> String.concat " " (words p)) ops in
  match words init with
  | ["i"; lo; hi] ->
    let lo = ref (int_of_string lo) and hi = ref (int_of_string hi) in
    let out = ref [Printf.sprintf "%d %d" !lo !hi] in
    (try
       List.iter (fun p ->
         let r = match words p with
           | ["minf"; x] -> tsmin_range_f (z_of_int !lo) (z_of_int !hi) (f_of_hex x)
           | ["maxf"; x] -> tsmax_range_f (z_of_int !lo) (z_of_int !hi) (f_of_hex x)
           | _ -> failwith ("bad op " ^ p) in
         match r with
         | None -> out := (p ^ " fail") :: !out; raise Exit
         | Some ((l, h), e) ->
           lo := int_of_z l; hi := int_of_z h;
           let ret = match words p with ("minf" :: _) -> !lo | _ -> !hi in
           out := Printf.sprintf "%s ok %d %d ret=%d ev=%s" p !lo !hi ret (b2s e) :: !out) ops
     with Exit -> ());
    String.concat " / " (List.rev !out)
  | w ->
    let i0 = match w with
      | ["f"; a; b] -> fi_new (f_of_hex a) (f_of_hex b)
      | ["fs"; a; b; s] -> fi_with_step_unchecked (f_of_hex a) (f_of_hex b) (f_of_hex s)
      | _ -> failwith "bad init" in
    let cur = ref i0 in
    let out = ref [st i0] in
    let spec = ref [] in
    (try
       List.iter (fun p ->
         let i = !cur in
         let o, ismin = match words p with
           | ["minf"; x] -> OMinF (f_of_hex x), true
           | ["maxf"; x] -> OMaxF (f_of_hex x), false
           | ["mini"; n] -> OMinI (z_of_int (int_of_string n)), true
           | ["maxi"; n] -> OMaxI (z_of_int (int_of_string n)), false
           | _ -> failwith ("bad op " ^ p) in
         spec := b2s (magn_op_b i o) :: !spec;
         match fop_apply i o with
         | None -> out := (p ^ " fail") :: !out; raise Exit
         | Some (i1, e) ->
           cur := i1;
           out := Printf.sprintf "%s ok %s ret=%s ev=%s" p (st i1) (hex_of_f (if ismin then i1.imin else i1.imax)) (b2s e) :: !out) ops
     with Exit -> ());
    let magn = String.concat "" (List.rev !spec) in
    String.concat " / " (List.rev !out) ^ " ||| " ^ (if String.contains magn '0' then "BAD:outside_magn " else "") ^ "magn=" ^ magn

let run_case_fi = run_fi
let run_case_ctxf = run_ctxf
