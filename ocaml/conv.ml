(* conversions between OCaml ints and the extracted inductives *)
open Selen_model

let rec pos_of_int (n : int) : positive =
  if n = 1 then XH else if n land 1 = 0 then XO (pos_of_int (n lsr 1)) else XI (pos_of_int (n lsr 1))
let z_of_int (n : int) : z = if n = 0 then Z0 else if n > 0 then Zpos (pos_of_int n) else Zneg (pos_of_int (-n))
let rec int_of_pos (p : positive) : int = match p with XH -> 1 | XO q -> 2 * int_of_pos q | XI q -> 2 * int_of_pos q + 1
let int_of_z (x : z) : int = match x with Z0 -> 0 | Zpos p -> int_of_pos p | Zneg p -> - (int_of_pos p)
type nat = int
let nat_of_int (n : int) : nat = if n <= 0 then 0 else n
let int_of_nat (n : nat) : int = n

let parse_list (tok : string) : int list =
  if tok = "-" || tok = "" then [] else List.map int_of_string (String.split_on_char ',' tok)
let fmt_list (l : int list) : string =
  if l = [] then "-" else String.concat "," (List.map string_of_int l)
let zlist l = List.map z_of_int l
let ilist l = List.map int_of_z l
let words (s : string) : string list = List.filter (fun w -> w <> "") (String.split_on_char ' ' (String.trim s))
let b2s b = if b then "1" else "0"
