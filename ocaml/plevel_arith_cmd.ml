(* group Arith: mul, mod, abs, minof, maxof over the extracted model (coq/Model/Props/Arith.v).
   The main model definitions transcribe the REPAIRED sources (fixes/minmax_step6.patch,
   fixes/modulo_sound.patch).  With SELEN_ARITH_PREFIX=1 in the environment the kinds minof, maxof
   and mod map to the `_prefix` models (sources at the pinned commit) instead, and the spec side
   marks a case `BAD:minmax_step6` / `BAD:mod_prefix` when the pinned and repaired models give
   different propagation or search results on it (the decidable known classes kf_*_step6 /
   kf_mod_prefix lifted to a whole case). *)
open Selen_model
open Conv
open Plevel_cmd

let prefix_mode = (try Sys.getenv "SELEN_ARITH_PREFIX" = "1" with Not_found -> false)

let post_arith (prefix : bool) (kind : string) (args : string list) : prop option =
  match kind, args with
  | "mul", [a; b; s] -> Some (mk_mul (parse_view a) (parse_view b) (var_ix s))
  | "abs", [a; s] -> Some (mk_abs (parse_view a) (var_ix s))
  | "mod", [a; b; s] ->
    Some ((if prefix then mk_mod_prefix else mk_mod) (parse_view a) (parse_view b) (var_ix s))
  | "minof", [xs; r] -> Some ((if prefix then mk_minof_prefix else mk_minof) (var_list xs) (var_ix r))
  | "maxof", [xs; r] -> Some ((if prefix then mk_maxof_prefix else mk_maxof) (var_list xs) (var_ix r))
  (* explicit access to either version, whatever the mode *)
  | "mod_prefix", [a; b; s] -> Some (mk_mod_prefix (parse_view a) (parse_view b) (var_ix s))
  | "minof_prefix", [xs; r] -> Some (mk_minof_prefix (var_list xs) (var_ix r))
  | "maxof_prefix", [xs; r] -> Some (mk_maxof_prefix (var_list xs) (var_ix r))
  | "mod_fixed", [a; b; s] -> Some (mk_mod (parse_view a) (parse_view b) (var_ix s))
  | "minof_fixed", [xs; r] -> Some (mk_minof (var_list xs) (var_ix r))
  | "maxof_fixed", [xs; r] -> Some (mk_maxof (var_list xs) (var_ix r))
  | _ -> None

let () =
  let prev = !post_hook in
  post_hook := (fun kind args ->
      match post_arith prefix_mode kind args with Some p -> Some p | None -> prev kind args)

(* known classes, pinned sources only: compare propagation and search under the two versions *)
let rename_kinds (suffix : string) (specs : string list list) : string =
  String.concat " ; " (List.map (fun p ->
      match p with
      | ("minof" | "maxof" | "mod" as k) :: rest -> String.concat " " ((k ^ suffix) :: rest)
      | _ -> String.concat " " p) specs)

let known_arith (specs : string list list) : string option =
  if not prefix_mode then None
  else begin
    let has w = List.exists (fun p -> match p with k :: _ -> k = w | [] -> false) specs in
    if not (has "minof" || has "maxof" || has "mod") then None
    else begin
      let lp = rename_kinds "_prefix" specs and lf = rename_kinds "_fixed" specs in
      (* a defect may also fire only below the root of the search (e.g. a divisor fixed to zero by
         branching), so whole solves are compared as well *)
      if run_prop lp = run_prop lf && run_solve lp = run_solve lf then None
      else if has "mod" then Some "mod_prefix" else Some "minmax_step6"
    end
  end

let () =
  let prev = !known_hook in
  known_hook := (fun specs -> match known_arith specs with Some c -> Some c | None -> prev specs)
