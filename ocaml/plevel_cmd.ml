(* props-level sub-commands over the extracted model; same grammar as harness/src/plevel.rs *)
open Selen_model
open Conv

let rec parse_view (s : string) : view =
  let s = String.trim s in
  let n = String.length s in
  if n > 1 && s.[0] = 'x' && (match int_of_string_opt (String.sub s 1 (n - 1)) with Some _ -> true | None -> false)
  then VVar (nat_of_int (int_of_string (String.sub s 1 (n - 1))))
  else if n > 2 && String.sub s 0 2 = "c:" then VConst (z_of_int (int_of_string (String.sub s 2 (n - 2))))
  else begin
    let op = String.index s '(' in
    let name = String.sub s 0 op in
    let inner = String.sub s (op + 1) (n - op - 2) in
    let depth = ref 0 and comma = ref (-1) in
    String.iteri (fun i ch -> match ch with
      | '(' -> incr depth | ')' -> decr depth
      | ',' when !depth = 0 -> comma := i | _ -> ()) inner;
    let sub, arg = if !comma >= 0
      then String.sub inner 0 !comma, Some (String.trim (String.sub inner (!comma + 1) (String.length inner - !comma - 1)))
      else inner, None in
    let w = parse_view sub in
    let k () = z_of_int (int_of_string (Option.get arg)) in
    match name with
    | "opp" -> VOpp w
    | "plus" -> VPlus (w, k ())
    | "times" -> vtimes w (k ())
    | "next" -> VNext w
    | "prev" -> VPrev w
    | _ -> failwith ("bad view op " ^ name)
  end

let parse_dom (d : string) : z list =
  let d = String.trim d in
  match Str.bounded_split_delim (Str.regexp_string "..") d 2 with
  | [lo; hi] when (try ignore (int_of_string lo); ignore (int_of_string hi); true with _ -> false) ->
    drange (z_of_int (int_of_string lo)) (z_of_int (int_of_string hi))
  | _ -> dof_values (zlist (parse_list d))

let parse_doms (s : string) : z list list =
  List.filter_map (fun d -> let d = String.trim d in if d = "" then None else Some (parse_dom d)) (String.split_on_char '|' s)

let fmt_doms (s : z list list) : string = String.concat "|" (List.map (fun d -> fmt_list (ilist d)) s)

let var_ix (t : string) : nat =
  let t = String.trim t in
  nat_of_int (int_of_string (if String.length t > 0 && t.[0] = 'x' then String.sub t 1 (String.length t - 1) else t))
let var_list (t : string) : nat list = if t = "-" then [] else List.map var_ix (String.split_on_char ',' t)
let zl (t : string) = zlist (parse_list t)
let zi (t : string) = z_of_int (int_of_string t)

let post_hook : (string -> string list -> prop option) ref = ref (fun _ _ -> None)

let post (spec : string) : prop =
  match words spec with
  | ["add"; a; b; s] -> mk_add (parse_view a) (parse_view b) (var_ix s)
  | ["sub"; a; b; s] -> mk_sub (parse_view a) (parse_view b) (var_ix s)
  | ["leq"; a; b] -> mk_leq (parse_view a) (parse_view b)
  | ["lt"; a; b] -> mk_lt (parse_view a) (parse_view b)
  | ["geq"; a; b] -> mk_geq (parse_view a) (parse_view b)
  | ["gt"; a; b] -> mk_gt (parse_view a) (parse_view b)
  | ["eq"; a; b] -> mk_eq (parse_view a) (parse_view b)
  | ["neq"; a; b] -> mk_neq (parse_view a) (parse_view b)   (* NotEquals after fix 106df3d *)
  | ["sum"; xs; s] -> mk_sum (List.map (fun v -> VVar v) (var_list xs)) (var_ix s)
  | ["lineq"; cs; xs; k] -> mk_lin_eq (zl cs) (var_list xs) (zi k)
  | ["linle"; cs; xs; k] -> mk_lin_le (zl cs) (var_list xs) (zi k)
  | ["linne"; cs; xs; k] -> mk_lin_ne (zl cs) (var_list xs) (zi k)
  | ["lineqr"; cs; xs; k; b] -> mk_lin_eq_reif (zl cs) (var_list xs) (zi k) (var_ix b)
  | ["linler"; cs; xs; k; b] -> mk_lin_le_reif (zl cs) (var_list xs) (zi k) (var_ix b)
  | ["linner"; cs; xs; k; b] -> mk_lin_ne_reif (zl cs) (var_list xs) (zi k) (var_ix b)
  | kind :: rest -> (match !post_hook kind rest with Some p -> p | None -> failwith ("unknown propagator kind " ^ kind))
  | [] -> failwith "empty pspec"

type setup = { store : z list list; props : prop list; entry : string list; pick : sched }

let setup (line : string) : setup =
  let parts = List.map String.trim (String.split_on_char ';' line) in
  let doms, rest = match parts with d :: r -> d, r | [] -> failwith "empty" in
  let store = parse_doms doms in
  let props = ref [] and entry = ref ["enum"] and pick = ref fifo in
  List.iter (fun p ->
    if p <> "" then
      match words p with
      | ("enum" | "min" | "max" | "first") :: _ as e -> entry := e
      | ["sched"; seed] -> pick := lcg_pick (z_of_int (int_of_string seed))
      | ["lp"] -> ()
      | _ -> props := post p :: !props) rest;
  { store; props = List.rev !props; entry = !entry; pick = !pick }

let seq_nat n = let rec go i = if i >= n then [] else nat_of_int i :: go (i + 1) in go 0

let run_prop (line : string) : string =
  let st = setup line in
  let ag = agenda_with (seq_nat (List.length st.props)) in
  match propagate st.pick (prop_fuel st.props st.store ag) st.props st.store ag with
  | PFail -> "fail"
  | PFuel -> "FUEL"
  | PDone s -> Printf.sprintf "ok %s %s" (if all_fixed s then "solved" else "stalled") (fmt_doms s)

(* sub-command `deps`: for every variable the propagators whose trigger list (PropDefs.trig = list_trigger_vars) contains it,
   in registration order, once per occurrence: the implementation's dependency table *)
let run_deps (line : string) : string =
  let st = setup line in
  let nv = List.length st.store in
  let rows = List.init nv (fun v ->
    let ps = List.concat (List.mapi (fun i (p : prop) ->
      List.filter_map (fun t -> if int_of_nat t = v then Some (string_of_int i) else None) p.trig) st.props) in
    if ps = [] then "-" else String.concat "," ps) in
  "deps " ^ String.concat "|" rows

let fmt_sol (s : z list list) : string =
  String.concat "," (List.map (fun d -> match d with [x] -> string_of_int (int_of_z x) | _ -> "?") s)
let fmt_sols (l : z list list list) = "sols " ^ (if l = [] then "-" else String.concat " " (List.map fmt_sol l))

let run_solve (line : string) : string =
  let st = setup line in
  let res = match st.entry with
    | ["enum"] | ["first"] -> search st.pick None st.props st.store
    | ["min"; v] -> search st.pick (Some (parse_view v)) st.props st.store
    | ["max"; v] -> search st.pick (Some (VOpp (parse_view v))) st.props st.store
    | _ -> failwith "bad entry" in
  match res with
  | SFuel -> "FUEL"
  | SOk (sols, _) ->
    let sols = if st.entry = ["first"] then (match sols with x :: _ -> [x] | [] -> []) else sols in
    fmt_sols sols

let run_ctx (line : string) : string =
  let parts = List.map String.trim (String.split_on_char ';' line) in
  let doms, ops = match parts with d :: r -> d, r | [] -> failwith "empty" in
  let c = ref (parse_doms doms, []) in
  let out = ref [] and stop = ref false in
  List.iter (fun p ->
    if p <> "" && not !stop then
      match words p with
      | [op; v; b] ->
        let v = var_ix v and b = zi b in
        let before = List.length (snd !c) in
        let r = if op = "min" then cset_min v b !c else cset_max v b !c in
        (match r with
         | None -> out := "fail" :: !out; stop := true
         | Some c' ->
           c := c';
           let d = List.nth (fst c') (int_of_nat v) in
           let x = if op = "min" then List.hd d else List.nth d (List.length d - 1) in
           out := Printf.sprintf "%d ev=%d %s" (int_of_z x) (List.length (snd c') - before) (fmt_doms (fst c')) :: !out)
      | _ -> failwith "bad ctx op") ops;
  String.concat " / " (List.rev !out)

let run_view (line : string) : string =
  let parts = List.map String.trim (String.split_on_char ';' line) in
  match parts with
  | doms :: v :: ops ->
    let w = parse_view v in
    let c = ref (parse_doms doms, []) in
    let bnd () = Printf.sprintf "bnd %d %d" (int_of_z (vmin w (fst !c))) (int_of_z (vmax w (fst !c))) in
    let out = ref [bnd ()] and stop = ref false in
    List.iter (fun p ->
      if p <> "" && not !stop then
        match words p with
        | [op; b] ->
          let before = List.length (snd !c) in
          (match vset w (op = "max") (zi b) !c with
           | None -> out := "fail" :: !out; stop := true
           | Some c' ->
             c := c';
             out := Printf.sprintf "ok ev=%d %s %s" (List.length (snd c') - before) (fmt_doms (fst c')) (bnd ()) :: !out)
        | _ -> failwith "bad view op") ops;
    String.concat " / " (List.rev !out)
  | _ -> failwith "bad view case"

(* ---- specification side: brute force over the declared domains with `sat` ---- *)
let asg_of (arr : int array) : asg = fun v -> let i = int_of_nat v in if i < Array.length arr then z_of_int arr.(i) else Z0

exception Too_big
let all_solutions (store : z list list) (props : prop list) : int list list =
  let doms = Array.of_list (List.map ilist store) in
  let prod = Array.fold_left (fun acc d -> if acc > 2_000_000 then acc else acc * max 1 (List.length d)) 1 doms in
  if prod > 2_000_000 then raise Too_big;
  let n = Array.length doms in
  let cur = Array.make n 0 in
  let out = ref [] in
  let rec go i =
    if i = n then begin
      let a = asg_of (Array.copy cur) in
      if List.for_all (fun p -> p.sat a) props then out := Array.to_list cur :: !out
    end else List.iter (fun x -> cur.(i) <- x; go (i + 1)) doms.(i) in
  go 0; List.rev !out

(* group modules may register further known-class predicates: specs (word lists) -> Some "class" *)
let known_hook : (string list list -> string option) ref = ref (fun _ -> None)

let known_class (line : string) : string =
  let specs = List.map words (String.split_on_char ';' line) in
  let has w = List.exists (fun p -> match p with k :: _ -> k = w | [] -> false) specs in
  (* D11: IntLinEq/IntLinLe (also reached from the reified forms) never test 0 = c / 0 <= c when
     every coefficient paired with a variable is zero *)
  let zero_lin = List.exists (fun p -> match p with
      | k :: cs :: xs :: _ when List.mem k ["lineq"; "linle"; "lineqr"; "linler"; "linner"] ->
        all_zero (zl cs) (var_list xs)
      | _ -> false) specs in
  if zero_lin then "BAD:lin_zero_coeffs "
  else match !known_hook specs with Some c -> "BAD:" ^ c ^ " " | None -> ""

let fmt_isols (l : int list list) = if l = [] then "-" else String.concat " " (List.map (fun s -> String.concat "," (List.map string_of_int s)) l)

(* prop: spec = per variable the supported values (values used by some solution inside the domains) *)
let run_prop_full (line : string) : string =
  let st = setup line in
  let sols = all_solutions st.store st.props in
  let n = List.length st.store in
  let supp = List.init n (fun i -> List.sort_uniq compare (List.map (fun s -> List.nth s i) sols)) in
  run_prop line ^ " ||| " ^ known_class line ^
  (if sols = [] then "unsat" else "supp " ^ String.concat "|" (List.map fmt_list supp)) ^
  " orig " ^ fmt_doms st.store

let run_solve_full (line : string) : string =
  let st = setup line in
  let sols = all_solutions st.store st.props in
  let obj = match st.entry with
    | ["min"; v] -> Some (parse_view v)
    | ["max"; v] -> Some (VOpp (parse_view v))
    | _ -> None in
  let objs = match obj with
    | None -> ""
    | Some w -> " obj " ^ (if sols = [] then "-" else String.concat " " (List.map (fun s -> string_of_int (int_of_z (vsem w (asg_of (Array.of_list s))))) sols)) in
  run_solve line ^ " ||| " ^ known_class line ^ "all " ^ fmt_isols sols ^ objs
