(* Model-level sub-commands for the public posting routes (Model/Routes.v) over the extracted model;
   same case grammar as harness/src/mroutes.rs.
     rlower  -> `ok verr=<0|1> <final domains> ; <pspec> ; ...` | `err <variant>` | `callerr InvalidInput` | `PANIC`
     rsolve  -> `<model> ||| [BAD:<class> ]<spec>`
                model = the extracted ENGINE (Model/Search.v) run on the lowered model (rlower + denote_route),
                        projected on the program's handles (declared and returned variables)
                spec  = brute force over the declared domains: every returned handle takes the value
                        `route_fun` of its operands, every call satisfies `route_sem`, every fluent / lin
                        constraint `holds` (DESIGN.md Appendix A) *)
open Selen_model
open Conv
open Mlevel_cmd

(* The repairs routes_{implies_cumulative,felement_bounds,prepare_validation_errors} are in /repo (fix commits a88ba19,
   b9ad7d3, 596c327), and so are e45322d (length-mismatched lin_*_reif post equals(b, 0)) and e2596cd (Model::table drops
   malformed tuples and records a validation error): the model of the repaired tree (call_fixed / rbuild_fixed of coq/Model/Routes.v) is the default;
   SELEN_ROUTES_PREFIX=1 selects the model of the tree before them (used for the refutation witnesses only). *)
let fixed_mode = not (try Sys.getenv "SELEN_ROUTES_PREFIX" = "1" with Not_found -> false)
(* SELEN_ROUTES_EXT_FIXED=1: the model of the tree AFTER the proposed repairs fixes/routes_ext/routes_table_nd_arity.patch and
   routes_element_nd_index.patch (call_ext_fixed of coq/Model/Routes.v); the default is the current tree *)
let ext_fixed = fixed_mode   (* both patches are in /repo: b2362f9, a46069b *)
(* The repairs fixes/routes_fix2/routes_gcc_len.patch (Model::gcc records a validation error for |values| <> |counts|) and
   routes_empty_domain_read.patch (posting methods give their result variable the empty domain instead of reading min()/max() of an
   empty operand domain): call_fix2 / rbuild_fix2 of coq/Model/Routes.v is the default; SELEN_ROUTES_FIX2_PREFIX=1 selects the model of
   the tree before them (call_ext_fixed; witnesses of the former classes gcc_len / empty_domain_panic) *)
let fix2 = ext_fixed && not (try Sys.getenv "SELEN_ROUTES_FIX2_PREFIX" = "1" with Not_found -> false)
let rbuild prog = if fix2 then rbuild_fix2 prog else if ext_fixed then rbuild_ext_fixed prog else if fixed_mode then rbuild_fixed prog else rbuild prog
let rexec s m = if fix2 then rexec_fix2 s m else if ext_fixed then rexec_ext_fixed s m else if fixed_mode then rexec_fixed s m else rexec s m
(* The repair fixes/d12_operands/d12_validation_operands.patch (finding D12: validate_constraint_parameters counts operands, the divisor is
   the second operand): rvalidate of coq/Model/Routes.v is the repaired validator and the default; SELEN_D12_PREFIX=1 selects
   rvalidate_prefix, the validator before it (witnesses of the former classes mod_const / const_const) *)
let d12_fixed = not (try Sys.getenv "SELEN_D12_PREFIX" = "1" with Not_found -> false)
let rvalidate s ps = if d12_fixed then rvalidate s ps else rvalidate_prefix s ps
let kf_noop_route r = if fixed_mode then false else kf_noop_route r
let kf_felement_bounds r s = if fixed_mode then false else kf_felement_bounds r s

let vlist (t : string) : nat list = if t = "-" then [] else List.map var_ix (String.split_on_char ',' t)
let zl (t : string) = zlist (parse_list t)
let zi (t : string) = z_of_int (int_of_string t)
let opnd (t : string) : opnd =
  if String.length t > 2 && String.sub t 0 2 = "c:" then OC (zi (String.sub t 2 (String.length t - 2))) else OV (var_ix t)
let parse_tuples (tok : string) : z list list =
  if tok = "-" then []
  else List.map (fun tp -> if tp = "e" then [] else List.map (fun v -> z_of_int (int_of_string v)) (String.split_on_char ':' tp))
      (String.split_on_char '/' tok)

let split_str (sep : string) (s : string) : string list = Str.split_delim (Str.regexp_string sep) s
let parse_mat (tok : string) : nat list list =
  if tok = "-" || tok = "E" then [] else List.map (fun r -> if r = "e" then [] else vlist r) (String.split_on_char '/' tok)
let parse_cube (tok : string) : nat list list list =
  if tok = "-" then [] else List.map parse_mat (split_str "//" tok)

let parse_route (t : string list) : route =
  match t with
  | ["amin"; xs] -> RArrMin (vlist xs) | ["amax"; xs] -> RArrMax (vlist xs)
  | ["sumiter"; xs] -> RSumIter (if xs = "-" then [] else List.map opnd (String.split_on_char ',' xs))
  | ["element2d"; mat; r; c; v] -> RElement2D (parse_mat mat, var_ix r, var_ix c, var_ix v)
  | ["element3d"; cube; d; r; c; v] -> RElement3D (parse_cube cube, var_ix d, var_ix r, var_ix c, var_ix v)
  | ["table2d"; mat; ts] -> RTable2D (parse_mat mat, parse_tuples ts)
  | ["table3d"; cube; ts] -> RTable3D (parse_cube cube, parse_tuples ts)
  | ["add"; a; b] -> RAdd (opnd a, opnd b) | ["sub"; a; b] -> RSub (opnd a, opnd b)
  | ["mul"; a; b] -> RMul (opnd a, opnd b) | ["mod"; a; b] -> RMod (opnd a, opnd b)
  | ["abs"; a] -> RAbs (opnd a)
  | ["min"; xs] -> RMin (vlist xs) | ["max"; xs] -> RMax (vlist xs) | ["sum"; xs] -> RSum (vlist xs)
  | ["alldiff"; xs] -> RAllDiff (vlist xs) | ["alleq"; xs] -> RAllEq (vlist xs)
  | ["element"; arr; i; v] -> RElement (vlist arr, var_ix i, var_ix v)
  | ["aelement"; i; arr; v] -> RElement (vlist arr, var_ix i, var_ix v)
  | ["table"; xs; ts] -> RTable (vlist xs, parse_tuples ts)
  | ["count"; xs; tg; c] -> RCount (vlist xs, opnd tg, var_ix c)
  | ["atleast"; xs; k; n] -> RCard (KAtLeast, vlist xs, zi k, zi n)
  | ["atmost"; xs; k; n] -> RCard (KAtMost, vlist xs, zi k, zi n)
  | ["exactly"; xs; k; n] -> RCard (KExactly, vlist xs, zi k, zi n)
  | ["gcc"; xs; vals; cnts] -> RGcc (vlist xs, zl vals, vlist cnts)
  | ["between"; l; m; u] -> RBetween (var_ix l, var_ix m, var_ix u)
  | ["band"; xs] -> RBoolAnd (vlist xs) | ["bor"; xs] -> RBoolOr (vlist xs)
  | ["bnot"; x] -> RBoolNot (var_ix x) | ["bxor"; x; y] -> RBoolXor (var_ix x, var_ix y)
  | ["implies"; a; b] -> RImplies (var_ix a, var_ix b)
  | ["clause"; p; n] -> RClause (vlist p, vlist n)
  | [("eqr" | "ner" | "ltr" | "ler" | "gtr" | "ger" as k); x; y; b] ->
    RReif ((match k with "eqr" -> OEq | "ner" -> ONe | "ltr" -> OLt | "ler" -> OLe | "gtr" -> OGt | _ -> OGe), var_ix x, var_ix y, var_ix b)
  | [("lineqr" | "linler" | "linner" | "blineqr" | "blinler" | "blinner" as k); cs; xs; c; b] ->
    RLinReif ((match k with "lineqr" | "blineqr" -> OEq | "linler" | "blinler" -> OLe | _ -> ONe), zl cs, vlist xs, zi c, var_ix b)
  | ["fand"; a; b] -> RFAnd (var_ix a, var_ix b) | ["for"; a; b] -> RFOr (var_ix a, var_ix b)
  | ["fnot"; a] -> RFNot (var_ix a) | ["fxor"; a; b] -> RFXor (var_ix a, var_ix b)
  | ["fimplies"; a; b] -> RFImplies (var_ix a, var_ix b)
  | ["felement"; arr; i] -> RFElement (vlist arr, var_ix i)
  | ["bool2int"; b] -> RBool2Int (var_ix b)
  | ["cumulative"; st; du; de; cap] -> RCumulative (vlist st, zl du, zl de, zi cap)
  | _ -> failwith ("bad route " ^ String.concat " " t)

let parse_rpost (p : string) : rstmt option =
  match words p with
  | "call" :: rest -> Some (SCall (parse_route rest))
  | ["blin"; op; cs; xs; k] -> (match parse_post (String.concat " " ["lin"; op; cs; xs; k]) with Some s -> Some (SB s) | None -> None)
  | _ -> (match parse_post p with Some s -> Some (SB s) | None -> None)

(* array-factory declarations ints(n,lo,hi) / ints2d(r,c,lo,hi) / ints3d(d,r,c,lo,hi) / bools(n) / bools2d(r,c) / bools3d(d,r,c) *)
let parse_rdecl (d : string) : rstmt =
  match head_args d with
  | Some (h, args) ->
    let a = List.map (fun x -> int_of_string (String.trim x)) args in
    let n i = nat_of_int (List.nth a i) and z i = z_of_int (List.nth a i) in
    (match h with
     | "ints" -> SArr ([n 0], z 1, z 2)
     | "ints2d" -> SArr ([n 0; n 1], z 2, z 3)
     | "ints3d" -> SArr ([n 0; n 1; n 2], z 3, z 4)
     | "bools" -> SArr ([n 0], z_of_int 0, z_of_int 1)
     | "bools2d" -> SArr ([n 0; n 1], z_of_int 0, z_of_int 1)
     | "bools3d" -> SArr ([n 0; n 1; n 2], z_of_int 0, z_of_int 1)
     | _ -> failwith ("bad factory " ^ h))
  | None -> SB (parse_decl d)
let parse_rdecls (s : string) : rstmt list =
  List.filter_map (fun d -> let d = String.trim d in if d = "" then None else Some (parse_rdecl d)) (String.split_on_char '|' s)

type rcase = { rprog : rstmt list; rentry : string list }

let parse_rcase (line : string) : rcase =
  match List.map String.trim (String.split_on_char ';' line) with
  | [] -> failwith "empty"
  | decls :: rest ->
    let posts = ref [] and entry = ref ["enum"] in
    List.iter (fun p ->
      if p <> "" && not (empty_new p) then
        match parse_rpost p with
        | Some s -> posts := s :: !posts
        | None ->
          (match words p with
           | ("enum" | "first" | "min" | "max") :: _ as e -> entry := e
           | _ -> failwith ("bad post " ^ p))) rest;
    { rprog = parse_rdecls decls @ List.rev !posts; rentry = !entry }

(* ---- printing ---- *)
let ck = function KAtLeast -> "atleast" | KAtMost -> "atmost" | KExactly -> "exactly"
let zs z = string_of_int (int_of_z z)
let xl l = dash (List.map xv l)
let fmt_rdesc (p : rdesc) : string =
  match p with
  | PB q -> fmt_pdesc q
  | PSum (xs, s) -> Printf.sprintf "sum %s %s" (dash (List.map fmt_view xs)) (xv s)
  | PAbs (x, s) -> Printf.sprintf "abs %s %s" (fmt_view x) (xv s)
  | PMin (xs, r) -> Printf.sprintf "minof %s %s" (xl xs) (xv r)
  | PMax (xs, r) -> Printf.sprintf "maxof %s %s" (xl xs) (xv r)
  | PAllDiff xs -> "alldiff " ^ xl xs
  | PAllEq xs -> "alleq " ^ xl xs
  | PElement (arr, i, v) -> Printf.sprintf "element %s %s %s" (xl arr) (xv i) (xv v)
  | PTable (xs, ts) ->
    Printf.sprintf "table %s %s" (xl xs)
      (if ts = [] then "-" else String.concat "/" (List.map (fun r -> if r = [] then "e" else String.concat ":" (List.map zs r)) ts))
  | PCount (xs, t, c) -> Printf.sprintf "count %s %s %s" (xl xs) (fmt_view t) (xv c)
  | PCard (k, xs, v, n) -> Printf.sprintf "%s %s %s %s" (ck k) (xl xs) (zs v) (zs n)
  | PBetween (l, m, u) -> Printf.sprintf "between %s %s %s" (xv l) (xv m) (xv u)
  | PBand (xs, r) -> Printf.sprintf "band %s %s" (xl xs) (xv r)
  | PBor (xs, r) -> Printf.sprintf "bor %s %s" (xl xs) (xv r)
  | PBnot (o, r) -> Printf.sprintf "bnot %s %s" (xv o) (xv r)
  | PBxor (x, y, r) -> Printf.sprintf "bxor %s %s %s" (xv x) (xv y) (xv r)
  | PReif (op, x, y, b) ->
    Printf.sprintf "%s %s %s %s" (match op with OEq -> "eqr" | ONe -> "ner" | OLt -> "ltr" | OLe -> "ler" | OGt -> "gtr" | OGe -> "ger") (xv x) (xv y) (xv b)
  | PLinReif (op, cs, xs, k, b) ->
    Printf.sprintf "%s %s %s %s %s" (match op with OEq -> "lineqr" | OLe -> "linler" | ONe -> "linner" | _ -> "lin?r")
      (dash (List.map zs cs)) (xl xs) (zs k) (xv b)

let verr_name = function VInvalidDomain -> "InvalidDomain" | VInvalidConstraint -> "InvalidConstraint" | VConflicting -> "ConflictingConstraints"

let run_rlower (line : string) : string =
  let c = parse_rcase line in
  let m = rbuild c.rprog in
  if m.rpanic then "PANIC"
  else if m.rcallerr then "callerr InvalidInput"
  else if fixed_mode && m.rverr then "err InvalidConstraint"
  else match rlower m with
    | RLPanic -> "PANIC"
    | RLOk (s, ps) ->
      (match rvalidate s ps with
       | Some e -> "err " ^ verr_name e
       | None ->
         Printf.sprintf "ok verr=%d %s ; %s" (if m.rverr then 1 else 0) (String.concat "|" (List.map fmt_dom s))
           (if ps = [] then "-" else String.concat " ; " (List.map fmt_rdesc ps)))

(* ---- semantic side ---- *)
(* handles in creation order: declared (with the declared domain) or returned by a call / api *)
type handle = HDecl of int list | HApi of afn * int * int | HRet of route
(* constraints: (route, ordinal of its handle or -1) and fluent / lin constraints *)
type sem_item = IRoute of route * int | ICons of cons

let analyse (prog : rstmt list) : handle list * sem_item list =
  let hs = ref [] and items = ref [] and n = ref 0 in
  let push h = hs := h :: !hs; incr n in
  List.iter (fun s -> match s with
    | SB (SInt (lo, hi)) -> push (HDecl (ilist (drange lo hi)))
    | SB (SSet vs) -> push (HDecl (ilist (dof_values vs)))
    | SB SBool -> push (HDecl [0; 1])
    | SArr (dims, lo, hi) ->
      let n = List.fold_left (fun a d -> a * int_of_nat d) 1 dims in
      for _ = 1 to n do push (HDecl (ilist (arr_dom lo hi))) done
    | SB (SApi (f, x, y)) -> push (HApi (f, int_of_nat x, int_of_nat y))
    | SB st -> (match stmt_cons st with Some c -> items := ICons c :: !items | None -> ())
    | SCall r ->
      if returns r then begin items := IRoute (r, !n) :: !items; push (HRet r) end
      else items := IRoute (r, -1) :: !items) prog;
  List.rev !hs, List.rev !items

let enum_handles (hs : handle list) (keep : asg -> bool) : int list list =
  let hv = Array.of_list hs in
  let n = Array.length hv in
  let cur = Array.make n 0 in
  let out = ref [] in
  let rec go i =
    if i = n then begin
      if keep (asg_of (Array.copy cur)) then out := Array.to_list cur :: !out
    end else match hv.(i) with
      | HDecl d -> List.iter (fun x -> cur.(i) <- x; go (i + 1)) d
      | HApi (f, x, y) ->
        cur.(i) <- (match f with FAdd -> cur.(x) + cur.(y) | FSub -> cur.(x) - cur.(y) | FMul -> cur.(x) * cur.(y));
        go (i + 1)
      | HRet r ->
        (match route_fun r (asg_of (Array.copy cur)) with
         | Some v -> cur.(i) <- int_of_z v; go (i + 1)
         | None -> ()) in
  go 0; List.sort compare !out

let brute (prog : rstmt list) : int list list =
  let hs, items = analyse prog in
  enum_handles hs (fun a ->
    List.for_all (fun it -> match it with
      | ICons c -> holds c a
      | IRoute (r, res) -> route_sem r (nat_of_int (max res 0)) a) items)

(* the engine on the lowered model *)
let proj (user : nat list) (t : z list list) : int list =
  List.map (fun v -> match List.nth t (int_of_nat v) with [x] -> int_of_z x | _ -> min_int) user

let rmodel_part (c : rcase) : string =
  let m = rbuild c.rprog in
  if m.rpanic then "PANIC"
  else if m.rcallerr then "callerr InvalidInput"
  (* a recorded posting-time error is returned before anything is lowered (596c327; solve / minimize / maximize
     always checked it first) *)
  else if m.rverr && (fixed_mode || c.rentry <> ["enum"]) then (if c.rentry = ["enum"] then "sols -" else "err InvalidConstraint")
  else match rlower m with
    | RLPanic -> "PANIC"
    | RLOk (s, ps) ->
      let verr = rvalidate s ps in
      let props = List.map denote_route ps in
      (match c.rentry with
       | ["enum"] ->
         (* enumerate() does not consult constraint_validation_errors (it does after the repair) *)
         if verr <> None || (fixed_mode && m.rverr) then "sols -"
         else (match Selen_model.enumerate fifo props s with
             | SFuel -> "FUEL"
             | SOk (sols, _) -> "sols " ^ fmt_sols (List.sort_uniq compare (List.map (proj m.ruser) sols)))
       | e ->
         if m.rverr then "err InvalidConstraint"
         else (match verr with
             | Some x -> "err " ^ verr_name x
             | None ->
               let r = match e with
                 | ["first"] -> solve fifo props s
                 | ["min"; v] -> minimize fifo (VVar (List.nth m.ruser (int_of_nat (var_ix v)))) props s
                 | ["max"; v] -> maximize fifo (VVar (List.nth m.ruser (int_of_nat (var_ix v)))) props s
                 | _ -> failwith "bad entry" in
               (match r with
                | None -> "FUEL"
                | Some None -> "err NoSolution"
                | Some (Some t) -> "one " ^ String.concat "," (List.map string_of_int (proj m.ruser t)))))

(* ---- known classes: the decidable predicates of Model/Routes.v on the calls (arguments resolved to
   VarIds against the store at call time), then those of Model/Lower.v on the fluent trees, then the
   classes read off the lowered model ---- *)
let rknown_class (prog : rstmt list) : string =
  let cls = ref "" in
  let set c = if !cls = "" then cls := c in
  let m = ref rs0 in
  List.iter (fun s ->
    (match s with
     | SCall (RTable (xs, ts)) when not fixed_mode && not (table_okb xs ts) -> set "table_arity_panic"   (* repaired by e2596cd *)
     | SCall r0 ->
       let r = rn_route (ruv !m) r0 in
       let st = fst (!m).rst in
       if kf_noop_route r then set "noop_route";
       if not d12_fixed && kf_mod_const r then set "mod_const";          (* repaired: a recurrence is a violation *)
       if kf_mod_zero_div r st then set "mod_zero_div";
       if not d12_fixed && kf_const_const r then set "const_const";      (* repaired *)
       if kf_felement_bounds r st then set "felement_bounds";
       if not fixed_mode && kf_linreif_len r then set "linreif_len";   (* repaired by e45322d *)
       if kf_linreif_zero r then set "lin_zero_coeffs";
       if not fix2 && kf_gcc_len r then set "gcc_len";                   (* repaired: a recorded validation error (experr) *)
       if not ext_fixed && kf_element_nd_index r st then set "element_nd_index";
       if not ext_fixed && kf_element_nd_dummy r then set "element_nd_index";      (* same finding: the first row's length stands for every row's *)
       if not ext_fixed && kf_table_nd_arity r then set "table_nd_arity";
       if kf_nonbool_arg r st then set "nonbool_arg"
     | SB _ | SArr _ -> ());
    m := rexec s !m) prog;
  let m = !m in
  (* a predicted PANIC (a posting method reading min()/max() of an emptied domain) is its own class, whatever else the program
     contains (it used to be shadowed by mod_zero_div, which is scope now) *)
  if m.rpanic then "BAD:empty_domain_panic "
  else if !cls <> "" then "BAD:" ^ !cls ^ " "
  else begin
    let base = List.filter_map (function SB s -> Some s | SCall _ | SArr _ -> None) prog in
    let cs = posted base in
    (* an auxiliary variable of a fluent tree whose computed range exceeds MAX_SPARSE_SET_DOMAIN_SIZE is
       represented by the empty domain (Model/Lower.v aux_dom): an empty domain of a variable that is
       not a handle of the program *)
    let aux_oversize s = List.exists (fun (i, d) -> d = [] && not (List.mem i (List.map int_of_nat m.ruser))) (List.mapi (fun i d -> (i, d)) s) in
    let lowered = rlower m in
    let low_has f = match lowered with RLOk (_, ps) -> List.exists f ps | RLPanic -> false in
    if not fix2 && (m.rpanic || lowered = RLPanic) then "BAD:empty_domain_panic "   (* repaired: the model never panics *)
    else if (match lowered with RLOk (s, ps) -> rvalidate s ps = Some VInvalidDomain && (aux_oversize s || not (List.exists (fun d -> d = []) s)) | RLPanic -> false) then "BAD:oversize_domain "
    else if low_has (function PB (PLinEq (c, x, _)) | PB (PLinLe (c, x, _)) -> all_zero c x | _ -> false) then "BAD:lin_zero_coeffs "
    else if low_has (function PB (PMod (_, _, _)) -> (match lowered with RLOk (s, ps) -> rvalidate s ps = Some VInvalidConstraint | _ -> false) | _ -> false) then "BAD:mod_rejected "
    else ""
  end

let run_rsolve (line : string) : string =
  let c = parse_rcase line in
  let m = rbuild c.rprog in
  let mp = rmodel_part c in
  (* the reified linear routes index coefficients by variable position: with fewer coefficients than
     variables the propagator panics once enough variables are fixed — not predicted here *)
  let withheld = not fixed_mode && List.exists (function SCall r -> kf_linreif_len r | _ -> false) c.rprog in
  let mp = if withheld then "-" else mp in
  if m.rpanic then mp ^ " ||| " ^ rknown_class c.rprog ^ "all -"
  else if m.rcallerr then mp ^ " ||| expcallerr"
  else if m.rverr then
    mp ^ " ||| " ^ (if c.rentry = ["enum"] && not fixed_mode then "BAD:enum_ignores_verr " else "") ^ "experr"
  else if fixed_mode && List.exists (function SCall r -> kf_table_nd_arity r | _ -> false) c.rprog then
    (* Model::table documents (e2596cd) that a tuple of the wrong arity is an InvalidConstraint error of the solving call;
       table_2d / table_3d post the same Table propagators without recording anything *)
    mp ^ " ||| BAD:table_nd_arity experr"
  else begin
    let spec = brute c.rprog in
    let obj = match c.rentry with
      | [("min" | "max"); v] -> let i = int_of_nat (var_ix v) in " obj " ^ (if spec = [] then "-" else String.concat " " (List.map (fun s -> string_of_int (List.nth s i)) spec))
      | _ -> "" in
    mp ^ " ||| " ^ rknown_class c.rprog ^ "all " ^ fmt_sols spec ^ obj
  end
