// Group `Logic`: bool_logic.rs, reification.rs, allequal.rs, between.rs, conditional.rs.
// pspec kinds:
//   band x1,x2,.. xR | bor x1,.. xR          (operand list `-` = empty)
//   bnot xA xR | bxor xA xB xR
//   eqr|ner|ltr|ler|gtr|ger xA xB xR         (int_*_reif)
//   alleq x1,x2,..                           (`-` = empty)
//   between xL xM xU
//   ite <cond> <then> [<else>]               cond ::= (eq|ne|gt|lt):xN:K   then/else ::= (eq|ne|gt|lt|ge|le):xN:K
use selen::constraints::props::conditional::{Condition, SimpleConstraint};
use selen::constraints::props::Propagators;
use selen::variables::{Val, VarId};

fn vix(tok: &str) -> usize { tok.trim_start_matches('x').parse().expect("var") }
fn vlist(tok: &str, vars: &[VarId]) -> Vec<VarId> {
    if tok == "-" { return vec![]; }
    tok.split(',').map(|t| vars[vix(t)]).collect()
}
fn triple<'a>(tok: &'a str) -> (&'a str, usize, i32) {
    let p: Vec<&str> = tok.split(':').collect();
    assert!(p.len() == 3, "bad ite atom {}", tok);
    (p[0], vix(p[1]), p[2].parse().expect("ite value"))
}
fn cond(tok: &str, vars: &[VarId]) -> Condition {
    let (k, v, z) = triple(tok);
    let (v, z) = (vars[v], Val::ValI(z));
    match k {
        "eq" => Condition::Equals(v, z),
        "ne" => Condition::NotEquals(v, z),
        "gt" => Condition::GreaterThan(v, z),
        "lt" => Condition::LessThan(v, z),
        _ => panic!("bad condition kind {}", k),
    }
}
fn simple(tok: &str, vars: &[VarId]) -> SimpleConstraint {
    let (k, v, z) = triple(tok);
    let (v, z) = (vars[v], Val::ValI(z));
    match k {
        "eq" => SimpleConstraint::Equals(v, z),
        "ne" => SimpleConstraint::NotEquals(v, z),
        "gt" => SimpleConstraint::GreaterThan(v, z),
        "lt" => SimpleConstraint::LessThan(v, z),
        "ge" => SimpleConstraint::GreaterOrEqual(v, z),
        "le" => SimpleConstraint::LessOrEqual(v, z),
        _ => panic!("bad simple constraint kind {}", k),
    }
}

pub fn post(kind: &str, t: &[&str], vars: &[VarId], props: &mut Propagators) -> bool {
    let v = |i: usize| vars[vix(t[i])];
    match kind {
        "band" => { props.bool_and(vlist(t[1], vars), v(2)); }
        "bor" => { props.bool_or(vlist(t[1], vars), v(2)); }
        "bnot" => { props.bool_not(v(1), v(2)); }
        "bxor" => { props.bool_xor(v(1), v(2), v(3)); }
        "eqr" => { props.int_eq_reif(v(1), v(2), v(3)); }
        "ner" => { props.int_ne_reif(v(1), v(2), v(3)); }
        "ltr" => { props.int_lt_reif(v(1), v(2), v(3)); }
        "ler" => { props.int_le_reif(v(1), v(2), v(3)); }
        "gtr" => { props.int_gt_reif(v(1), v(2), v(3)); }
        "ger" => { props.int_ge_reif(v(1), v(2), v(3)); }
        "alleq" => { props.all_equal(vlist(t[1], vars)); }
        "between" => { props.between_constraint(v(1), v(2), v(3)); }
        "ite" => {
            let c = cond(t[1], vars);
            let th = simple(t[2], vars);
            let el = if t.len() > 3 { Some(simple(t[3], vars)) } else { None };
            props.if_then_else_constraint(c, th, el);
        }
        _ => return false,
    }
    true
}
