// Further propagator kinds for `plevel::post`: one module per group, each exposing
// `pub fn post(kind: &str, t: &[&str], vars: &[VarId], props: &mut Propagators) -> bool`
// (true = handled).  Group modules are listed in GROUPS below.
use selen::constraints::props::Propagators;
use selen::variables::VarId;

type PostFn = fn(&str, &[&str], &[VarId], &mut Propagators) -> bool;
const GROUPS: &[PostFn] = &[
    crate::plevel_global::post,
    crate::plevel_logic::post,
    // group modules register here, e.g. crate::plevel_arith::post,
];

pub fn post_ext(kind: &str, t: &[&str], vars: &[VarId], props: &mut Propagators) {
    for g in GROUPS {
        if g(kind, t, vars, props) {
            return;
        }
    }
    panic!("unknown propagator kind {}", kind)
}
