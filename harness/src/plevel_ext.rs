// Further propagator kinds for `plevel::post` (extended as the model grows).
use selen::constraints::props::Propagators;
use selen::variables::VarId;

pub fn post_ext(kind: &str, _t: &[&str], _vars: &[VarId], _props: &mut Propagators) {
    panic!("unknown propagator kind {}", kind)
}
