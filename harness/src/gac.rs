// `gac` sub-command: the three all-different engines through their public (doc-hidden) structs.
//   gac (bitset|sparse|hybrid|all) <dom>|<dom>|... ; op ; op ...
//   dom ::= lo..hi | a,b,c | -            (range -> add_variable, list -> add_variable_with_values)
//   op  ::= prop | rm i v | assign i v | below i v | above i v
// Output: `init <doms>` then, per op, ` / <op-result> <doms>` where <op-result> is `r=0|1` for the
// domain operations and `c=0|1 ok|inc` for propagate_alldiff over all variables 0..n-1 (in order).
// Domains are printed sorted, runs of >= 3 consecutive values as lo..hi.
use selen::constraints::gac_bitset::BitSetGAC;
use selen::constraints::gac_hybrid::{HybridGAC, Variable};
use selen::constraints::gac_sparseset::SparseSetGAC;

pub fn fmt_dom(vals: &[i32]) -> String {
    let mut v: Vec<i32> = vals.to_vec();
    v.sort();
    v.dedup();
    if v.is_empty() {
        return "-".to_string();
    }
    let mut out: Vec<String> = vec![];
    let mut i = 0;
    while i < v.len() {
        let mut j = i;
        while j + 1 < v.len() && v[j + 1] == v[j] + 1 {
            j += 1;
        }
        if j - i >= 2 {
            out.push(format!("{}..{}", v[i], v[j]));
        } else {
            for k in i..=j {
                out.push(v[k].to_string());
            }
        }
        i = j + 1;
    }
    out.join(",")
}

enum Eng {
    B(BitSetGAC),
    S(SparseSetGAC),
    H(HybridGAC),
}

impl Eng {
    fn add(&mut self, i: usize, d: &str) {
        let d = d.trim();
        let range = d.find("..").map(|p| (d[..p].parse::<i32>().unwrap(), d[p + 2..].parse::<i32>().unwrap()));
        let var = Variable(i);
        match (self, range) {
            (Eng::B(g), Some((lo, hi))) => g.add_variable(var, lo, hi),
            (Eng::B(g), None) => g.add_variable_with_values(var, crate::parse_list(d)),
            (Eng::S(g), Some((lo, hi))) => g.add_variable(var, lo, hi),
            (Eng::S(g), None) => g.add_variable_with_values(var, crate::parse_list(d)),
            (Eng::H(g), Some((lo, hi))) => g.add_variable(var, lo, hi).expect("hybrid add_variable"),
            (Eng::H(g), None) => g.add_variable_with_values(var, crate::parse_list(d)).expect("hybrid add_variable_with_values"),
        }
    }
    fn doms(&self, n: usize) -> String {
        (0..n)
            .map(|i| {
                let v = match self {
                    Eng::B(g) => g.get_domain_values(Variable(i)),
                    Eng::S(g) => g.get_domain_values(Variable(i)),
                    Eng::H(g) => g.get_domain_values(Variable(i)),
                };
                fmt_dom(&v)
            })
            .collect::<Vec<_>>()
            .join("|")
    }
    fn prop(&mut self, vars: &[Variable]) -> (bool, bool) {
        match self {
            Eng::B(g) => g.propagate_alldiff(vars),
            Eng::S(g) => g.propagate_alldiff(vars),
            Eng::H(g) => g.propagate_alldiff(vars),
        }
    }
    fn op(&mut self, op: &str, i: usize, v: i32) -> bool {
        let var = Variable(i);
        match (self, op) {
            (Eng::B(g), "rm") => g.remove_value(var, v),
            (Eng::B(g), "assign") => g.assign_variable(var, v),
            (Eng::B(g), "below") => g.remove_below(var, v),
            (Eng::B(g), "above") => g.remove_above(var, v),
            (Eng::S(g), "rm") => g.remove_value(var, v),
            (Eng::S(g), "assign") => g.assign_variable(var, v),
            (Eng::S(g), "below") => g.remove_below(var, v),
            (Eng::S(g), "above") => g.remove_above(var, v),
            (Eng::H(g), "rm") => g.remove_value(var, v),
            (Eng::H(g), "assign") => g.assign_variable(var, v),
            (Eng::H(g), "below") => g.remove_below(var, v),
            (Eng::H(g), "above") => g.remove_above(var, v),
            (_, o) => panic!("bad gac op {}", o),
        }
    }
}

pub fn run_case(line: &str) -> String {
    let line = line.trim();
    if let Some(rest) = line.strip_prefix("all ") {
        // the same case on the three engines, each under its own catch_unwind
        return ["bitset", "sparse", "hybrid"]
            .iter()
            .map(|e| {
                let l = format!("{} {}", e, rest);
                match std::panic::catch_unwind(|| run_one(&l)) {
                    Ok(s) => s,
                    Err(e) => {
                        let msg = if let Some(s) = e.downcast_ref::<&str>() { s.to_string() }
                                  else if let Some(s) = e.downcast_ref::<String>() { s.clone() } else { "?".to_string() };
                        format!("PANIC {}", msg.chars().filter(|c| *c != '\n').take(120).collect::<String>())
                    }
                }
            })
            .collect::<Vec<_>>()
            .join(" ## ");
    }
    run_one(line)
}

fn run_one(line: &str) -> String {
    let mut parts = line.split(';').map(|p| p.trim());
    let head = parts.next().unwrap();
    let (eng, doms) = head.split_once(' ').expect("engine and domains");
    let mut e = match eng {
        "bitset" => Eng::B(BitSetGAC::new()),
        "sparse" => Eng::S(SparseSetGAC::new()),
        "hybrid" => Eng::H(HybridGAC::new()),
        o => panic!("bad engine {}", o),
    };
    let ds: Vec<&str> = doms.split('|').map(|d| d.trim()).filter(|d| !d.is_empty()).collect();
    let n = ds.len();
    for (i, d) in ds.iter().enumerate() {
        e.add(i, d);
    }
    let vars: Vec<Variable> = (0..n).map(Variable).collect();
    let mut out = vec![format!("init {}", e.doms(n))];
    for p in parts {
        if p.is_empty() {
            continue;
        }
        let t: Vec<&str> = p.split_whitespace().collect();
        if t[0] == "prop" {
            let (c, ok) = e.prop(&vars);
            out.push(format!("c={} {} {}", c as i32, if ok { "ok" } else { "inc" }, e.doms(n)));
        } else {
            let r = e.op(t[0], t[1].parse().unwrap(), t[2].parse().unwrap());
            out.push(format!("r={} {}", r as i32, e.doms(n)));
        }
    }
    out.join(" / ")
}
