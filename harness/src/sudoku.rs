// `sudoku` sub-command (property C18): the specialised Sudoku solver through its public API.
//   case ::= <81 chars, digits and '.'>            string input (parse_string, then solve_sudoku on the parsed grid)
//          | g:<81 comma separated i32>            raw grid input (solve_sudoku on the grid as given; cells outside 0..9 possible:
//                                                   no completion, the answer must be none and nothing may panic)
//          | s:<any text without newline>          malformed string input (solve_sudoku_string / parse_string)
// Output (one line): `<compared part> # <harness-only part>`
//   compared part (must equal the model's line, ocaml/sudoku_cmd.ml):
//     grid|none|perr ; parse=ok|err|- ; res=<81 digits>|none|<v,v,...>   result of solve_sudoku(grid) ;
//     gen=<81 digits>|none|err:<kind>   the GENERAL solver: plain Model with 81 m.int(1,9), 27 alldiff (rows, columns,
//                                        boxes), one props.equals(cell, clue) per clue in row-major order, m.solve() ;
//     c0=<81 masks as 3 hex digits>     candidate table after SudokuSolver::new ;
//     adv=0|1                           result of ONE call of apply_advanced_techniques ; c1=<masks> the table after it ;
//     eqs=<r,c,d r,c,d ...>|-           the Eq propagators found in the Debug rendering of the solver after that call, in
//                                        posting order (what naked/hidden singles posted) ;
//     str=<grid>|none|-                 solve_sudoku_string on the same text (string cases with >= 28 clues, and parse errors)
//   harness-only part: verify=0|1|- (SudokuSolver::verify_solution on the returned grid), api=same|diff|-
//     (SudokuSolver::new(p).solve().solution against solve_sudoku(p), cases with >= 28 clues), nodes=<depth statistic>, SLOW (> 30 s)
// `c0..eqs` are reported for every grid, also with cells outside 0..9 (SudokuSolver::new gives such a cell the empty
// candidate set; before the repair SudokuCandidateSet::single debug_asserted there).
use selen::prelude::*;
use selen::solvers::sudoku::{solve_sudoku, solve_sudoku_string, SudokuSolver};

fn fmt_grid(g: &[[i32; 9]; 9]) -> String {
    let all_digit = g.iter().flatten().all(|&v| (0..=9).contains(&v));
    if all_digit {
        g.iter().flatten().map(|v| char::from(b'0' + *v as u8)).collect()
    } else {
        g.iter().flatten().map(|v| v.to_string()).collect::<Vec<_>>().join(",")
    }
}

fn fmt_res(r: &Option<[[i32; 9]; 9]>) -> String {
    match r {
        Some(g) => fmt_grid(g),
        None => "none".to_string(),
    }
}

fn cand_masks(s: &SudokuSolver) -> String {
    let c = s.get_candidates();
    let mut out = String::new();
    for row in 0..9 {
        for col in 0..9 {
            let mut m: u32 = 0;
            for d in c[row][col].iter() {
                m |= 1 << (d - 1);
            }
            out.push_str(&format!("{:03x}", m));
        }
    }
    out
}

// The general solver on the same puzzle: 81 variables 1..9 created row-major, 27 alldiff (rows, columns, boxes),
// clue equalities in row-major order, Model::solve.
fn general(p: &[[i32; 9]; 9]) -> String {
    let mut m = Model::default();
    let mut grid: Vec<Vec<VarId>> = vec![];
    for _ in 0..9 {
        let mut row = vec![];
        for _ in 0..9 {
            row.push(m.int(1, 9));
        }
        grid.push(row);
    }
    for r in 0..9 {
        m.alldiff(&grid[r]);
    }
    for c in 0..9 {
        let col: Vec<VarId> = (0..9).map(|r| grid[r][c]).collect();
        m.alldiff(&col);
    }
    for br in 0..3 {
        for bc in 0..3 {
            let mut b = vec![];
            for r in 0..3 {
                for c in 0..3 {
                    b.push(grid[br * 3 + r][bc * 3 + c]);
                }
            }
            m.alldiff(&b);
        }
    }
    for r in 0..9 {
        for c in 0..9 {
            if p[r][c] != 0 {
                m.props.equals(grid[r][c], Val::int(p[r][c]));
            }
        }
    }
    match m.solve() {
        Ok(sol) => {
            let mut g = [[0i32; 9]; 9];
            for r in 0..9 {
                for c in 0..9 {
                    if let Val::ValI(v) = sol[grid[r][c]] {
                        g[r][c] = v;
                    }
                }
            }
            fmt_grid(&g)
        }
        Err(SolverError::NoSolution { .. }) => "none".to_string(),
        Err(e) => {
            let s = format!("{:?}", e);
            let k: String = s.chars().take_while(|c| c.is_alphanumeric()).collect();
            format!("err:{}", k)
        }
    }
}

// Eq propagators in the Debug rendering of the solver: `Eq { x: VarId(n), y: ValI(d) }`-like fragments, in order.
fn eqs_from_debug(s: &SudokuSolver) -> String {
    let dbg = format!("{:?}", s);
    let mut out: Vec<String> = vec![];
    let mut rest: &str = &dbg;
    while let Some(p) = rest.find("Eq {") {
        let tail = &rest[p..];
        let end = tail.find('}').unwrap_or(tail.len());
        let frag = &tail[..end];
        let nums: Vec<i64> = frag
            .split(|c: char| !(c.is_ascii_digit() || c == '-'))
            .filter(|t| !t.is_empty() && *t != "-")
            .filter_map(|t| t.parse::<i64>().ok())
            .collect();
        if nums.len() >= 2 {
            let v = nums[0];
            out.push(format!("{},{},{}", v / 9, v % 9, nums[1]));
        } else {
            return "?".to_string();
        }
        rest = &tail[end..];
    }
    if out.is_empty() {
        if dbg.contains("Eq") { "?".to_string() } else { "-".to_string() }
    } else {
        out.join(" ")
    }
}

fn clue_count(p: &[[i32; 9]; 9]) -> usize {
    p.iter().flatten().filter(|&&v| v != 0).count()
}

fn grid_part(p: [[i32; 9]; 9]) -> (String, String) {
    let t0 = std::time::Instant::now();
    let res = solve_sudoku(p);
    let el = t0.elapsed().as_secs_f64();
    let verify = match &res {
        Some(g) => if SudokuSolver::verify_solution(g) { "1" } else { "0" },
        None => "-",
    };
    let gen = general(&p);
    let (c0, adv, c1, eqs) = {
        let mut s = SudokuSolver::new(p);
        let c0 = cand_masks(&s);
        let adv = s.apply_advanced_techniques();
        let c1 = cand_masks(&s);
        let eqs = eqs_from_debug(&s);
        (c0, if adv { "1" } else { "0" }.to_string(), c1, eqs)
    };
    // SudokuSolver API (what solve_sudoku wraps): same grid expected; node statistics for the record
    let (api, nodes) = if clue_count(&p) >= 28 {
        let r = SudokuSolver::new(p).solve();
        ((if r.solution == res { "same" } else { "diff" }).to_string(), r.nodes.to_string())
    } else {
        ("-".to_string(), "-".to_string())
    };
    let slow = if el > 30.0 { " SLOW" } else { "" };
    (
        format!("res={} ; gen={} ; c0={} ; adv={} ; c1={} ; eqs={}", fmt_res(&res), gen, c0, adv, c1, eqs),
        format!("verify={} api={} nodes={}{}", verify, api, nodes, slow),
    )
}

// `sudokun` sub-command: difficulty probe used by the generators (wall time of the specialised solver in ms;
// the node/propagation statistics of SudokuResult are per search path, not totals, so they do not measure effort)
pub fn run_nodes(line: &str) -> String {
    match SudokuSolver::parse_string(line.trim()) {
        Err(_) => "err".to_string(),
        Ok(p) => {
            let t0 = std::time::Instant::now();
            let r = SudokuSolver::new(p).solve();
            let ms = t0.elapsed().as_secs_f64() * 1000.0;
            format!("ms={:.1} depth={} sol={}", ms, r.nodes, if r.solution.is_some() { 1 } else { 0 })
        }
    }
}

// leading outcome token (for the evidence file's outcome classes): grid | none
fn outcome(m: &str) -> &'static str {
    if m.starts_with("res=none") { "none" } else { "grid" }
}

pub fn run_case(line: &str) -> String {
    let line = line.trim();
    if let Some(raw) = line.strip_prefix("g:") {
        let vals: Vec<i32> = raw.split(',').map(|t| t.trim().parse::<i32>().expect("int")).collect();
        if vals.len() != 81 {
            return "BADCASE".to_string();
        }
        let mut p = [[0i32; 9]; 9];
        for (i, v) in vals.iter().enumerate() {
            p[i / 9][i % 9] = *v;
        }
        let (m, x) = grid_part(p);
        return format!("{} ; parse=- ; {} ; str=- # {}", outcome(&m), m, x);
    }
    let text = line.strip_prefix("s:").unwrap_or(line);
    match SudokuSolver::parse_string(text) {
        Err(_) => {
            let s = solve_sudoku_string(text);
            format!("perr ; parse=err ; res=- ; str={} # -", fmt_res(&s))
        }
        Ok(p) => {
            let (m, x) = grid_part(p);
            let str_ = if clue_count(&p) >= 28 { fmt_res(&solve_sudoku_string(text)) } else { "-".to_string() };
            format!("{} ; parse=ok ; {} ; str={} # {}", outcome(&m), m, str_, x)
        }
    }
}
