// sub-commands `fi` and `ctxf` (float half of C12).  f64 values travel as 16 hex digits
// (bit pattern); NaN is printed as 7ff8000000000000.
//
// fi:    <ctor> ; op ; op ...
//   ctor ::= new A B | ws A B S | un A B S            (FloatInterval::new / with_step / with_step_unchecked)
//          | ar A B | cv A | i2f n | p2s n            (probes of the arithmetic layer; no ops)
//   op   ::= next X | prev X | contains X | empty | fixed | size | count | round X | floor X | ceil X
//          | inter A B S | inters A B S | assign X | below X | above X | mid | save | restore k
//   output: state "MIN MAX STEP", then per op " / MIN MAX STEP r=<result>"
// ctxf:  <var> ; op ; op ...
//   var  ::= f A B (Vars::new_var_with_bounds) | fs A B S (new_var_with_bounds_and_step) | i lo hi
//   op   ::= minf X | maxf X | mini n | maxi n        (Context::try_set_min / try_set_max)
//   output: state, then per op " / <op> <arg> ok <state> ret=<returned bound> ev=<#events>" or " / <op> <arg> fail" (stops)
use selen::optimization::ulp_utils::UlpUtils;
use selen::variables::domain::float_interval::{precision_to_step_size, FloatInterval, FloatIntervalState};
use selen::variables::views::Context;
use selen::variables::{Val, Var, VarId, Vars};

fn pf(s: &str) -> f64 {
    assert!(s.len() == 16, "bad f64 token");
    f64::from_bits(u64::from_str_radix(s, 16).expect("hex"))
}
fn hf(x: f64) -> String {
    if x.is_nan() {
        "7ff8000000000000".to_string()
    } else {
        format!("{:016x}", x.to_bits())
    }
}
fn st(i: &FloatInterval) -> String {
    format!("{} {} {}", hf(i.min), hf(i.max), hf(i.step))
}
fn b(x: bool) -> &'static str {
    if x { "1" } else { "0" }
}

pub fn run_fi(line: &str) -> String {
    let mut parts = line.split(';').map(|p| p.trim());
    let init: Vec<&str> = parts.next().unwrap().split_whitespace().collect();
    match init[0] {
        "ar" => {
            let (a, c) = (pf(init[1]), pf(init[2]));
            let v = [a + c, a - c, a * c, a / c, a.max(c), a.min(c), a.abs(), -a, a.floor(), a.ceil(), a.round()];
            let cm = [a < c, a <= c, a > c, a >= c, a == c, a != c, a.is_nan(), a.is_infinite(), a.is_finite()];
            return format!(
                "ar {} c={}",
                v.iter().map(|x| hf(*x)).collect::<Vec<_>>().join(" "),
                cm.iter().map(|x| b(*x)).collect::<Vec<_>>().join("")
            );
        }
        "cv" => {
            let a = pf(init[1]);
            return format!(
                "cv {} {} {} {:016x} {} {} {}",
                a as i32,
                a.ceil() as i32,
                a.floor() as i32,
                a as usize,
                hf(UlpUtils::ulp(a)),
                hf(UlpUtils::next_float(a)),
                hf(UlpUtils::prev_float(a))
            );
        }
        "i2f" => {
            let n: i32 = init[1].parse().unwrap();
            return format!("i2f {}", hf(n as f64));
        }
        "p2s" => {
            let n: i32 = init[1].parse().unwrap();
            return format!("p2s {}", hf(precision_to_step_size(n)));
        }
        _ => {}
    }
    let mut i = match init[0] {
        "new" => FloatInterval::new(pf(init[1]), pf(init[2])),
        "ws" => FloatInterval::with_step(pf(init[1]), pf(init[2]), pf(init[3])),
        "un" => FloatInterval::with_step_unchecked(pf(init[1]), pf(init[2]), pf(init[3])),
        _ => panic!("bad init"),
    };
    let mut snaps: Vec<FloatIntervalState> = Vec::new();
    let mut out = vec![st(&i)];
    for p in parts {
        if p.is_empty() {
            continue;
        }
        let t: Vec<&str> = p.split_whitespace().collect();
        let r: String = match t[0] {
            "next" => hf(i.next(pf(t[1]))),
            "prev" => hf(i.prev(pf(t[1]))),
            "contains" => b(i.contains(pf(t[1]))).to_string(),
            "empty" => b(i.is_empty()).to_string(),
            "fixed" => b(i.is_fixed()).to_string(),
            "size" => hf(i.size()),
            "count" => format!("{:016x}", i.step_count()),
            "round" => hf(i.round_to_step(pf(t[1]))),
            "floor" => hf(i.floor_to_step(pf(t[1]))),
            "ceil" => hf(i.ceil_to_step(pf(t[1]))),
            "inter" => {
                let o = FloatInterval::with_step_unchecked(pf(t[1]), pf(t[2]), pf(t[3]));
                let j = i.intersect(&o);
                format!("{},{},{}", hf(j.min), hf(j.max), hf(j.step))
            }
            "inters" => {
                let o = FloatInterval::with_step_unchecked(pf(t[1]), pf(t[2]), pf(t[3]));
                b(i.intersects(&o)).to_string()
            }
            "assign" => {
                i.assign(pf(t[1]));
                "-".to_string()
            }
            "below" => {
                i.remove_below(pf(t[1]));
                "-".to_string()
            }
            "above" => {
                i.remove_above(pf(t[1]));
                "-".to_string()
            }
            "mid" => hf(i.mid()),
            "save" => {
                snaps.push(i.save_state());
                "-".to_string()
            }
            "restore" => {
                let k: usize = t[1].parse().unwrap();
                if k < snaps.len() {
                    i.restore_state(&snaps[k]);
                }
                "-".to_string()
            }
            _ => panic!("bad op"),
        };
        out.push(format!("{} r={}", st(&i), r));
    }
    out.join(" / ")
}

fn var_state(vars: &Vars, v: VarId) -> String {
    match &vars[v] {
        Var::VarF(i) => st(i),
        Var::VarI(s) => format!("{} {}", s.min(), s.max()),
    }
}
fn val_str(v: Val) -> String {
    match v {
        Val::ValF(x) => hf(x),
        Val::ValI(n) => n.to_string(),
    }
}

pub fn run_ctxf(line: &str) -> String {
    let mut parts = line.split(';').map(|p| p.trim());
    let init: Vec<&str> = parts.next().unwrap().split_whitespace().collect();
    let mut vars = Vars::new();
    let v = match init[0] {
        "f" => vars.new_var_with_bounds(Val::ValF(pf(init[1])), Val::ValF(pf(init[2]))),
        "fs" => vars.new_var_with_bounds_and_step(Val::ValF(pf(init[1])), Val::ValF(pf(init[2])), pf(init[3])),
        "i" => vars.new_var_with_bounds(Val::ValI(init[1].parse().unwrap()), Val::ValI(init[2].parse().unwrap())),
        _ => panic!("bad init"),
    };
    let mut out = vec![var_state(&vars, v)];
    for p in parts {
        if p.is_empty() {
            continue;
        }
        let t: Vec<&str> = p.split_whitespace().collect();
        let mut events: Vec<VarId> = Vec::new();
        let r = {
            let mut ctx = Context::new_verif(&mut vars, &mut events);
            match t[0] {
                "minf" => ctx.try_set_min(v, Val::ValF(pf(t[1]))),
                "maxf" => ctx.try_set_max(v, Val::ValF(pf(t[1]))),
                "mini" => ctx.try_set_min(v, Val::ValI(t[1].parse().unwrap())),
                "maxi" => ctx.try_set_max(v, Val::ValI(t[1].parse().unwrap())),
                _ => panic!("bad op"),
            }
        };
        match r {
            None => {
                out.push(format!("{} {} fail", t[0], t[1]));
                break;
            }
            Some(ret) => {
                let ev = if events.iter().all(|e| *e == v) { events.len().to_string() } else { "OTHER".to_string() };
                out.push(format!("{} {} ok {} ret={} ev={}", t[0], t[1], var_state(&vars, v), val_str(ret), ev));
            }
        }
    }
    out.join(" / ")
}
