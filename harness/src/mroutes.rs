// Model-level sub-commands for the public posting routes other than fluent trees
// (constraints/api/{arithmetic,array,boolean,global,linear,reified}.rs, constraints/functions.rs as
// exported by selen::prelude), mixed with the fluent / lin_* routes of mlevel.rs:
//   rlower  <decls> ; <post> ; ...               -> `ok verr=<0|1> <final domains> ; <pspec> ; ...` | `err <Variant>` | `callerr <Variant>`
//   rsolve  <decls> ; <post> ; ... ; <entry>      -> solutions projected on every handle the program holds
//                                                   (declared variables and returned result variables, in creation order)
// decls ::= decl|decl|...      decl ::= lo..hi (m.int) | b (m.bool) | a,b,c (m.intset)
//                                      | ints(n,lo,hi) | ints2d(r,c,lo,hi) | ints3d(d,r,c,lo,hi) | bools(n) | bools2d(r,c) | bools3d(d,r,c)
//                                        (array factories: every handle is handed to the program, row-major)
// post  ::= new <cons> | lin (eq|le|ne) cs xs k | blin (eq|le|ne) cs xs k | api (add|sub|mul) xI xJ   (as mlevel.rs)
//         | call <route> <args>
// route ::= add A B | sub A B | mul A B | mod A B | abs A          A ::= xN | c:K     (each returns a handle)
//         | min XS | max XS | sum XS                               XS ::= xI,xJ,.. | -
//         | alldiff XS | alleq XS | element XS xI xV | aelement xI XS xV | table XS a:b/c:d | count XS A xC
//         | atleast XS K N | atmost XS K N | exactly XS K N | gcc XS K,K,.. XS | between xL xM xU
//         | band XS | bor XS | bnot xA | bxor xA xB                (return a handle)
//         | implies xA xB | clause XS XS
//         | eqr|ner|ltr|ler|gtr|ger xA xB xR
//         | lineqr|linler|linner|blineqr|blinler|blinner cs XS k xR
//         | fand xA xB | for xA xB | fnot xA | fxor xA xB | felement XS xI | bool2int xB   (free functions, return a handle)
//         | fimplies xA xB | cumulative XS d,d,.. e,e,.. CAP
//         | amin XS | amax XS (array_int_minimum / array_int_maximum) | sumiter A,A,.. (sum_iter; all handles or all constants)
//         | element2d MAT xR xC xV | element3d CUBE xD xR xC xV | table2d MAT a:b/c:d | table3d CUBE a:b/c:d
//           MAT ::= - (no rows) | ROW/ROW/..    ROW ::= e (empty) | xI,xJ,..    CUBE ::= - (no layers) | LAYER//LAYER//..   LAYER ::= E (no rows) | MAT
// entry ::= enum | first | min xN | max xN
// Variables in posts are USER ORDINALS: the i-th handle the program obtained.
use selen::prelude::*;
use selen::variables::{Val, Var, VarId, Vars};
use selen::constraints::props::Propagators;
use crate::mlevel::{fmt_dom, parse_cons_opt};

fn vix(tok: &str) -> usize { tok.trim_start_matches('x').parse().expect("var") }
fn vlist(tok: &str, vars: &[VarId]) -> Vec<VarId> {
    if tok == "-" { return vec![]; }
    tok.split(',').map(|t| vars[vix(t)]).collect()
}
fn parse_tuples(tok: &str) -> Vec<Vec<Val>> {
    if tok == "-" { return vec![]; }
    tok.split('/')
        .map(|tp| if tp == "e" { vec![] } else { tp.split(':').map(|v| Val::ValI(v.parse().expect("tuple value"))).collect() })
        .collect()
}
fn parse_mat(tok: &str, vars: &[VarId]) -> Vec<Vec<VarId>> {
    if tok == "-" || tok == "E" { return vec![]; }
    tok.split('/').map(|r| if r == "e" { vec![] } else { vlist(r, vars) }).collect()
}
fn parse_cube(tok: &str, vars: &[VarId]) -> Vec<Vec<Vec<VarId>>> {
    if tok == "-" { return vec![]; }
    tok.split("//").map(|l| parse_mat(l, vars)).collect()
}
/// array-factory declarations: the handles in row-major order
fn factory_decl(m: &mut Model, d: &str) -> Option<Vec<VarId>> {
    let open = d.find('(')?;
    if !d.ends_with(')') { return None; }
    let a: Vec<i64> = d[open + 1..d.len() - 1].split(',').map(|x| x.trim().parse().expect("factory argument")).collect();
    let u = |i: usize| a[i] as usize;
    let i = |i: usize| a[i] as i32;
    Some(match &d[..open] {
        "ints" => m.ints(u(0), i(1), i(2)),
        "bools" => m.bools(u(0)),
        "ints2d" => m.ints_2d(u(0), u(1), i(2), i(3)).into_iter().flatten().collect(),
        "bools2d" => m.bools_2d(u(0), u(1)).into_iter().flatten().collect(),
        "ints3d" => m.ints_3d(u(0), u(1), u(2), i(3), i(4)).into_iter().flatten().flatten().collect(),
        "bools3d" => m.bools_3d(u(0), u(1), u(2)).into_iter().flatten().flatten().collect(),
        k => panic!("bad factory {}", k),
    })
}
enum Opnd { V(VarId), C(i32) }
fn opnd(tok: &str, vars: &[VarId]) -> Opnd {
    if let Some(r) = tok.strip_prefix("c:") { Opnd::C(r.parse().expect("const")) } else { Opnd::V(vars[vix(tok)]) }
}
macro_rules! bin_view {
    ($m:expr, $f:ident, $a:expr, $b:expr) => {
        match ($a, $b) {
            (Opnd::V(x), Opnd::V(y)) => $m.$f(x, y),
            (Opnd::V(x), Opnd::C(c)) => $m.$f(x, Val::ValI(c)),
            (Opnd::C(c), Opnd::V(y)) => $m.$f(Val::ValI(c), y),
            (Opnd::C(c), Opnd::C(d)) => $m.$f(Val::ValI(c), Val::ValI(d)),
        }
    };
}

pub struct Built { pub m: Model, pub user: Vec<VarId>, pub entry: Vec<String>, pub callerr: Option<String> }

fn err_name(e: &selen::core::SolverError) -> String {
    let s = format!("{:?}", e);
    s.split(|c: char| !c.is_alphanumeric()).next().unwrap_or("?").to_string()
}

pub fn build(line: &str) -> Built {
    selen::verif_hooks::set_agenda_seed(None);
    selen::verif_hooks::set_root_lp_disabled(true);
    selen::verif_hooks::set_fast_path_disabled(true);
    let mut parts = line.split(';').map(|p| p.trim());
    let mut m = Model::default();
    let mut vars: Vec<VarId> = vec![];
    for d in parts.next().unwrap().split('|').map(|d| d.trim()).filter(|d| !d.is_empty()) {
        if let Some(hs) = factory_decl(&mut m, d) { vars.extend(hs); continue; }
        let v = if d == "b" { m.bool() }
        else if let Some(p) = d.find("..") { m.int(d[..p].parse().unwrap(), d[p + 2..].parse().unwrap()) }
        else { m.intset(crate::parse_list(d)) };
        vars.push(v);
    }
    let mut entry = vec![];
    let mut callerr = None;
    for p in parts {
        if p.is_empty() || callerr.is_some() { continue; }
        let t: Vec<&str> = p.split_whitespace().collect();
        match t[0] {
            "new" => { if let Some(c) = parse_cons_opt(t[1], &vars) { m.new(c); } }
            "lin" | "blin" => {
                let cs = crate::parse_list(t[2]);
                let xs = vlist(t[3], &vars);
                let k: i32 = t[4].parse().unwrap();
                match (t[0], t[1]) {
                    ("lin", "eq") => m.lin_eq(&cs, &xs, k), ("lin", "le") => m.lin_le(&cs, &xs, k), ("lin", "ne") => m.lin_ne(&cs, &xs, k),
                    ("blin", "eq") => m.bool_lin_eq(&cs, &xs, k), ("blin", "le") => m.bool_lin_le(&cs, &xs, k), ("blin", "ne") => m.bool_lin_ne(&cs, &xs, k),
                    _ => panic!("bad lin op"),
                }
            }
            "api" => {
                let (a, b) = (vars[vix(t[2])], vars[vix(t[3])]);
                let r = match t[1] { "add" => m.add(a, b), "sub" => m.sub(a, b), "mul" => m.mul(a, b), _ => panic!("bad api fn") };
                vars.push(r);
            }
            "call" => {
                if let Err(e) = call(&mut m, &mut vars, &t[1..]) { callerr = Some(e); }
            }
            "enum" | "first" | "min" | "max" => entry = t.iter().map(|s| s.to_string()).collect(),
            k => panic!("bad post {}", k),
        }
    }
    Built { m, user: vars, entry, callerr }
}

fn call(m: &mut Model, vars: &mut Vec<VarId>, t: &[&str]) -> Result<(), String> {
    let v = |i: usize| vars[vix(t[i])];
    let ints = |i: usize| crate::parse_list(t[i]);
    let int = |i: usize| -> i32 { t[i].parse().expect("int") };
    let mut ret: Option<VarId> = None;
    match t[0] {
        "add" => ret = Some(bin_view!(m, add, opnd(t[1], vars), opnd(t[2], vars))),
        "sub" => ret = Some(bin_view!(m, sub, opnd(t[1], vars), opnd(t[2], vars))),
        "mul" => ret = Some(bin_view!(m, mul, opnd(t[1], vars), opnd(t[2], vars))),
        "mod" => ret = Some(bin_view!(m, modulo, opnd(t[1], vars), opnd(t[2], vars))),
        "abs" => ret = Some(match opnd(t[1], vars) { Opnd::V(x) => m.abs(x), Opnd::C(c) => m.abs(Val::ValI(c)) }),
        "min" => match m.min(&vlist(t[1], vars)) { Ok(r) => ret = Some(r), Err(e) => return Err(err_name(&e)) },
        "max" => match m.max(&vlist(t[1], vars)) { Ok(r) => ret = Some(r), Err(e) => return Err(err_name(&e)) },
        "sum" => ret = Some(m.sum(&vlist(t[1], vars))),
        "alldiff" => { m.alldiff(&vlist(t[1], vars)); }
        "alleq" => { m.alleq(&vlist(t[1], vars)); }
        "element" => { m.element(&vlist(t[1], vars), v(2), v(3)); }
        "aelement" => { m.array_int_element(v(1), &vlist(t[2], vars), v(3)); }
        "table" => { m.table(&vlist(t[1], vars), parse_tuples(t[2])); }
        "count" => { match opnd(t[2], vars) { Opnd::V(x) => m.count(&vlist(t[1], vars), x, v(3)), Opnd::C(c) => m.count(&vlist(t[1], vars), Val::ValI(c), v(3)) }; }
        "atleast" => { m.at_least(&vlist(t[1], vars), int(2), int(3)); }
        "atmost" => { m.at_most(&vlist(t[1], vars), int(2), int(3)); }
        "exactly" => { m.exactly(&vlist(t[1], vars), int(2), int(3)); }
        "gcc" => { m.gcc(&vlist(t[1], vars), &ints(2), &vlist(t[3], vars)); }
        "between" => { m.between(v(1), v(2), v(3)); }
        "band" => ret = Some(m.bool_and(&vlist(t[1], vars))),
        "bor" => ret = Some(m.bool_or(&vlist(t[1], vars))),
        "bnot" => ret = Some(m.bool_not(v(1))),
        "bxor" => ret = Some(m.bool_xor(v(1), v(2))),
        "implies" => m.implies(v(1), v(2)),
        "clause" => m.bool_clause(&vlist(t[1], vars), &vlist(t[2], vars)),
        "eqr" => m.eq_reif(v(1), v(2), v(3)),
        "ner" => m.ne_reif(v(1), v(2), v(3)),
        "ltr" => m.lt_reif(v(1), v(2), v(3)),
        "ler" => m.le_reif(v(1), v(2), v(3)),
        "gtr" => m.gt_reif(v(1), v(2), v(3)),
        "ger" => m.ge_reif(v(1), v(2), v(3)),
        "lineqr" => m.lin_eq_reif(&ints(1), &vlist(t[2], vars), int(3), v(4)),
        "linler" => m.lin_le_reif(&ints(1), &vlist(t[2], vars), int(3), v(4)),
        "linner" => m.lin_ne_reif(&ints(1), &vlist(t[2], vars), int(3), v(4)),
        "blineqr" => m.bool_lin_eq_reif(&ints(1), &vlist(t[2], vars), int(3), v(4)),
        "blinler" => m.bool_lin_le_reif(&ints(1), &vlist(t[2], vars), int(3), v(4)),
        "blinner" => m.bool_lin_ne_reif(&ints(1), &vlist(t[2], vars), int(3), v(4)),
        // free functions of constraints::functions, as exported by the prelude
        "fand" => ret = Some(and(m, v(1), v(2))),
        "for" => ret = Some(or(m, v(1), v(2))),
        "fnot" => ret = Some(not(m, v(1))),
        "fxor" => ret = Some(xor(m, v(1), v(2))),
        "fimplies" => implies(m, v(1), v(2)),
        "felement" => ret = Some(element(m, &vlist(t[1], vars), v(2))),
        "bool2int" => ret = Some(bool2int(m, v(1))),
        "cumulative" => cumulative(m, &vlist(t[1], vars), &ints(2), &ints(3), int(4)),
        "amin" => match m.array_int_minimum(&vlist(t[1], vars)) { Ok(r) => ret = Some(r), Err(e) => return Err(err_name(&e)) },
        "amax" => match m.array_int_maximum(&vlist(t[1], vars)) { Ok(r) => ret = Some(r), Err(e) => return Err(err_name(&e)) },
        "sumiter" => {
            let ops: Vec<Opnd> = if t[1] == "-" { vec![] } else { t[1].split(',').map(|x| opnd(x, vars)).collect() };
            if ops.iter().all(|o| matches!(o, Opnd::V(_))) {
                ret = Some(m.sum_iter(ops.iter().map(|o| match o { Opnd::V(x) => *x, Opnd::C(_) => unreachable!() })));
            } else if ops.iter().all(|o| matches!(o, Opnd::C(_))) {
                ret = Some(m.sum_iter(ops.iter().map(|o| match o { Opnd::C(c) => Val::ValI(*c), Opnd::V(_) => unreachable!() })));
            } else { panic!("sumiter: one item type per call (all handles or all constants)"); }
        }
        "element2d" => { m.element_2d(&parse_mat(t[1], vars), v(2), v(3), v(4)); }
        "element3d" => { m.element_3d(&parse_cube(t[1], vars), v(2), v(3), v(4), v(5)); }
        "table2d" => { m.table_2d(&parse_mat(t[1], vars), parse_tuples(t[2])); }
        "table3d" => { m.table_3d(&parse_cube(t[1], vars), parse_tuples(t[2])); }
        k => panic!("bad route {}", k),
    }
    if let Some(r) = ret { vars.push(r); }
    Ok(())
}

fn fmt_doms(vars: &Vars) -> String {
    let mut out = vec![];
    for (_, v) in vars.iter_with_indices() {
        match v {
            Var::VarI(ss) => { let mut e: Vec<i32> = ss.iter().collect(); e.sort(); out.push(fmt_dom(&e)); }
            Var::VarF(fi) => out.push(format!("F[{:016x},{:016x}]", fi.min.to_bits(), fi.max.to_bits())),
        }
    }
    out.join("|")
}

// ---- normalisation of the Debug text of the propagator kinds these routes add ----
struct P<'a> { s: &'a [u8], i: usize }
impl<'a> P<'a> {
    fn ws(&mut self) { while self.i < self.s.len() && (self.s[self.i] == b' ' || self.s[self.i] == b',') { self.i += 1; } }
    fn eat(&mut self, t: &str) -> bool {
        self.ws();
        if self.s[self.i..].starts_with(t.as_bytes()) { self.i += t.len(); true } else { false }
    }
    fn ident(&mut self) -> String {
        self.ws();
        let st = self.i;
        while self.i < self.s.len() && (self.s[self.i].is_ascii_alphanumeric() || self.s[self.i] == b'_') { self.i += 1; }
        String::from_utf8_lossy(&self.s[st..self.i]).to_string()
    }
    fn int(&mut self) -> Option<i64> {
        self.ws();
        let st = self.i;
        if self.i < self.s.len() && self.s[self.i] == b'-' { self.i += 1; }
        while self.i < self.s.len() && self.s[self.i].is_ascii_digit() { self.i += 1; }
        std::str::from_utf8(&self.s[st..self.i]).ok()?.parse().ok()
    }
    fn field(&mut self, name: &str) -> Option<()> { if self.eat(name) && self.eat(":") { Some(()) } else { None } }
    fn vali(&mut self) -> Option<i64> { if !self.eat("ValI(") { return None; } let v = self.int()?; if self.eat(")") { Some(v) } else { None } }
    fn var(&mut self) -> Option<String> { if !self.eat("VarId(") { return None; } let v = self.int()?; if self.eat(")") { Some(format!("x{}", v)) } else { None } }
    fn view(&mut self) -> Option<String> {
        let save = self.i;
        let id = self.ident();
        if !self.eat("(") { self.i = save; return None; }
        let r = match id.as_str() {
            "VarId" => format!("x{}", self.int()?),
            "ValI" => format!("c:{}", self.int()?),
            "Next" => format!("next({})", self.view()?),
            "Prev" => format!("prev({})", self.view()?),
            "Opposite" => format!("opp({})", self.view()?),
            _ => return None,
        };
        if self.eat(")") { Some(r) } else { None }
    }
    fn int_list(&mut self) -> Option<Vec<i64>> {
        if !self.eat("[") { return None; }
        let mut v = vec![];
        loop { if self.eat("]") { return Some(v); } v.push(self.int()?); }
    }
    fn view_list(&mut self) -> Option<Vec<String>> {
        if !self.eat("[") { return None; }
        let mut v = vec![];
        loop { if self.eat("]") { return Some(v); } v.push(self.view()?); }
    }
    fn tuples(&mut self) -> Option<Vec<Vec<i64>>> {
        if !self.eat("[") { return None; }
        let mut v = vec![];
        loop {
            if self.eat("]") { return Some(v); }
            if !self.eat("[") { return None; }
            let mut row = vec![];
            loop { if self.eat("]") { break; } row.push(self.vali()?); }
            v.push(row);
        }
    }
}
fn dash(v: Vec<String>) -> String { if v.is_empty() { "-".to_string() } else { v.join(",") } }
fn dash_i(v: &[i64]) -> String { dash(v.iter().map(|c| c.to_string()).collect()) }

fn try_normalise(s: &str) -> Option<String> {
    let mut p = P { s: s.as_bytes(), i: 0 };
    let name = p.ident();
    if !p.eat("{") { return None; }
    let out = match name.as_str() {
        "Sum" => { p.field("xs")?; let xs = p.view_list()?; p.field("s")?; let r = p.var()?; format!("sum {} {}", dash(xs), r) }
        "Abs" => { p.field("x")?; let x = p.view()?; p.field("s")?; let r = p.var()?; format!("abs {} {}", x, r) }
        "Min" | "Max" => {
            p.field("vars")?; let xs = p.view_list()?; p.field("result")?; let r = p.var()?;
            format!("{} {} {}", if name == "Min" { "minof" } else { "maxof" }, dash(xs), r)
        }
        "AllDiff" | "AllEqual" => { p.field("vars")?; let xs = p.view_list()?; format!("{} {}", if name == "AllDiff" { "alldiff" } else { "alleq" }, dash(xs)) }
        "Element" => { p.field("array")?; let a = p.view_list()?; p.field("index")?; let i = p.var()?; p.field("value")?; let v = p.var()?; format!("element {} {} {}", dash(a), i, v) }
        "Table" => {
            p.field("vars")?; let xs = p.view_list()?; p.field("tuples")?; let ts = p.tuples()?;
            let tt = if ts.is_empty() { "-".to_string() } else {
                ts.iter().map(|r| if r.is_empty() { "e".to_string() } else { r.iter().map(|x| x.to_string()).collect::<Vec<_>>().join(":") }).collect::<Vec<_>>().join("/") };
            format!("table {} {}", dash(xs), tt)
        }
        "Count" => { p.field("vars")?; let xs = p.view_list()?; p.field("target")?; let t = p.view()?; p.field("count_var")?; let c = p.var()?; format!("count {} {} {}", dash(xs), t, c) }
        "CardinalityConstraint" => {
            p.field("variables")?; let xs = p.view_list()?; p.field("target_value")?; let k = p.vali()?; p.field("cardinality_type")?;
            let kind = p.ident(); if !p.eat("(") { return None; } let n = p.int()?; if !p.eat(")") { return None; }
            format!("{} {} {} {}", match kind.as_str() { "AtLeast" => "atleast", "AtMost" => "atmost", "Exactly" => "exactly", _ => return None }, dash(xs), k, n)
        }
        "BetweenConstraint" => { p.field("lower")?; let l = p.var()?; p.field("middle")?; let m = p.var()?; p.field("upper")?; let u = p.var()?; format!("between {} {} {}", l, m, u) }
        "BoolAnd" | "BoolOr" => { p.field("operands")?; let xs = p.view_list()?; p.field("result")?; let r = p.var()?; format!("{} {} {}", if name == "BoolAnd" { "band" } else { "bor" }, dash(xs), r) }
        "BoolNot" => { p.field("operand")?; let o = p.var()?; p.field("result")?; let r = p.var()?; format!("bnot {} {}", o, r) }
        "BoolXor" => { p.field("x")?; let x = p.var()?; p.field("y")?; let y = p.var()?; p.field("result")?; let r = p.var()?; format!("bxor {} {} {}", x, y, r) }
        "IntEqReif" | "IntNeReif" | "IntLtReif" | "IntLeReif" | "IntGtReif" | "IntGeReif" => {
            p.field("x")?; let x = p.var()?; p.field("y")?; let y = p.var()?; p.field("b")?; let b = p.var()?;
            format!("{} {} {} {}", match name.as_str() { "IntEqReif" => "eqr", "IntNeReif" => "ner", "IntLtReif" => "ltr", "IntLeReif" => "ler", "IntGtReif" => "gtr", _ => "ger" }, x, y, b)
        }
        "IntLinEqReif" | "IntLinLeReif" | "IntLinNeReif" => {
            p.field("coefficients")?; let cs = p.int_list()?; p.field("variables")?; let xs = p.view_list()?; p.field("constant")?; let k = p.int()?;
            p.field("reif_var")?; let b = p.var()?;
            format!("{} {} {} {} {}", match name.as_str() { "IntLinEqReif" => "lineqr", "IntLinLeReif" => "linler", _ => "linner" }, dash_i(&cs), dash(xs), k, b)
        }
        _ => return None,
    };
    if p.eat("}") { p.ws(); if p.i == p.s.len() { return Some(out); } }
    None
}
pub fn normalise(s: &str) -> String { try_normalise(s).unwrap_or_else(|| crate::mlevel::normalise(s)) }

fn dump_props(props: &Propagators) -> Vec<String> {
    props.get_prop_ids_iter().map(|id| normalise(&format!("{:?}", props.get_state(id)))).collect()
}

pub fn run_rlower(line: &str) -> String {
    let b = build(line);
    if let Some(e) = b.callerr { return format!("callerr {}", e); }
    let verr = if b.m.constraint_validation_errors.is_empty() { 0 } else { 1 };
    match b.m.verif_lower() {
        Err(e) => format!("err {}", err_name(&e)),
        Ok((vars, props, _lp)) => {
            let ps = dump_props(&props);
            format!("ok verr={} {} ; {}", verr, fmt_doms(&vars), if ps.is_empty() { "-".to_string() } else { ps.join(" ; ") })
        }
    }
}

fn proj(sol: &selen::core::solution::Solution, ids: &[VarId]) -> Vec<i32> {
    ids.iter().map(|&v| match sol[v] { Val::ValI(i) => i, Val::ValF(_) => i32::MIN }).collect()
}
fn fmt_tuple(t: &[i32]) -> String { t.iter().map(|x| x.to_string()).collect::<Vec<_>>().join(",") }
fn fmt_set(mut sols: Vec<Vec<i32>>) -> String {
    let n = sols.len();
    sols.sort(); sols.dedup();
    let dup = if sols.len() != n { " dup" } else { "" };
    format!("sols {}{}", if sols.is_empty() { "-".to_string() } else { sols.iter().map(|t| fmt_tuple(t)).collect::<Vec<_>>().join(" ") }, dup)
}

pub fn run_rsolve(line: &str) -> String {
    let b = build(line);
    if let Some(e) = b.callerr { return format!("callerr {}", e); }
    let e0 = b.entry.first().map(|s| s.as_str()).unwrap_or("enum").to_string();
    match e0.as_str() {
        "enum" => { let user = b.user.clone(); fmt_set(b.m.enumerate().map(|s| proj(&s, &user)).collect()) }
        "first" => match b.m.solve() {
            Ok(s) => format!("one {}", fmt_tuple(&proj(&s, &b.user))),
            Err(e) => format!("err {}", err_name(&e)),
        },
        "min" | "max" => {
            let obj = b.user[vix(&b.entry[1])];
            let r = if e0 == "min" { b.m.minimize(obj) } else { b.m.maximize(obj) };
            match r {
                Ok(s) => format!("one {}", fmt_tuple(&proj(&s, &b.user))),
                Err(e) => format!("err {}", err_name(&e)),
            }
        }
        k => panic!("bad entry {}", k),
    }
}
