// Correspondence harness: executes case lines against the real selen crate (built from /repo's
// working tree) and prints one canonical result line per case.  Every call into selen runs under
// catch_unwind; a panic prints `PANIC <message>`.
use std::io::{self, BufRead, Write};
use std::panic::{catch_unwind, AssertUnwindSafe};

mod sparseset;
mod plevel;
mod plevel_ext;
mod plevel_logic;
mod plevel_global;
mod lp;
mod fsolve;
mod api;
mod mlevel;
mod mroutes;
mod fi;
mod limits;
mod gac;
mod sudoku;

pub fn parse_list(tok: &str) -> Vec<i32> {
    if tok == "-" || tok.is_empty() {
        return vec![];
    }
    tok.split(',').map(|t| t.parse::<i32>().expect("int")).collect()
}

pub fn fmt_list(v: &[i32]) -> String {
    if v.is_empty() {
        "-".to_string()
    } else {
        v.iter().map(|x| x.to_string()).collect::<Vec<_>>().join(",")
    }
}

fn main() {
    let args: Vec<String> = std::env::args().collect();
    let sub = args.get(1).map(|s| s.as_str()).unwrap_or("");
    std::panic::set_hook(Box::new(|_| {}));
    let f: fn(&str) -> String = match sub {
        "sparseset" => sparseset::run_case,
        "prop" => plevel::run_prop,
        "deps" => plevel::run_deps,
        "prune1" => plevel_global::run_prune1,
        "solve" => plevel::run_solve,
        "ctx" => plevel::run_ctx,
        "view" => plevel::run_view,
        "lp" => lp::run_case,
        "propf" => fsolve::run_propf,
        "searchf" => fsolve::run_searchf,
        "solvef" => fsolve::run_solvef,
        "lowerf" => fsolve::run_lowerf,
        "api" => api::run_case,
        "lower" => mlevel::run_lower,
        "msolve" => mlevel::run_msolve,
        "mspell" => mlevel::run_mspell,
        "rlower" => mroutes::run_rlower,
        "rsolve" => mroutes::run_rsolve,
        "fi" => fi::run_fi,
        "ctxf" => fi::run_ctxf,
        "limits" => limits::run_case,
        "gac" => gac::run_case,
        "sudoku" => sudoku::run_case,
        "sudokun" => sudoku::run_nodes,
        _ => {
            eprintln!("unknown sub-command {}", sub);
            std::process::exit(2);
        }
    };
    let stdin = io::stdin();
    let stdout = io::stdout();
    let mut out = io::BufWriter::new(stdout.lock());
    for line in stdin.lock().lines() {
        let line = line.expect("stdin");
        let line = line.trim();
        if line.is_empty() {
            continue;
        }
        let res = catch_unwind(AssertUnwindSafe(|| f(line)));
        match res {
            Ok(s) => writeln!(out, "{}", s).unwrap(),
            Err(e) => {
                let msg = if let Some(s) = e.downcast_ref::<&str>() {
                    s.to_string()
                } else if let Some(s) = e.downcast_ref::<String>() {
                    s.clone()
                } else {
                    "?".to_string()
                };
                let msg: String = msg.chars().filter(|c| *c != '\n').take(120).collect();
                writeln!(out, "PANIC {}", msg).unwrap()
            }
        }
    }
}
