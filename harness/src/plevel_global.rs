// Group `Global`: count.rs, cardinality.rs, element.rs, table.rs through the Propagators constructors.
//   count   x1,x2,.. <view> xC          count_constraint(vars, target view, count var)
//   atleast x1,..    K N                at_least_constraint(vars, target value K, count N)
//   atmost  x1,..    K N                at_most_constraint
//   exactly x1,..    K N                exactly_constraint
//   element x1,x2,.. xI xV              element(array, index, value)    (0-based index)
//   table   x1,x2    a:b/c:d/..         table_constraint(vars, tuples)  (`-` = no tuples, `e` = the empty tuple)
use crate::plevel::{parse_view, var_ix, var_list, with_view, ViewK};
use selen::constraints::props::Propagators;
use selen::variables::views::View;
use selen::variables::{Val, VarId};

struct CountK<'a> { props: &'a mut Propagators, xs: Vec<VarId>, cv: VarId }
impl<'a> ViewK for CountK<'a> {
    type Out = ();
    fn call<V: View>(self, t: V) { self.props.count_constraint(self.xs, t, self.cv); }
}

fn parse_tuples(tok: &str) -> Vec<Vec<Val>> {
    if tok == "-" { return vec![]; }
    tok.split('/')
        .map(|tp| if tp == "e" { vec![] } else { tp.split(':').map(|v| Val::ValI(v.parse().expect("tuple value"))).collect() })
        .collect()
}

pub fn post(kind: &str, t: &[&str], vars: &[VarId], props: &mut Propagators) -> bool {
    match kind {
        "count" => {
            let tv = parse_view(t[2]);
            with_view(vars, &tv, CountK { props, xs: var_list(t[1], vars), cv: vars[var_ix(t[3])] });
        }
        "atleast" => { props.at_least_constraint(var_list(t[1], vars), t[2].parse().unwrap(), t[3].parse().unwrap()); }
        "atmost" => { props.at_most_constraint(var_list(t[1], vars), t[2].parse().unwrap(), t[3].parse().unwrap()); }
        "exactly" => { props.exactly_constraint(var_list(t[1], vars), t[2].parse().unwrap(), t[3].parse().unwrap()); }
        "element" => { props.element(var_list(t[1], vars), vars[var_ix(t[2])], vars[var_ix(t[3])]); }
        "table" => { props.table_constraint(var_list(t[1], vars), parse_tuples(t[2])); }
        _ => return false,
    }
    true
}

/// Sub-command `prune1` (generic, any pspec kinds):  <doms> ; <pspec> ; <pspec> ...
/// Calls `prune` ONCE on each posted propagator, in posting order, on the same Context (hook H1),
/// without the propagation loop: `fail` or `ok <doms> ev=<event list in emission order>`.
/// Unlike `prop` (run to fixpoint) this exposes what a single call does and which events it emits.
pub fn run_prune1(line: &str) -> String {
    use selen::constraints::props::Prune;
    use selen::variables::views::Context;
    use selen::variables::Vars;
    let mut parts = line.split(';').map(|p| p.trim());
    let mut vars = Vars::new();
    let mut props = Propagators::default();
    let ids = crate::plevel::parse_doms(parts.next().unwrap(), &mut vars, &mut props);
    for p in parts {
        if p.is_empty() { continue; }
        match p.split_whitespace().next().unwrap() {
            "enum" | "min" | "max" | "first" | "sched" | "lp" => {} // entry / scheduling tokens of `prop`/`solve` cases: not used here
            _ => crate::plevel::post(p, &ids, &mut props),
        }
    }
    let mut events: Vec<VarId> = vec![];
    let pids: Vec<_> = props.get_prop_ids_iter().collect();
    for p in pids {
        let prop = props.get_state(p);
        let mut ctx = Context::new_verif(&mut vars, &mut events);
        let r: Option<()> = prop.as_ref().prune(&mut ctx);
        if r.is_none() { return "fail".to_string(); }
    }
    let ev: Vec<i32> = events.iter().map(|v| ids.iter().position(|w| w == v).unwrap() as i32).collect();
    format!("ok {} ev={}", crate::plevel::fmt_doms(&vars), crate::fmt_list(&ev))
}
