// sub-command `api` (C17): replays a CALL SEQUENCE against selen's PUBLIC API, every call under its
// own catch_unwind, and prints one outcome class per call:
//     ok | err <Variant> | unsat | timeout | PANIC <call> : <message> @ <file>:<line>
// Case line:   stmt ; stmt ; ...            (whitespace-separated tokens)
//   cfg [mem N] [timeout N]                  Model::with_config (first statement; default timeout 2000 ms, memory default)
//   int lo hi | bool | intset a,b,c|- | ints n lo hi            -> new user variable(s) x0, x1, ...
//   add|sub|mul|mod a b | abs a              a, b ::= xN | c:K (impl View for VarId / Val)   -> result variable
//   min xs | max xs | sum xs                 xs ::= xI,xJ,... | -        -> result variable (min/max: Result)
//   lin eq|le|ne cs xs k | linr eq|le|ne cs xs k xB | blin .. | blinr ..  (lin_*, lin_*_reif, bool_lin_*)
//   reif eq|ne|lt|le|gt|ge xI xJ xB
//   band xs | bor xs | bnot x | bxor x y     -> result variable ;  implies a b ; clause pos neg
//   alldiff xs | alleq xs | element xs xI xV | elementf xs xI (-> result) | aelement xI xs xV
//   table xs t,t|t,t|..  | count xs a xC | atleast|atmost|exactly xs v n | between a b c | gcc xs vals cnts
//   ints2d r c lo hi | ints3d d r c lo hi | bools n | bools2d r c | bools3d d r c   (array factories: handles row-major)
//   amin xs | amax xs (array_int_minimum / maximum, Result) | sumiter a,a,.. (sum_iter: all handles or all constants)
//   element2d MAT xR xC xV | element3d CUBE xD xR xC xV | table2d MAT t,t|t,t | table3d CUBE t,t|t,t
//     MAT ::= - | ROW/ROW/..   ROW ::= e | xI,xJ,..   CUBE ::= - | LAYER//LAYER//..   LAYER ::= E | MAT
//   new <cons> (fluent, grammar of mlevel.rs; `new andall()` etc. post nothing) | fn eq|ne|lt|le|gt|ge <expr> <expr> (constraints::functions)
//   entries (each one re-runs the building calls on a fresh Model, since they consume it):
//   solve | enum | enumstats | minimize xN | maximize xN | miniter xN | maxiter xN | validate
use selen::prelude::*;
use std::panic::{catch_unwind, AssertUnwindSafe};
use std::sync::{Mutex, Once};

static LOC: Mutex<String> = Mutex::new(String::new());
static HOOK: Once = Once::new();

fn install_hook() {
    HOOK.call_once(|| {
        std::panic::set_hook(Box::new(|info| {
            let l = info.location().map(|l| format!("{}:{}", l.file(), l.line())).unwrap_or_else(|| "?".to_string());
            if let Ok(mut g) = LOC.lock() { *g = l; }
        }));
    });
}

fn panic_text(e: Box<dyn std::any::Any + Send>) -> String {
    let msg = if let Some(s) = e.downcast_ref::<&str>() { s.to_string() }
    else if let Some(s) = e.downcast_ref::<String>() { s.clone() } else { "?".to_string() };
    let msg: String = msg.chars().filter(|c| *c != '\n' && *c != ';').take(100).collect();
    let loc = LOC.lock().map(|g| g.clone()).unwrap_or_default();
    // strip the checkout prefix so that outputs do not depend on where /repo lives
    let loc = match loc.find("src/") { Some(p) => loc[p..].to_string(), None => loc };
    format!("{} @ {}", msg, loc)
}

fn err_name(e: &SolverError) -> String {
    let s = format!("{:?}", e);
    s.split(|c: char| !c.is_alphanumeric()).next().unwrap_or("?").to_string()
}

#[derive(Clone, Copy)]
enum Opnd { V(VarId), C(i32) }

struct St { m: Model, vars: Vec<VarId> }

fn vix(t: &str) -> usize { t.trim_start_matches('x').parse().expect("var index") }
impl St {
    fn v(&self, t: &str) -> VarId { self.vars[vix(t)] }
    fn vs(&self, t: &str) -> Vec<VarId> {
        if t == "-" { vec![] } else { t.split(',').map(|x| self.v(x)).collect() }
    }
    fn mat(&self, t: &str) -> Vec<Vec<VarId>> {
        if t == "-" || t == "E" { return vec![]; }
        t.split('/').map(|r| if r == "e" { vec![] } else { self.vs(r) }).collect()
    }
    fn cube(&self, t: &str) -> Vec<Vec<Vec<VarId>>> {
        if t == "-" { return vec![]; }
        t.split("//").map(|l| self.mat(l)).collect()
    }
    fn opnd(&self, t: &str) -> Opnd {
        if let Some(r) = t.strip_prefix("c:") { Opnd::C(r.parse().expect("const")) } else { Opnd::V(self.v(t)) }
    }
}

macro_rules! bin {
    ($st:expr, $f:ident, $a:expr, $b:expr) => {
        match ($a, $b) {
            (Opnd::V(a), Opnd::V(b)) => $st.m.$f(a, b),
            (Opnd::V(a), Opnd::C(b)) => $st.m.$f(a, Val::ValI(b)),
            (Opnd::C(a), Opnd::V(b)) => $st.m.$f(Val::ValI(a), b),
            (Opnd::C(a), Opnd::C(b)) => $st.m.$f(Val::ValI(a), Val::ValI(b)),
        }
    };
}

fn parse_tuples(t: &str) -> Vec<Vec<Val>> {
    if t == "-" { return vec![]; }
    t.split('|').map(|r| crate::parse_list(r).into_iter().map(Val::ValI).collect()).collect()
}

/// one building call; returns the outcome class (never `unsat`)
fn build_call(st: &mut St, t: &[&str]) -> String {
    match t[0] {
        "int" => { let v = st.m.int(t[1].parse().unwrap(), t[2].parse().unwrap()); st.vars.push(v); }
        "bool" => { let v = st.m.bool(); st.vars.push(v); }
        "intset" => { let v = st.m.intset(crate::parse_list(t[1])); st.vars.push(v); }
        "ints" => { let vs = st.m.ints(t[1].parse().unwrap(), t[2].parse().unwrap(), t[3].parse().unwrap()); st.vars.extend(vs); }
        "ints2d" => { let vs = st.m.ints_2d(t[1].parse().unwrap(), t[2].parse().unwrap(), t[3].parse().unwrap(), t[4].parse().unwrap()); st.vars.extend(vs.into_iter().flatten()); }
        "ints3d" => { let vs = st.m.ints_3d(t[1].parse().unwrap(), t[2].parse().unwrap(), t[3].parse().unwrap(), t[4].parse().unwrap(), t[5].parse().unwrap()); st.vars.extend(vs.into_iter().flatten().flatten()); }
        "bools" => { let vs = st.m.bools(t[1].parse().unwrap()); st.vars.extend(vs); }
        "bools2d" => { let vs = st.m.bools_2d(t[1].parse().unwrap(), t[2].parse().unwrap()); st.vars.extend(vs.into_iter().flatten()); }
        "bools3d" => { let vs = st.m.bools_3d(t[1].parse().unwrap(), t[2].parse().unwrap(), t[3].parse().unwrap()); st.vars.extend(vs.into_iter().flatten().flatten()); }
        "amin" | "amax" => {
            let xs = st.vs(t[1]);
            let r = if t[0] == "amin" { st.m.array_int_minimum(&xs) } else { st.m.array_int_maximum(&xs) };
            match r { Ok(v) => st.vars.push(v), Err(e) => return format!("err {}", err_name(&e)) }
        }
        "sumiter" => {
            let ops: Vec<Opnd> = if t[1] == "-" { vec![] } else { t[1].split(',').map(|x| st.opnd(x)).collect() };
            let r = if ops.iter().all(|o| matches!(o, Opnd::V(_))) {
                st.m.sum_iter(ops.iter().map(|o| match o { Opnd::V(x) => *x, Opnd::C(_) => unreachable!() }))
            } else if ops.iter().all(|o| matches!(o, Opnd::C(_))) {
                st.m.sum_iter(ops.iter().map(|o| match o { Opnd::C(c) => Val::ValI(*c), Opnd::V(_) => unreachable!() }))
            } else { panic!("harness: sumiter takes one item type") };
            st.vars.push(r);
        }
        "element2d" => { let m = st.mat(t[1]); let (r, c, v) = (st.v(t[2]), st.v(t[3]), st.v(t[4])); st.m.element_2d(&m, r, c, v); }
        "element3d" => { let q = st.cube(t[1]); let (d, r, c, v) = (st.v(t[2]), st.v(t[3]), st.v(t[4]), st.v(t[5])); st.m.element_3d(&q, d, r, c, v); }
        "table2d" => { let m = st.mat(t[1]); st.m.table_2d(&m, parse_tuples(t[2])); }
        "table3d" => { let q = st.cube(t[1]); st.m.table_3d(&q, parse_tuples(t[2])); }
        "add" | "sub" | "mul" | "mod" => {
            let (a, b) = (st.opnd(t[1]), st.opnd(t[2]));
            let r = match t[0] { "add" => bin!(st, add, a, b), "sub" => bin!(st, sub, a, b), "mul" => bin!(st, mul, a, b), _ => bin!(st, modulo, a, b) };
            st.vars.push(r);
        }
        "abs" => { let r = match st.opnd(t[1]) { Opnd::V(a) => st.m.abs(a), Opnd::C(a) => st.m.abs(Val::ValI(a)) }; st.vars.push(r); }
        "min" | "max" => {
            let xs = st.vs(t[1]);
            let r = if t[0] == "min" { st.m.min(&xs) } else { st.m.max(&xs) };
            match r { Ok(v) => st.vars.push(v), Err(e) => return format!("err {}", err_name(&e)) }
        }
        "sum" => { let xs = st.vs(t[1]); let r = st.m.sum(&xs); st.vars.push(r); }
        "lin" | "blin" => {
            let cs = crate::parse_list(t[2]); let xs = st.vs(t[3]); let k: i32 = t[4].parse().unwrap();
            match (t[0], t[1]) {
                ("lin", "eq") => st.m.lin_eq(&cs, &xs, k), ("lin", "le") => st.m.lin_le(&cs, &xs, k), ("lin", "ne") => st.m.lin_ne(&cs, &xs, k),
                ("blin", "eq") => st.m.bool_lin_eq(&cs, &xs, k), ("blin", "le") => st.m.bool_lin_le(&cs, &xs, k), ("blin", "ne") => st.m.bool_lin_ne(&cs, &xs, k),
                _ => panic!("harness: bad lin op"),
            }
        }
        "linr" | "blinr" => {
            let cs = crate::parse_list(t[2]); let xs = st.vs(t[3]); let k: i32 = t[4].parse().unwrap(); let b = st.v(t[5]);
            match (t[0], t[1]) {
                ("linr", "eq") => st.m.lin_eq_reif(&cs, &xs, k, b), ("linr", "le") => st.m.lin_le_reif(&cs, &xs, k, b), ("linr", "ne") => st.m.lin_ne_reif(&cs, &xs, k, b),
                ("blinr", "eq") => st.m.bool_lin_eq_reif(&cs, &xs, k, b), ("blinr", "le") => st.m.bool_lin_le_reif(&cs, &xs, k, b), ("blinr", "ne") => st.m.bool_lin_ne_reif(&cs, &xs, k, b),
                _ => panic!("harness: bad linr op"),
            }
        }
        "reif" => {
            let (x, y, b) = (st.v(t[2]), st.v(t[3]), st.v(t[4]));
            match t[1] { "eq" => st.m.eq_reif(x, y, b), "ne" => st.m.ne_reif(x, y, b), "lt" => st.m.lt_reif(x, y, b),
                         "le" => st.m.le_reif(x, y, b), "gt" => st.m.gt_reif(x, y, b), "ge" => st.m.ge_reif(x, y, b), _ => panic!("harness: bad reif op") }
        }
        "band" => { let xs = st.vs(t[1]); let r = st.m.bool_and(&xs); st.vars.push(r); }
        "bor" => { let xs = st.vs(t[1]); let r = st.m.bool_or(&xs); st.vars.push(r); }
        "bnot" => { let x = st.v(t[1]); let r = st.m.bool_not(x); st.vars.push(r); }
        "bxor" => { let (x, y) = (st.v(t[1]), st.v(t[2])); let r = st.m.bool_xor(x, y); st.vars.push(r); }
        "implies" => { let (a, b) = (st.v(t[1]), st.v(t[2])); st.m.implies(a, b); }
        "clause" => { let (p, n) = (st.vs(t[1]), st.vs(t[2])); st.m.bool_clause(&p, &n); }
        "alldiff" => { let xs = st.vs(t[1]); st.m.alldiff(&xs); }
        "alleq" => { let xs = st.vs(t[1]); st.m.alleq(&xs); }
        "element" => { let xs = st.vs(t[1]); let (i, v) = (st.v(t[2]), st.v(t[3])); st.m.element(&xs, i, v); }
        "aelement" => { let xs = st.vs(t[2]); let (i, v) = (st.v(t[1]), st.v(t[3])); st.m.array_int_element(i, &xs, v); }
        "elementf" => { let xs = st.vs(t[1]); let i = st.v(t[2]); let r = selen::constraints::functions::element(&mut st.m, &xs, i); st.vars.push(r); }
        "table" => { let xs = st.vs(t[1]); st.m.table(&xs, parse_tuples(t[2])); }
        "count" => {
            let xs = st.vs(t[1]); let c = st.v(t[3]);
            match st.opnd(t[2]) { Opnd::V(a) => st.m.count(&xs, a, c), Opnd::C(a) => st.m.count(&xs, Val::ValI(a), c) };
        }
        "atleast" | "atmost" | "exactly" => {
            let xs = st.vs(t[1]); let (v, n): (i32, i32) = (t[2].parse().unwrap(), t[3].parse().unwrap());
            match t[0] { "atleast" => st.m.at_least(&xs, v, n), "atmost" => st.m.at_most(&xs, v, n), _ => st.m.exactly(&xs, v, n) };
        }
        "between" => { let (a, b, c) = (st.v(t[1]), st.v(t[2]), st.v(t[3])); st.m.between(a, b, c); }
        "gcc" => { let xs = st.vs(t[1]); let vals = crate::parse_list(t[2]); let cs = st.vs(t[3]); st.m.gcc(&xs, &vals, &cs); }
        "new" => { if let Some(c) = crate::mlevel::parse_cons_opt(t[1], &st.vars) { st.m.new(c); } }
        "fn" => {
            let (l, r) = (crate::mlevel::parse_expr(t[2], &st.vars), crate::mlevel::parse_expr(t[3], &st.vars));
            use selen::constraints::functions as f;
            match t[1] { "eq" => f::eq(&mut st.m, l, r), "ne" => f::ne(&mut st.m, l, r), "lt" => f::lt(&mut st.m, l, r),
                         "le" => f::le(&mut st.m, l, r), "gt" => f::gt(&mut st.m, l, r), "ge" => f::ge(&mut st.m, l, r), _ => panic!("harness: bad fn op") }
        }
        k => panic!("harness: bad statement {}", k),
    }
    "ok".to_string()
}

fn is_entry(k: &str) -> bool { matches!(k, "solve" | "enum" | "enumstats" | "minimize" | "maximize" | "miniter" | "maxiter" | "validate") }

fn classify(r: Result<Solution, SolverError>) -> String {
    match r {
        Ok(_) => "ok".to_string(),
        Err(SolverError::NoSolution { .. }) => "unsat".to_string(),
        Err(SolverError::Timeout { .. }) => "timeout".to_string(),
        Err(e) => format!("err {}", err_name(&e)),
    }
}
fn count_class(n: usize) -> String { if n == 0 { "unsat".to_string() } else { "ok".to_string() } }

fn entry_call(st: St, t: &[&str]) -> String {
    let St { m, vars } = st;
    match t[0] {
        "solve" => classify(m.solve()),
        "minimize" => classify(m.minimize(vars[vix(t[1])])),
        "maximize" => classify(m.maximize(vars[vix(t[1])])),
        "enum" => count_class(m.enumerate().take(50).count()),
        "enumstats" => count_class(m.enumerate_with_stats().0.len()),
        "miniter" => count_class(m.minimize_and_iterate(vars[vix(t[1])]).take(50).count()),
        "maxiter" => count_class(m.maximize_and_iterate(vars[vix(t[1])]).take(50).count()),
        "validate" => match m.validate() { Ok(()) => "ok".to_string(), Err(_) => "err Validate".to_string() },
        k => panic!("harness: bad entry {}", k),
    }
}

fn new_state(cfg: &[&str]) -> St {
    let mut c = SolverConfig::default().with_timeout_ms(2000);
    let mut i = 1;
    while i + 1 < cfg.len() {
        match cfg[i] {
            "mem" => c = c.with_max_memory_mb(cfg[i + 1].parse().unwrap()),
            "timeout" => c = c.with_timeout_ms(cfg[i + 1].parse().unwrap()),
            k => panic!("harness: bad cfg key {}", k),
        }
        i += 2;
    }
    St { m: Model::with_config(c), vars: vec![] }
}

/// runs the building calls; Ok(state, outcomes) or Err(outcomes ending in PANIC)
fn build_all(cfg: &[&str], calls: &[Vec<&str>]) -> Result<(St, Vec<String>), Vec<String>> {
    let mut st = new_state(cfg);
    let mut outs = vec![];
    for t in calls {
        let r = catch_unwind(AssertUnwindSafe(|| build_call(&mut st, t)));
        match r {
            Ok(s) => outs.push(s),
            Err(e) => { outs.push(format!("PANIC {} : {}", t[0], panic_text(e))); return Err(outs); }
        }
    }
    Ok((st, outs))
}

pub fn run_case(line: &str) -> String {
    install_hook();
    selen::verif_hooks::set_agenda_seed(None);
    selen::verif_hooks::set_root_lp_disabled(false);
    selen::verif_hooks::set_fast_path_disabled(false);
    selen::verif_hooks::set_limit_script(None, None);
    let stmts: Vec<Vec<&str>> = line.split(';').map(|p| p.split_whitespace().collect::<Vec<&str>>()).filter(|t| !t.is_empty()).collect();
    let mut cfg: Vec<&str> = vec!["cfg"];
    let mut calls: Vec<Vec<&str>> = vec![];
    let mut entries: Vec<Vec<&str>> = vec![];
    for t in stmts {
        if t[0] == "cfg" { cfg = t; } else if is_entry(t[0]) { entries.push(t); } else { calls.push(t); }
    }
    let (st0, mut outs) = match build_all(&cfg, &calls) { Ok(x) => x, Err(o) => return o.join(" ; ") };
    let mut first = Some(st0);
    for e in &entries {
        let st = match first.take() {
            Some(s) => s,
            None => match build_all(&cfg, &calls) { Ok((s, _)) => s, Err(_) => { outs.push("PANIC rebuild".to_string()); break; } },
        };
        let r = catch_unwind(AssertUnwindSafe(|| entry_call(st, e)));
        match r {
            Ok(s) => outs.push(s),
            Err(p) => outs.push(format!("PANIC {} : {}", e[0], panic_text(p))),
        }
    }
    if outs.is_empty() { "-".to_string() } else { outs.join(" ; ") }
}
