// Float / mixed sub-commands (C06, C07, C08).  f64 values travel as 16 hex digits (bit pattern).
//
// propf / searchf  (props-level: doc-hidden Vars / Propagators / search API; bit-exact tie of
//                   coq/Model/FloatProps.v and FloatSearch.v)
//   <dom>|<dom>|... ; <pspec> ; ... [; first | min xN | max xN]
//   dom   ::= F <min> <max> <step> | lo..hi | a,b,c
//   pspec ::= (flineq|flinle|flinne) C,C,.. xI,xJ,.. K
//           | (flineqr|flinler|flinner) C,C,.. xI,xJ,.. K xB
//           | (leq|lt|geq|gt|eq) <fv> <fv>
//           | ilinle c,c,.. xI,xJ,.. k            (IntLinLe posted on float / mixed variables)
//           | (add|sub) <fv> <fv> xS              (Propagators::add / sub: x + y == s, x - y == s)
//   fv    ::= xN | f:<hex> | i:<int> | next(xN) | next(f:<hex>) | next(i:<int>)
//   propf  -> `fail` | `ok (stalled|solved) <doms>`       (float domain printed `F min max step`)
//   searchf-> `sols <tuple> <tuple> ...` (the first 40 solutions at most; float value = F<hex>) | `sols -`
//             | `TIMEOUT` when the 4 s budget of search_with_timeout ran out
//
// solvef / lowerf  (public Model API)
//   <prec> ; <decl>|<decl>|... ; <post> ; ... ; <entry> [; lp] [; fp] [; to <ms>]
//   decl  ::= F <min> <max> | I <lo> <hi> | B
//   post  ::= lin (eq|le|ne) C,C,.. xI,.. K                       m.lin_*(&[f64], ..)
//           | ilin (eq|le|ne) c,c,.. xI,.. k                      m.lin_*(&[i32], ..)
//           | new <cons>                                          m.new(fluent)
//           | props (flineq|flinle|flinne) C,.. xI,.. K           m.props.float_lin_*
//           | props (leq|lt|geq|gt|eq) <fv> <fv>                  m.props.less_than_or_equals ...
//           | conv (i2f|floor|ceil|round) xA xB                   m.int2float / float2int_*
//           | arith (add|sub|mul|div) <opd> <opd>                 m.add / m.sub / m.mul / m.div ; the returned handle becomes
//                                                                 the NEXT variable index (x<n>, n = number of variables so far)
//           | arith abs <opd>                                     m.abs
//           | arith (min|max|sum|fmin|fmax) xA,xB,..              m.min / m.max / m.sum / array_float_minimum / array_float_maximum
//           | (elem|elemi|elemx) xIdx xA,xB,.. xRes               m.array_float_element / m.array_int_element / ModelExt::elem
//   opd   ::= xN | f:<hex> | i:<int>                              (a constant operand is passed as Val::ValF / Val::ValI)
//   cons  ::= (eq|ne|lt|le|gt|ge)(<expr>,<expr>)
//   expr  ::= xN | <int> | f:<hex> | (add|sub|mul|div)(<expr>,<expr>)
//   entry ::= solve | min xN | max xN
//   lp = root LP step enabled, fp = optimisation fast path enabled (both OFF by default, hook H5)
//   solvef -> `ok <v>,<v>,.. lp=<0|1>` | `err <ErrorName> lp=<0|1>`
//   lowerf -> `ok <doms> ; <Debug text of propagator> ; ...` | `err <ErrorName>`
use selen::constraints::props::Propagators;
use selen::prelude::*;
use selen::runtime_api::{Constraint, ExprBuilder, ModelExt};
use selen::search::{agenda::Agenda, mode, propagate, search_with_timeout, Space};
use selen::variables::views::{View, ViewExt};
use selen::variables::{Val, Var, VarId, Vars};

// A float bisection that makes no progress descends forever, the engine does not check its limits while descending
// and every level clones the space: the process would eat all memory.  Cap the address space (2.5 GB) so that such a
// case dies quickly (the check then reports the line as CRASH) instead of taking the machine down.
#[repr(C)]
struct RLimit { cur: u64, max: u64 }
extern "C" { fn setrlimit(resource: i32, rlim: *const RLimit) -> i32; }
fn cap_memory() {
    static ONCE: std::sync::Once = std::sync::Once::new();
    ONCE.call_once(|| {
        let lim = RLimit { cur: 2_500_000_000, max: 2_500_000_000 };
        unsafe { setrlimit(9 /* RLIMIT_AS */, &lim); }
    });
}

fn pf(s: &str) -> f64 {
    assert!(s.len() == 16, "bad f64 token {}", s);
    f64::from_bits(u64::from_str_radix(s, 16).expect("hex"))
}
fn hf(x: f64) -> String {
    if x.is_nan() { "7ff8000000000000".to_string() } else { format!("{:016x}", x.to_bits()) }
}
fn flist(tok: &str) -> Vec<f64> {
    if tok == "-" { vec![] } else { tok.split(',').map(pf).collect() }
}
fn var_ix(tok: &str) -> usize { tok.trim_start_matches('x').parse().expect("var") }
fn var_list(tok: &str, vars: &[VarId]) -> Vec<VarId> {
    if tok == "-" { vec![] } else { tok.split(',').map(|t| vars[var_ix(t)]).collect() }
}

// ---------------------------------------------------------------- float views
#[derive(Clone, Copy, Debug)]
enum Leaf { Var(usize), F(f64), I(i32) }
#[derive(Clone, Copy, Debug)]
struct FV { leaf: Leaf, next: bool }
fn parse_fv(s: &str) -> FV {
    let s = s.trim();
    if let Some(inner) = s.strip_prefix("next(").and_then(|r| r.strip_suffix(')')) {
        let mut v = parse_fv(inner);
        assert!(!v.next, "next(next(..)) not supported");
        v.next = true;
        return v;
    }
    let leaf = if let Some(r) = s.strip_prefix("f:") { Leaf::F(pf(r)) }
        else if let Some(r) = s.strip_prefix("i:") { Leaf::I(r.parse().expect("int")) }
        else { Leaf::Var(var_ix(s)) };
    FV { leaf, next: false }
}
trait K2 { fn call<A: View, B: View>(self, a: A, b: B); }
fn with1<A: View, K: K2>(a: A, b: FV, vars: &[VarId], k: K) {
    match (b.leaf, b.next) {
        (Leaf::Var(i), false) => k.call(a, vars[i]),
        (Leaf::Var(i), true) => k.call(a, vars[i].next()),
        (Leaf::F(x), false) => k.call(a, Val::ValF(x)),
        (Leaf::F(x), true) => k.call(a, ViewExt::next(Val::ValF(x))),
        (Leaf::I(x), false) => k.call(a, Val::ValI(x)),
        (Leaf::I(x), true) => k.call(a, ViewExt::next(Val::ValI(x))),
    }
}
fn with2<K: K2>(a: FV, b: FV, vars: &[VarId], k: K) {
    match (a.leaf, a.next) {
        (Leaf::Var(i), false) => with1(vars[i], b, vars, k),
        (Leaf::Var(i), true) => with1(vars[i].next(), b, vars, k),
        (Leaf::F(x), false) => with1(Val::ValF(x), b, vars, k),
        (Leaf::F(x), true) => with1(ViewExt::next(Val::ValF(x)), b, vars, k),
        (Leaf::I(x), false) => with1(Val::ValI(x), b, vars, k),
        (Leaf::I(x), true) => with1(ViewExt::next(Val::ValI(x)), b, vars, k),
    }
}
struct PostCmp<'a> { props: &'a mut Propagators, kind: &'a str }
impl<'a> K2 for PostCmp<'a> {
    fn call<A: View, B: View>(self, a: A, b: B) {
        match self.kind {
            "leq" => { self.props.less_than_or_equals(a, b); }
            "lt" => { self.props.less_than(a, b); }
            "geq" => { self.props.greater_than_or_equals(a, b); }
            "gt" => { self.props.greater_than(a, b); }
            "eq" => { self.props.equals(a, b); }
            k => panic!("bad comparison kind {}", k),
        }
    }
}

struct PostArith<'a> { props: &'a mut Propagators, kind: &'a str, s: VarId }
impl<'a> K2 for PostArith<'a> {
    fn call<A: View, B: View>(self, a: A, b: B) {
        match self.kind {
            "add" => { self.props.add(a, b, self.s); }
            "sub" => { self.props.sub(a, b, self.s); }
            "mul" => { self.props.mul(a, b, self.s); }
            k => panic!("bad arithmetic kind {}", k),
        }
    }
}

/// post one props-level float propagator; false if the kind is not one of ours
fn post_props(t: &[&str], vars: &[VarId], props: &mut Propagators) -> bool {
    match t[0] {
        "flineq" => { props.float_lin_eq(flist(t[1]), var_list(t[2], vars), pf(t[3])); }
        "flinle" => { props.float_lin_le(flist(t[1]), var_list(t[2], vars), pf(t[3])); }
        "flinne" => { props.float_lin_ne(flist(t[1]), var_list(t[2], vars), pf(t[3])); }
        "flineqr" => { props.float_lin_eq_reif(flist(t[1]), var_list(t[2], vars), pf(t[3]), vars[var_ix(t[4])]); }
        "flinler" => { props.float_lin_le_reif(flist(t[1]), var_list(t[2], vars), pf(t[3]), vars[var_ix(t[4])]); }
        "flinner" => { props.float_lin_ne_reif(flist(t[1]), var_list(t[2], vars), pf(t[3]), vars[var_ix(t[4])]); }
        "ilinle" => { props.int_lin_le(crate::parse_list(t[1]), var_list(t[2], vars), t[3].parse().unwrap()); }
        "leq" | "lt" | "geq" | "gt" | "eq" => {
            with2(parse_fv(t[1]), parse_fv(t[2]), vars, PostCmp { props, kind: t[0] });
        }
        "add" | "sub" | "mul" => {
            let s = vars[var_ix(t[3])];
            with2(parse_fv(t[1]), parse_fv(t[2]), vars, PostArith { props, kind: t[0], s });
        }
        _ => return false,
    }
    true
}

fn fmt_doms(vars: &Vars) -> String {
    let mut out = vec![];
    for (_, v) in vars.iter_with_indices() {
        match v {
            Var::VarI(ss) => { let mut e: Vec<i32> = ss.iter().collect(); e.sort(); out.push(crate::mlevel::fmt_dom(&e)); }
            Var::VarF(fi) => out.push(format!("F {} {} {}", hf(fi.min), hf(fi.max), hf(fi.step))),
        }
    }
    out.join("|")
}
fn fmt_val(v: Val) -> String {
    match v { Val::ValI(i) => i.to_string(), Val::ValF(f) => format!("F{}", hf(f)) }
}
fn fmt_solution(sol: &selen::core::solution::Solution, ids: &[VarId]) -> String {
    ids.iter().map(|&v| fmt_val(sol[v])).collect::<Vec<_>>().join(",")
}

struct PSetup { vars: Vars, props: Propagators, ids: Vec<VarId>, entry: Option<String> }
fn psetup(line: &str) -> PSetup {
    selen::verif_hooks::set_agenda_seed(None);
    selen::verif_hooks::set_root_lp_disabled(true);
    let mut parts = line.split(';').map(|p| p.trim());
    let mut vars = Vars::new();
    let mut props = Propagators::default();
    let mut ids = vec![];
    for d in parts.next().unwrap().split('|').map(|d| d.trim()).filter(|d| !d.is_empty()) {
        let id = if let Some(r) = d.strip_prefix("F ") {
            let t: Vec<&str> = r.split_whitespace().collect();
            vars.new_var_with_bounds_and_step(Val::ValF(pf(t[0])), Val::ValF(pf(t[1])), pf(t[2]))
        } else if let Some(p) = d.find("..") {
            vars.new_var_with_bounds(Val::ValI(d[..p].parse().unwrap()), Val::ValI(d[p + 2..].parse().unwrap()))
        } else {
            vars.new_var_with_values(crate::parse_list(d))
        };
        props.on_new_var();
        ids.push(id);
    }
    let mut entry = None;
    for p in parts {
        if p.is_empty() { continue; }
        let t: Vec<&str> = p.split_whitespace().collect();
        match t[0] {
            "first" | "min" | "max" => entry = Some(p.to_string()),
            _ => { if !post_props(&t, &ids, &mut props) { panic!("bad pspec {}", t[0]); } }
        }
    }
    PSetup { vars, props, ids, entry }
}

/// propf with a watchdog: search::propagate has no limit of its own, and float propagation can run (practically)
/// forever; the case is executed in a helper thread (Vars/Propagators are not Send, so the whole case is built there)
/// and reported as HANG after 2 s.  The abandoned thread keeps spinning until the process exits.
pub fn run_propf(line: &str) -> String {
    let (tx, rx) = std::sync::mpsc::channel();
    let l = line.to_string();
    std::thread::spawn(move || {
        let r = std::panic::catch_unwind(|| run_propf_inner(&l)).unwrap_or_else(|_| "PANIC".to_string());
        let _ = tx.send(r);
    });
    match rx.recv_timeout(std::time::Duration::from_millis(2000)) {
        Ok(r) => r,
        Err(_) => "HANG".to_string(),
    }
}
fn run_propf_inner(line: &str) -> String {
    let st = psetup(line);
    let agenda = Agenda::with_props(st.props.get_prop_ids_iter());
    let space = Space { vars: st.vars, props: st.props, trail: selen::search::trail::Trail::new(),
        lp_solver_used: false, lp_constraint_count: 0, lp_variable_count: 0, lp_stats: None };
    match propagate(space, agenda) {
        None => "fail".to_string(),
        Some((stalled, sp)) => format!("ok {} {}", if stalled { "stalled" } else { "solved" }, fmt_doms(&sp.vars)),
    }
}

const MAX_SOLS: usize = 40;
fn collect<M: mode::Mode>(vars: Vars, props: Propagators, m: M, ids: &[VarId], lim: usize) -> String {
    let mut it = search_with_timeout(vars, props, m, Some(std::time::Duration::from_millis(4000)), vec![], 6);
    let mut sols = vec![];
    while let Some(s) = it.next() {
        sols.push(fmt_solution(&s, ids));
        if sols.len() >= lim { break; }
    }
    if sols.len() < lim && it.is_timed_out() { return "TIMEOUT".to_string(); }
    format!("sols {}", if sols.is_empty() { "-".to_string() } else { sols.join(" ") })
}
/// searchf with a watchdog (as propf): the engine checks its time limit only between top-level iterations, never inside
/// search::propagate, so a creeping float propagation (one step per pass over a wide interval) never comes back; the
/// case runs in a helper thread and is reported as HANG after 10 s (the abandoned thread spins until the process exits).
pub fn run_searchf(line: &str) -> String {
    let (tx, rx) = std::sync::mpsc::channel();
    let l = line.to_string();
    std::thread::spawn(move || {
        let r = std::panic::catch_unwind(|| run_searchf_inner(&l)).unwrap_or_else(|_| "PANIC".to_string());
        let _ = tx.send(r);
    });
    match rx.recv_timeout(std::time::Duration::from_millis(10000)) {
        Ok(r) => r,
        Err(_) => "HANG".to_string(),
    }
}
fn run_searchf_inner(line: &str) -> String {
    cap_memory();
    let st = psetup(line);
    let entry = st.entry.clone().unwrap_or("first".to_string());
    let t: Vec<&str> = entry.split_whitespace().collect();
    match t[0] {
        "first" => collect(st.vars, st.props, mode::Enumerate, &st.ids, 1),
        "min" => { let o = st.ids[var_ix(t[1])]; collect(st.vars, st.props, mode::Minimize::new(o), &st.ids, MAX_SOLS) }
        "max" => { let o = st.ids[var_ix(t[1])]; collect(st.vars, st.props, mode::Minimize::new(o.opposite()), &st.ids, MAX_SOLS) }
        k => panic!("bad entry {}", k),
    }
}

// ---------------------------------------------------------------- Model level
fn split_top(s: &str) -> Vec<&str> {
    let mut out = vec![]; let mut depth = 0; let mut start = 0;
    for (i, ch) in s.char_indices() {
        match ch { '(' => depth += 1, ')' => depth -= 1, ',' if depth == 0 => { out.push(&s[start..i]); start = i + 1; } _ => {} }
    }
    out.push(&s[start..]);
    out
}
fn head_args(s: &str) -> Option<(&str, Vec<&str>)> {
    let open = s.find('(')?;
    if !s.ends_with(')') { return None; }
    Some((&s[..open], split_top(&s[open + 1..s.len() - 1])))
}
fn parse_expr(s: &str, vars: &[VarId]) -> ExprBuilder {
    let s = s.trim();
    if let Some(r) = s.strip_prefix('x') {
        if let Ok(i) = r.parse::<usize>() { return ExprBuilder::from(vars[i]); }
    }
    if let Some(r) = s.strip_prefix("f:") { return ExprBuilder::from(pf(r)); }
    if let Ok(c) = s.parse::<i32>() { return ExprBuilder::from(c); }
    let (h, a) = head_args(s).expect("expr syntax");
    assert!(a.len() == 2, "binary expression expected");
    let (l, r) = (parse_expr(a[0], vars), parse_expr(a[1], vars));
    match h { "add" => l.add(r), "sub" => l.sub(r), "mul" => l.mul(r), "div" => l.div(r), _ => panic!("bad expr op {}", h) }
}
fn parse_cons(s: &str, vars: &[VarId]) -> Constraint {
    let (h, a) = head_args(s.trim()).expect("cons syntax");
    let (l, r) = (parse_expr(a[0], vars), parse_expr(a[1], vars));
    match h { "eq" => l.eq(r), "ne" => l.ne(r), "lt" => l.lt(r), "le" => l.le(r), "gt" => l.gt(r), "ge" => l.ge(r), _ => panic!("bad comparison {}", h) }
}

#[derive(Clone, Copy)]
enum Opd { V(VarId), C(Val) }
fn parse_opd(tok: &str, ids: &[VarId]) -> Opd {
    if let Some(r) = tok.strip_prefix("f:") { Opd::C(Val::ValF(pf(r))) }
    else if let Some(r) = tok.strip_prefix("i:") { Opd::C(Val::ValI(r.parse().expect("int"))) }
    else { Opd::V(ids[var_ix(tok)]) }
}
fn arith_bin(m: &mut Model, op: &str, a: Opd, b: Opd) -> VarId {
    fn go<A: View, B: View>(m: &mut Model, op: &str, a: A, b: B) -> VarId {
        match op { "add" => m.add(a, b), "sub" => m.sub(a, b), "mul" => m.mul(a, b), "div" => m.div(a, b), k => panic!("bad arith op {}", k) }
    }
    match (a, b) {
        (Opd::V(x), Opd::V(y)) => go(m, op, x, y),
        (Opd::V(x), Opd::C(d)) => go(m, op, x, d),
        (Opd::C(c), Opd::V(y)) => go(m, op, c, y),
        (Opd::C(c), Opd::C(d)) => go(m, op, c, d),
    }
}
/// `arith <op> ...`: post through the public arithmetic route and return the result handle
fn post_arith(m: &mut Model, t: &[&str], ids: &[VarId]) -> VarId {
    match t[1] {
        "add" | "sub" | "mul" | "div" => arith_bin(m, t[1], parse_opd(t[2], ids), parse_opd(t[3], ids)),
        "abs" => match parse_opd(t[2], ids) { Opd::V(x) => m.abs(x), Opd::C(c) => m.abs(c) },
        "min" => m.min(&var_list(t[2], ids)).expect("min of an empty list"),
        "max" => m.max(&var_list(t[2], ids)).expect("max of an empty list"),
        "fmin" => m.array_float_minimum(&var_list(t[2], ids)).expect("min of an empty list"),
        "fmax" => m.array_float_maximum(&var_list(t[2], ids)).expect("max of an empty list"),
        "sum" => { let xs = var_list(t[2], ids); m.sum(&xs) }
        k => panic!("bad arith kind {}", k),
    }
}

struct MBuilt { m: Model, ids: Vec<VarId>, entry: Vec<String> }
fn mbuild(line: &str) -> MBuilt {
    selen::verif_hooks::set_agenda_seed(None);
    selen::verif_hooks::set_root_lp_disabled(true);
    selen::verif_hooks::set_fast_path_disabled(true);
    let _ = selen::verif_hooks::take_root_lp_ran();
    let parts: Vec<&str> = line.split(';').map(|p| p.trim()).collect();
    let prec: i32 = parts[0].parse().expect("precision");
    let mut timeout_ms: u64 = 3000;
    for p in &parts[2..] {
        let t: Vec<&str> = p.split_whitespace().collect();
        if t.first() == Some(&"to") { timeout_ms = t[1].parse().unwrap(); }
        if t.first() == Some(&"lp") { selen::verif_hooks::set_root_lp_disabled(false); }
        if t.first() == Some(&"fp") { selen::verif_hooks::set_fast_path_disabled(false); }
    }
    let cfg = selen::utils::config::SolverConfig::default().with_float_precision(prec).with_timeout_ms(timeout_ms);
    let mut m = Model::with_config(cfg);
    let mut ids: Vec<VarId> = vec![];
    for d in parts[1].split('|').map(|d| d.trim()).filter(|d| !d.is_empty()) {
        let t: Vec<&str> = d.split_whitespace().collect();
        let v = match t[0] {
            "F" => m.float(pf(t[1]), pf(t[2])),
            "I" => m.int(t[1].parse().unwrap(), t[2].parse().unwrap()),
            "B" => m.bool(),
            k => panic!("bad decl {}", k),
        };
        ids.push(v);
    }
    let mut entry = vec![];
    for p in &parts[2..] {
        if p.is_empty() { continue; }
        let t: Vec<&str> = p.split_whitespace().collect();
        match t[0] {
            "lin" => {
                let (cs, xs, k) = (flist(t[2]), var_list(t[3], &ids), pf(t[4]));
                match t[1] { "eq" => m.lin_eq(&cs, &xs, k), "le" => m.lin_le(&cs, &xs, k), "ne" => m.lin_ne(&cs, &xs, k), _ => panic!("bad lin op") }
            }
            "ilin" => {
                let (cs, xs, k) = (crate::parse_list(t[2]), var_list(t[3], &ids), t[4].parse::<i32>().unwrap());
                match t[1] { "eq" => m.lin_eq(&cs, &xs, k), "le" => m.lin_le(&cs, &xs, k), "ne" => m.lin_ne(&cs, &xs, k), _ => panic!("bad lin op") }
            }
            "new" => { let c = parse_cons(t[1], &ids); m.new(c); }
            "props" => { if !post_props(&t[1..], &ids, &mut m.props) { panic!("bad props kind {}", t[1]); } }
            "conv" => {
                let (a, b) = (ids[var_ix(t[2])], ids[var_ix(t[3])]);
                match t[1] { "i2f" => m.int2float(a, b), "floor" => m.float2int_floor(a, b), "ceil" => m.float2int_ceil(a, b), "round" => m.float2int_round(a, b), _ => panic!("bad conv") }
            }
            "arith" => { let r = post_arith(&mut m, &t, &ids); ids.push(r); }
            "elem" | "elemi" | "elemx" => {
                let (ix, arr, res) = (ids[var_ix(t[1])], var_list(t[2], &ids), ids[var_ix(t[3])]);
                match t[0] { "elem" => m.array_float_element(ix, &arr, res), "elemi" => m.array_int_element(ix, &arr, res), _ => { m.elem(&arr, ix, res); } }
            }
            "solve" | "min" | "max" => entry = t.iter().map(|s| s.to_string()).collect(),
            "lp" | "fp" | "to" => {}
            k => panic!("bad post {}", k),
        }
    }
    MBuilt { m, ids, entry }
}
fn err_name(e: &selen::core::SolverError) -> String {
    let s = format!("{:?}", e);
    s.split(|c: char| !c.is_alphanumeric()).next().unwrap_or("?").to_string()
}
fn reset_hooks() {
    selen::verif_hooks::set_root_lp_disabled(true);
    selen::verif_hooks::set_fast_path_disabled(true);
}

/// solvef with a watchdog (as propf / searchf): every case carries a time limit (`to N`, default 3000 ms) that the solver
/// has to honour by itself — also inside search::propagate and while the engine descends (C15, family
/// creeping_propagation).  The case runs in a helper thread (Model is not Send: it is built there) and is reported as HANG
/// when no answer has arrived 8 s after its own time limit; the abandoned thread spins until the process exits.
pub fn run_solvef(line: &str) -> String {
    let mut limit_ms: u64 = 3000;
    for p in line.split(';') {
        let t: Vec<&str> = p.split_whitespace().collect();
        if t.len() == 2 && t[0] == "to" { limit_ms = t[1].parse().unwrap_or(3000); }
    }
    let (tx, rx) = std::sync::mpsc::channel();
    let l = line.to_string();
    std::thread::spawn(move || {
        // a panic is handed over with its message and raised again in the calling thread (main prints `PANIC <message>`)
        let r = std::panic::catch_unwind(|| run_solvef_inner(&l)).map_err(|e| {
            if let Some(s) = e.downcast_ref::<&str>() { s.to_string() }
            else if let Some(s) = e.downcast_ref::<String>() { s.clone() }
            else { "?".to_string() }
        });
        let _ = tx.send(r);
    });
    match rx.recv_timeout(std::time::Duration::from_millis(limit_ms + 8000)) {
        Ok(Ok(r)) => r,
        Ok(Err(msg)) => panic!("{}", msg),
        Err(_) => "HANG".to_string(),
    }
}
fn run_solvef_inner(line: &str) -> String {
    cap_memory();
    let b = mbuild(line);
    let e0 = b.entry.first().map(|s| s.as_str()).unwrap_or("solve");
    let ids = b.ids.clone();
    let r = match e0 {
        "solve" => b.m.solve(),
        "min" => { let o = ids[var_ix(&b.entry[1])]; b.m.minimize(o) }
        "max" => { let o = ids[var_ix(&b.entry[1])]; b.m.maximize(o) }
        k => panic!("bad entry {}", k),
    };
    let lp = selen::verif_hooks::take_root_lp_ran();
    reset_hooks();
    match r {
        Ok(s) => format!("ok {} lp={}", fmt_solution(&s, &ids), if lp { 1 } else { 0 }),
        Err(e) => format!("err {} lp={}", err_name(&e), if lp { 1 } else { 0 }),
    }
}

pub fn run_lowerf(line: &str) -> String {
    let b = mbuild(line);
    let r = b.m.verif_lower();
    reset_hooks();
    match r {
        Err(e) => format!("err {}", err_name(&e)),
        Ok((vars, props, lp)) => {
            let ps: Vec<String> = props.get_prop_ids_iter()
                .map(|id| format!("{:?}", props.get_state(id)).replace(';', ":").replace('\n', " ")).collect();
            format!("ok {} ; lprows={} ; {}", fmt_doms(&vars), lp.len(), if ps.is_empty() { "-".to_string() } else { ps.join(" ; ") })
        }
    }
}
