// sub-command `limits` (hook H4 + the public Model API):
//   <doms> ; <lineq|linle|linne …> ; … ; <entry> ; iv N ; [tfire K] ; [mem L] ; [buildmem]
// entry ::= solve | min xK | max xK | enumstats | enum
// The model is built through Model::{int,intset,lin_eq,lin_le,lin_ne}; limits through SolverConfig
// and the scripted clock.  Output: `ok <assignment>` | `nosol` | `timeout` | `memory` | `err <Variant>`
// | `sols …` (enumstats/enum), followed by ` checks=<limit checks performed>`.
use selen::prelude::*;

fn var_ix(tok: &str) -> usize { tok.trim_start_matches('x').parse().expect("var") }

fn classify(r: Result<Solution, SolverError>, ids: &[VarId]) -> String {
    match r {
        Ok(s) => format!("ok {}", ids.iter().map(|&v| s.get_int(v).to_string()).collect::<Vec<_>>().join(",")),
        Err(SolverError::NoSolution { .. }) => "nosol".to_string(),
        Err(SolverError::Timeout { .. }) => "timeout".to_string(),
        Err(SolverError::MemoryLimit { .. }) => "memory".to_string(),
        Err(e) => format!("err {}", format!("{:?}", e).split(|c: char| !c.is_alphanumeric()).next().unwrap_or("?")),
    }
}

pub fn run_case(line: &str) -> String {
    let parts: Vec<String> = line.split(';').map(|p| p.trim().to_string()).filter(|p| !p.is_empty()).collect();
    let mut iv: Option<usize> = None;
    let mut tfire: Option<u64> = None;
    let mut mem: Option<u64> = None;
    let mut buildmem = false;
    let mut entry = "solve".to_string();
    let mut posts: Vec<String> = vec![];
    for p in &parts[1..] {
        let t: Vec<&str> = p.split_whitespace().collect();
        match t[0] {
            "iv" => iv = Some(t[1].parse().unwrap()),
            "tfire" => tfire = Some(t[1].parse().unwrap()),
            "mem" => mem = Some(t[1].parse().unwrap()),
            "buildmem" => buildmem = true,
            "solve" | "min" | "max" | "enumstats" | "enum" => entry = p.clone(),
            _ => posts.push(p.clone()),
        }
    }
    let mut cfg = SolverConfig::unlimited();
    if let Some(l) = mem { cfg = cfg.with_max_memory_mb(l); }
    if buildmem { cfg = cfg.with_max_memory_mb(1); }
    let mut m = Model::with_config(cfg);
    let mut ids: Vec<VarId> = vec![];
    for d in parts[0].split('|').map(|d| d.trim()).filter(|d| !d.is_empty()) {
        if let Some(p) = d.find("..") {
            ids.push(m.int(d[..p].parse().unwrap(), d[p + 2..].parse().unwrap()));
        } else {
            ids.push(m.intset(crate::parse_list(d)));
        }
    }
    if buildmem {
        for _ in 0..200 { let _ = m.int(0, 100000); }
    }
    for p in &posts {
        let t: Vec<&str> = p.split_whitespace().collect();
        let cs = crate::parse_list(t[1]);
        let xs: Vec<VarId> = if t[2] == "-" { vec![] } else { t[2].split(',').map(|x| ids[var_ix(x)]).collect() };
        let k: i32 = t[3].parse().unwrap();
        match t[0] {
            "lineq" => m.lin_eq(&cs, &xs, k),
            "linle" => m.lin_le(&cs, &xs, k),
            "linne" => m.lin_ne(&cs, &xs, k),
            o => panic!("limits: unsupported posting {}", o),
        }
    }
    selen::verif_hooks::set_root_lp_disabled(true);
    selen::verif_hooks::set_fast_path_disabled(true);
    selen::verif_hooks::set_agenda_seed(None);
    selen::verif_hooks::set_limit_script(iv, tfire);
    let t: Vec<&str> = entry.split_whitespace().collect();
    let out = match t[0] {
        "solve" => classify(m.solve(), &ids),
        "min" => classify(m.minimize(ids[var_ix(t[1])]), &ids),
        "max" => classify(m.maximize(ids[var_ix(t[1])]), &ids),
        "enumstats" | "enum" => {
            let sols: Vec<Solution> = if t[0] == "enumstats" { m.enumerate_with_stats().0 } else { m.enumerate().collect() };
            let s: Vec<String> = sols.iter().map(|s| ids.iter().map(|&v| s.get_int(v).to_string()).collect::<Vec<_>>().join(",")).collect();
            format!("sols {}", if s.is_empty() { "-".to_string() } else { s.join(" ") })
        }
        o => panic!("bad entry {}", o),
    };
    let checks = selen::verif_hooks::limit_checks_done();
    selen::verif_hooks::set_limit_script(None, None);
    format!("{} checks={}", out, checks)
}
