// sub-command `sparseset`:  <init> ; op ; op ; ...
//   init ::= r <lo> <hi> | v <a,b,c|->
//   op   ::= rm x | rmall | only x | below x | above x | inter L | union L | diff L
//          | save | restore k | subset L | equals L | has x
// output: one observation per op (and one for the initial state), joined by " / ".
use crate::{fmt_list, parse_list};
use selen::variables::domain::sparse_set::{SparseSet, SparseSetState};

fn obs(s: &SparseSet, extra: &str) -> String {
    let mut el: Vec<i32> = s.iter().collect();
    el.sort();
    let mut co: Vec<i32> = s.complement_iter().collect();
    co.sort();
    let (mn, mx) = if s.is_empty() {
        ("-".to_string(), "-".to_string())
    } else {
        (s.min().to_string(), s.max().to_string())
    };
    let fl = match (s.first(), s.last()) {
        (Some(a), Some(b)) => {
            if el.contains(&a) && el.contains(&b) { "in" } else { "OUT" }
        }
        (None, None) => "none",
        _ => "MIXED",
    };
    format!(
        "sz={} e={} f={} mn={} mx={} el={} co={} fl={}{}",
        s.size(),
        s.is_empty() as u8,
        s.is_fixed() as u8,
        mn,
        mx,
        fmt_list(&el),
        fmt_list(&co),
        fl,
        extra
    )
}

pub fn run_case(line: &str) -> String {
    let mut parts = line.split(';').map(|p| p.trim());
    let init = parts.next().unwrap();
    let it: Vec<&str> = init.split_whitespace().collect();
    let mut s = match it[0] {
        "r" => SparseSet::new(it[1].parse().unwrap(), it[2].parse().unwrap()),
        "v" => SparseSet::new_from_values(parse_list(it.get(1).copied().unwrap_or("-"))),
        _ => panic!("bad init"),
    };
    let mut snaps: Vec<SparseSetState> = Vec::new();
    let mut out = vec![obs(&s, "")];
    for p in parts {
        if p.is_empty() {
            continue;
        }
        let t: Vec<&str> = p.split_whitespace().collect();
        let mut extra = String::new();
        match t[0] {
            "rm" => {
                let r = s.remove(t[1].parse().unwrap());
                extra = format!(" r={}", r as u8);
            }
            "rmall" => s.remove_all(),
            "only" => s.remove_all_but(t[1].parse().unwrap()),
            "below" => s.remove_below(t[1].parse().unwrap()),
            "above" => s.remove_above(t[1].parse().unwrap()),
            "inter" => s.intersect_with(&SparseSet::new_from_values(parse_list(t[1]))),
            "union" => s.union_with(&SparseSet::new_from_values(parse_list(t[1]))),
            "diff" => s.diff_with(&SparseSet::new_from_values(parse_list(t[1]))),
            "save" => snaps.push(s.save_state()),
            "restore" => {
                let k: usize = t[1].parse().unwrap();
                if k < snaps.len() {
                    s.restore_state(&snaps[k]);
                    snaps.truncate(k + 1);
                }
            }
            "subset" => {
                let o = SparseSet::new_from_values(parse_list(t[1]));
                extra = format!(" r={}", s.is_subset_of(&o) as u8);
            }
            "equals" => {
                let o = SparseSet::new_from_values(parse_list(t[1]));
                extra = format!(" r={}", s.equals(&o) as u8);
            }
            "has" => {
                extra = format!(" r={}", s.contains(t[1].parse().unwrap()) as u8);
            }
            _ => panic!("bad op {}", t[0]),
        }
        out.push(obs(&s, &extra));
    }
    out.join(" / ")
}
