// Props-level sub-commands (doc-hidden public API: Vars, Propagators, ViewExt, search::*):
//   prop   <doms> ; <pspec> ; <pspec> ... [; sched <seed>]
//          -> propagate with every propagator scheduled: `fail` or the domains
//   solve  <doms> ; <pspec> ; ... ; (enum | min <view> | max <view>) [; sched <seed>] [; lp]
//          -> every yielded solution, in order
//   ctx    <doms> ; (min|max) v b ; ...          (hook H1) try_set_min/max sequence, events
//   view   <doms> ; <view> ; (min|max) b ; ...   (hook H1) bounds of the view, then tightenings
// doms  ::= dom|dom|...    dom ::= lo..hi | a,b,c
// view  ::= xN | c:K | opp(view) | plus(view,K) | times(view,K) | next(view) | prev(view)
use selen::constraints::props::Propagators;
use selen::search::{agenda::Agenda, mode, propagate, Space};
use selen::variables::views::{Context, View, ViewExt};
use selen::variables::{Val, Var, VarId, Vars};

#[derive(Clone, Debug)]
pub enum Op { Opp, Plus(i32), Times(i32), Next, Prev }
#[derive(Clone, Debug)]
pub enum Leaf { Var(usize), Const(i32) }
#[derive(Clone, Debug)]
pub struct VSpec { pub leaf: Leaf, pub ops: Vec<Op> } // ops innermost first

pub fn parse_view(s: &str) -> VSpec {
    let s = s.trim();
    if let Some(r) = s.strip_prefix('x') {
        if let Ok(i) = r.parse::<usize>() { return VSpec { leaf: Leaf::Var(i), ops: vec![] }; }
    }
    if let Some(r) = s.strip_prefix("c:") {
        return VSpec { leaf: Leaf::Const(r.parse().expect("const")), ops: vec![] };
    }
    let open = s.find('(').expect("view syntax");
    let name = &s[..open];
    let inner = &s[open + 1..s.len() - 1];
    // split the last top-level comma
    let mut depth = 0; let mut comma = None;
    for (i, ch) in inner.char_indices() {
        match ch { '(' => depth += 1, ')' => depth -= 1, ',' if depth == 0 => comma = Some(i), _ => {} }
    }
    let (sub, arg) = match comma { Some(i) => (&inner[..i], Some(inner[i + 1..].trim())), None => (inner, None) };
    let mut v = parse_view(sub);
    let op = match name {
        "opp" => Op::Opp,
        "plus" => Op::Plus(arg.unwrap().parse().unwrap()),
        "times" => Op::Times(arg.unwrap().parse().unwrap()),
        "next" => Op::Next,
        "prev" => Op::Prev,
        _ => panic!("bad view op {}", name),
    };
    v.ops.push(op);
    v
}

pub trait ViewK { type Out; fn call<V: View>(self, v: V) -> Self::Out; }

fn wv0<V: View, K: ViewK>(v: V, ops: &[Op], k: K) -> K::Out {
    assert!(ops.is_empty(), "view too deep for the harness");
    k.call(v)
}
macro_rules! wv_level {
    ($name:ident, $next:ident) => {
        fn $name<V: View, K: ViewK>(v: V, ops: &[Op], k: K) -> K::Out {
            match ops.split_first() {
                None => k.call(v),
                Some((Op::Opp, r)) => $next(v.opposite(), r, k),
                Some((Op::Plus(c), r)) => $next(v.plus(Val::ValI(*c)), r, k),
                Some((Op::Times(c), r)) => $next(v.times(Val::ValI(*c)), r, k),
                Some((Op::Next, r)) => $next(v.next(), r, k),
                Some((Op::Prev, r)) => $next(v.prev(), r, k),
            }
        }
    };
}
wv_level!(wv1, wv0);
wv_level!(wv2, wv1);
wv_level!(wv3, wv2);

/// deep views (depth <= 3)
pub fn with_view_deep<K: ViewK>(vars: &[VarId], spec: &VSpec, k: K) -> K::Out {
    match spec.leaf {
        Leaf::Var(i) => wv3(vars[i], &spec.ops, k),
        Leaf::Const(c) => wv3(Val::ValI(c), &spec.ops, k),
    }
}
/// shallow views (depth <= 1), used for propagator operands
pub fn with_view<K: ViewK>(vars: &[VarId], spec: &VSpec, k: K) -> K::Out {
    match spec.leaf {
        Leaf::Var(i) => wv1(vars[i], &spec.ops, k),
        Leaf::Const(c) => wv1(Val::ValI(c), &spec.ops, k),
    }
}

pub trait ViewK2 { type Out; fn call<A: View, B: View>(self, a: A, b: B) -> Self::Out; }
struct Second<'a, A: View, K: ViewK2> { a: A, vars: &'a [VarId], b: &'a VSpec, k: K }
struct First<'a, K: ViewK2> { vars: &'a [VarId], b: &'a VSpec, k: K }
impl<'a, K: ViewK2> ViewK for First<'a, K> {
    type Out = K::Out;
    fn call<V: View>(self, a: V) -> K::Out {
        with_view(self.vars, self.b, Second { a, vars: self.vars, b: self.b, k: self.k })
    }
}
impl<'a, A: View, K: ViewK2> ViewK for Second<'a, A, K> {
    type Out = K::Out;
    fn call<V: View>(self, b: V) -> K::Out { let _ = (self.vars, self.b); self.k.call(self.a, b) }
}
pub fn with_views2<K: ViewK2>(vars: &[VarId], a: &VSpec, b: &VSpec, k: K) -> K::Out {
    with_view(vars, a, First { vars, b, k })
}

pub fn parse_doms(s: &str, vars: &mut Vars, props: &mut Propagators) -> Vec<VarId> {
    let mut ids = vec![];
    for d in s.split('|').map(|d| d.trim()).filter(|d| !d.is_empty()) {
        let id = if let Some(p) = d.find("..") {
            let lo: i32 = d[..p].parse().unwrap();
            let hi: i32 = d[p + 2..].parse().unwrap();
            vars.new_var_with_bounds(Val::ValI(lo), Val::ValI(hi))
        } else {
            vars.new_var_with_values(crate::parse_list(d))
        };
        props.on_new_var();
        ids.push(id);
    }
    ids
}

pub fn fmt_doms(vars: &Vars) -> String {
    let mut out = vec![];
    for (_, v) in vars.iter_with_indices() {
        match v {
            Var::VarI(ss) => { let mut e: Vec<i32> = ss.iter().collect(); e.sort(); out.push(crate::fmt_list(&e)); }
            Var::VarF(fi) => out.push(format!("F[{:016x},{:016x}]", fi.min.to_bits(), fi.max.to_bits())),
        }
    }
    out.join("|")
}

struct PostK<'a> { props: &'a mut Propagators, kind: &'a str, s: Option<VarId> }
impl<'a> ViewK2 for PostK<'a> {
    type Out = ();
    fn call<A: View, B: View>(self, a: A, b: B) {
        match self.kind {
            "add" => { self.props.add(a, b, self.s.unwrap()); }
            "sub" => { self.props.sub(a, b, self.s.unwrap()); }
            "mul" => { self.props.mul(a, b, self.s.unwrap()); }
            "mod" => { self.props.modulo(a, b, self.s.unwrap()); }
            "leq" => { self.props.less_than_or_equals(a, b); }
            "lt" => { self.props.less_than(a, b); }
            "geq" => { self.props.greater_than_or_equals(a, b); }
            "gt" => { self.props.greater_than(a, b); }
            "eq" => { self.props.equals(a, b); }
            "neq" => { self.props.not_equals(a, b); }
            k => panic!("bad binary kind {}", k),
        }
    }
}
struct AbsK<'a> { props: &'a mut Propagators, s: VarId }
impl<'a> ViewK for AbsK<'a> { type Out = (); fn call<V: View>(self, v: V) { self.props.abs(v, self.s); } }

pub fn var_ix(tok: &str) -> usize { tok.trim_start_matches('x').parse().expect("var") }
pub fn var_list(tok: &str, vars: &[VarId]) -> Vec<VarId> {
    if tok == "-" { return vec![]; }
    tok.split(',').map(|t| vars[var_ix(t)]).collect()
}

/// post one propagator described by `spec`
pub fn post(spec: &str, vars: &[VarId], props: &mut Propagators) {
    let t: Vec<&str> = spec.split_whitespace().collect();
    match t[0] {
        "add" | "sub" | "mul" | "mod" => {
            let (a, b) = (parse_view(t[1]), parse_view(t[2]));
            with_views2(vars, &a, &b, PostK { props, kind: t[0], s: Some(vars[var_ix(t[3])]) });
        }
        "leq" | "lt" | "geq" | "gt" | "eq" | "neq" => {
            let (a, b) = (parse_view(t[1]), parse_view(t[2]));
            with_views2(vars, &a, &b, PostK { props, kind: t[0], s: None });
        }
        "abs" => { let a = parse_view(t[1]); with_view(vars, &a, AbsK { props, s: vars[var_ix(t[2])] }); }
        "sum" => { props.sum(var_list(t[1], vars), vars[var_ix(t[2])]); }
        "minof" => { props.min(var_list(t[1], vars), vars[var_ix(t[2])]); }
        "maxof" => { props.max(var_list(t[1], vars), vars[var_ix(t[2])]); }
        "lineq" => { props.int_lin_eq(crate::parse_list(t[1]), var_list(t[2], vars), t[3].parse().unwrap()); }
        "linle" => { props.int_lin_le(crate::parse_list(t[1]), var_list(t[2], vars), t[3].parse().unwrap()); }
        "linne" => { props.int_lin_ne(crate::parse_list(t[1]), var_list(t[2], vars), t[3].parse().unwrap()); }
        "lineqr" => { props.int_lin_eq_reif(crate::parse_list(t[1]), var_list(t[2], vars), t[3].parse().unwrap(), vars[var_ix(t[4])]); }
        "linler" => { props.int_lin_le_reif(crate::parse_list(t[1]), var_list(t[2], vars), t[3].parse().unwrap(), vars[var_ix(t[4])]); }
        "linner" => { props.int_lin_ne_reif(crate::parse_list(t[1]), var_list(t[2], vars), t[3].parse().unwrap(), vars[var_ix(t[4])]); }
        "alldiff" => { props.all_different(var_list(t[1], vars)); }
        "alleq" => { props.all_equal(var_list(t[1], vars)); }
        k => crate::plevel_ext::post_ext(k, &t, vars, props),
    }
}

struct Setup { vars: Vars, props: Propagators, ids: Vec<VarId>, rest: Vec<String> }
fn setup(line: &str) -> Setup {
    selen::verif_hooks::set_agenda_seed(None);
    selen::verif_hooks::set_root_lp_disabled(true);
    let mut parts = line.split(';').map(|p| p.trim().to_string());
    let mut vars = Vars::new();
    let mut props = Propagators::default();
    let ids = parse_doms(&parts.next().unwrap(), &mut vars, &mut props);
    let mut rest = vec![];
    for p in parts {
        if p.is_empty() { continue; }
        let head = p.split_whitespace().next().unwrap().to_string();
        match head.as_str() {
            "enum" | "min" | "max" | "first" | "sched" | "lp" => rest.push(p),
            _ => post(&p, &ids, &mut props),
        }
    }
    for r in &rest {
        let t: Vec<&str> = r.split_whitespace().collect();
        if t[0] == "sched" { selen::verif_hooks::set_agenda_seed(Some(t[1].parse().unwrap())); }
        if t[0] == "lp" { selen::verif_hooks::set_root_lp_disabled(false); }
    }
    Setup { vars, props, ids, rest }
}

/// sub-command `deps`: the dependency table built while the propagators were posted (which propagators are woken when a
/// variable changes: Propagators::on_bound_change), one entry per variable, propagator ids in registration order
pub fn run_deps(line: &str) -> String {
    let st = setup(line);
    selen::verif_hooks::set_agenda_seed(None);
    let rows: Vec<String> = st.ids.iter().map(|&v| {
        let ps: Vec<String> = st.props.on_bound_change(v).map(|p| p.0.to_string()).collect();
        if ps.is_empty() { "-".to_string() } else { ps.join(",") }
    }).collect();
    format!("deps {}", rows.join("|"))
}

pub fn run_prop(line: &str) -> String {
    let st = setup(line);
    let agenda = Agenda::with_props(st.props.get_prop_ids_iter());
    let space = Space { vars: st.vars, props: st.props, trail: selen::search::trail::Trail::new(),
        lp_solver_used: false, lp_constraint_count: 0, lp_variable_count: 0, lp_stats: None };
    let r = match propagate(space, agenda) {
        None => "fail".to_string(),
        Some((stalled, sp)) => format!("ok {} {}", if stalled { "stalled" } else { "solved" }, fmt_doms(&sp.vars)),
    };
    selen::verif_hooks::set_agenda_seed(None);
    r
}

fn fmt_solution(sol: &selen::core::solution::Solution, ids: &[VarId]) -> String {
    ids.iter().map(|&v| match sol[v] { Val::ValI(i) => i.to_string(), Val::ValF(f) => format!("F{:016x}", f.to_bits()) }).collect::<Vec<_>>().join(",")
}

struct MinK { vars: Vars, props: Propagators, ids: Vec<VarId>, first_only: bool }
impl ViewK for MinK {
    type Out = String;
    fn call<V: View>(self, obj: V) -> String {
        let it = selen::search::search(self.vars, self.props, mode::Minimize::new(obj));
        let sols: Vec<String> = it.map(|s| fmt_solution(&s, &self.ids)).collect();
        let _ = self.first_only;
        format!("sols {}", if sols.is_empty() { "-".to_string() } else { sols.join(" ") })
    }
}

pub fn run_solve(line: &str) -> String {
    let st = setup(line);
    let entry = st.rest.iter().find(|r| !r.starts_with("sched") && r != &"lp").cloned().unwrap_or("enum".into());
    let t: Vec<&str> = entry.split_whitespace().collect();
    let out = match t[0] {
        "enum" | "first" => {
            let it = selen::search::search(st.vars, st.props, mode::Enumerate);
            let lim = if t[0] == "first" { 1 } else { usize::MAX };
            let sols: Vec<String> = it.take(lim).map(|s| fmt_solution(&s, &st.ids)).collect();
            format!("sols {}", if sols.is_empty() { "-".to_string() } else { sols.join(" ") })
        }
        "min" | "max" => {
            let mut v = parse_view(t[1]);
            if t[0] == "max" { v.ops.push(Op::Opp); }
            let ids = st.ids.clone();
            with_view_deep(&ids, &v, MinK { vars: st.vars, props: st.props, ids: st.ids, first_only: false })
        }
        k => panic!("bad entry {}", k),
    };
    selen::verif_hooks::set_agenda_seed(None);
    let lp_ran = selen::verif_hooks::take_root_lp_ran();
    if lp_ran { format!("{} lp=1", out) } else { out }
}

// ---- ctx / view (hook H1) ----
pub fn run_ctx(line: &str) -> String {
    let mut parts = line.split(';').map(|p| p.trim());
    let mut vars = Vars::new();
    let mut props = Propagators::default();
    let ids = parse_doms(parts.next().unwrap(), &mut vars, &mut props);
    let mut events: Vec<VarId> = vec![];
    let mut out = vec![];
    for p in parts {
        if p.is_empty() { continue; }
        let t: Vec<&str> = p.split_whitespace().collect();
        let v = ids[var_ix(t[1])];
        let b: i32 = t[2].parse().unwrap();
        let before = events.len();
        let r = {
            let mut ctx = Context::new_verif(&mut vars, &mut events);
            match t[0] { "min" => ctx.try_set_min(v, Val::ValI(b)), "max" => ctx.try_set_max(v, Val::ValI(b)), _ => panic!("bad ctx op") }
        };
        let ev = events.len() - before;
        match r {
            None => { out.push("fail".to_string()); break; }
            Some(Val::ValI(x)) => out.push(format!("{} ev={} {}", x, ev, fmt_doms(&vars))),
            Some(Val::ValF(_)) => out.push("float?".to_string()),
        }
    }
    out.join(" / ")
}

struct ViewRunK<'a> { vars: &'a mut Vars, ops: Vec<(bool, i32)> }
impl<'a> ViewK for ViewRunK<'a> {
    type Out = String;
    fn call<V: View>(self, w: V) -> String {
        let mut events: Vec<VarId> = vec![];
        let mut out = vec![];
        let fv = |v: Val| match v { Val::ValI(i) => i.to_string(), Val::ValF(f) => format!("F{:016x}", f.to_bits()) };
        {
            let ctx = Context::new_verif(self.vars, &mut events);
            out.push(format!("bnd {} {}", fv(w.min(&ctx)), fv(w.max(&ctx))));
        }
        for (mx, b) in self.ops {
            let before = events.len();
            let r = {
                let mut ctx = Context::new_verif(self.vars, &mut events);
                if mx { w.try_set_max(Val::ValI(b), &mut ctx) } else { w.try_set_min(Val::ValI(b), &mut ctx) }
            };
            match r {
                None => { out.push("fail".to_string()); break; }
                Some(_) => {
                    let ev = events.len() - before;
                    let ctx = Context::new_verif(self.vars, &mut events);
                    out.push(format!("ok ev={} {} bnd {} {}", ev, fmt_doms(ctx.vars()), fv(w.min(&ctx)), fv(w.max(&ctx))));
                }
            }
        }
        out.join(" / ")
    }
}

pub fn run_view(line: &str) -> String {
    let mut parts = line.split(';').map(|p| p.trim());
    let mut vars = Vars::new();
    let mut props = Propagators::default();
    let ids = parse_doms(parts.next().unwrap(), &mut vars, &mut props);
    let spec = parse_view(parts.next().unwrap());
    let mut ops = vec![];
    for p in parts {
        if p.is_empty() { continue; }
        let t: Vec<&str> = p.split_whitespace().collect();
        ops.push((t[0] == "max", t[1].parse::<i32>().unwrap()));
    }
    with_view_deep(&ids, &spec, ViewRunK { vars: &mut vars, ops })
}
