// Model-level sub-commands (public API: Model::{int,intset,bool,new,lin_eq,lin_le,lin_ne,add,sub,mul},
// fluent ExprBuilder / Constraint methods; hook H2 Model::verif_lower):
//   lower   <decls> ; <post> ; <post> ...            -> final domains + one normalised line per propagator
//   msolve  <decls> ; <post> ; ... ; <entry>          -> solutions projected on the declared variables
//   mspell  <decls> ; <alt> ;; <alt> ;; ...           -> enumerate's solution set of every spelling
// decls ::= decl|decl|...      decl ::= lo..hi (m.int) | b (m.bool) | a,b,c (m.intset)
// post  ::= new <cons> | lin (eq|le|ne) c,c,.. xI,xJ,.. k | api (add|sub|mul) xI xJ
// cons  ::= (eq|ne|lt|le|gt|ge)(<expr>,<expr>) | and(<cons>,<cons>) | or(<cons>,<cons>) | not(<cons>)
//         | (andall|orall|allof|anyof)(<cons>,...)   the free functions and_all / or_all / all_of / any_of over a Vec<Constraint>;
//           with no argument they return None: `new andall()` posts nothing (a nested empty combinator is not expressible)
// expr  ::= xN | <int> | (add|sub|mul|mod)(<expr>,<expr>)       (public fluent methods, folding included)
// entry ::= enum | first | min xN | max xN
use selen::prelude::*;
use selen::runtime_api::{Constraint, ExprBuilder, ModelExt};
use selen::variables::{Val, Var, VarId, Vars};
use selen::constraints::props::Propagators;

fn split_top(s: &str) -> Vec<&str> {
    let mut out = vec![]; let mut depth = 0; let mut start = 0;
    for (i, ch) in s.char_indices() {
        match ch { '(' => depth += 1, ')' => depth -= 1, ',' if depth == 0 => { out.push(&s[start..i]); start = i + 1; } _ => {} }
    }
    out.push(&s[start..]);
    out
}
fn head_args(s: &str) -> Option<(&str, Vec<&str>)> {
    let open = s.find('(')?;
    if !s.ends_with(')') { return None; }
    Some((&s[..open], split_top(&s[open + 1..s.len() - 1])))
}

pub fn parse_expr(s: &str, vars: &[VarId]) -> ExprBuilder {
    let s = s.trim();
    if let Some(r) = s.strip_prefix('x') {
        if let Ok(i) = r.parse::<usize>() { return ExprBuilder::from(vars[i]); }
    }
    if let Ok(c) = s.parse::<i32>() { return ExprBuilder::from(c); }
    let (h, a) = head_args(s).expect("expr syntax");
    assert!(a.len() == 2, "binary expression expected");
    let (l, r) = (parse_expr(a[0], vars), parse_expr(a[1], vars));
    match h {
        "add" => l.add(r),
        "sub" => l.sub(r),
        "mul" => l.mul(r),
        "mod" => l.modulo(r),
        _ => panic!("bad expr op {}", h),
    }
}

/// top-level constraint of `new`: None when and_all / or_all / all_of / any_of of an empty vector returned None
pub fn parse_cons_opt(s: &str, vars: &[VarId]) -> Option<Constraint> {
    let s = s.trim();
    let (h, a) = head_args(s).expect("cons syntax");
    let list = |a: &[&str]| -> Vec<Constraint> { a.iter().filter(|t| !t.trim().is_empty()).map(|t| parse_cons(t, vars)).collect() };
    match h {
        "andall" => selen::runtime_api::and_all(list(&a)),
        "orall" => selen::runtime_api::or_all(list(&a)),
        "allof" => selen::runtime_api::all_of(list(&a)),
        "anyof" => selen::runtime_api::any_of(list(&a)),
        _ => Some(parse_cons(s, vars)),
    }
}

pub fn parse_cons(s: &str, vars: &[VarId]) -> Constraint {
    let s = s.trim();
    let (h, a) = head_args(s).expect("cons syntax");
    match h {
        "andall" | "orall" | "allof" | "anyof" => parse_cons_opt(s, vars).expect("empty combinator nested in a tree"),
        "and" => parse_cons(a[0], vars).and(parse_cons(a[1], vars)),
        "or" => parse_cons(a[0], vars).or(parse_cons(a[1], vars)),
        "not" => parse_cons(a[0], vars).not(),
        _ => {
            let (l, r) = (parse_expr(a[0], vars), parse_expr(a[1], vars));
            match h {
                "eq" => l.eq(r), "ne" => l.ne(r), "lt" => l.lt(r), "le" => l.le(r), "gt" => l.gt(r), "ge" => l.ge(r),
                _ => panic!("bad comparison {}", h),
            }
        }
    }
}

fn var_ix(tok: &str) -> usize { tok.trim_start_matches('x').parse().expect("var") }

pub struct Built { pub m: Model, pub user: Vec<VarId>, pub entry: Vec<String>, pub nall: Vec<VarId> }

pub fn build(line: &str) -> Built {
    selen::verif_hooks::set_agenda_seed(None);
    selen::verif_hooks::set_root_lp_disabled(true);
    selen::verif_hooks::set_fast_path_disabled(true);
    let mut parts = line.split(';').map(|p| p.trim());
    let mut m = Model::default();
    let mut vars: Vec<VarId> = vec![];
    for d in parts.next().unwrap().split('|').map(|d| d.trim()).filter(|d| !d.is_empty()) {
        let v = if d == "b" { m.bool() }
        else if let Some(p) = d.find("..") { m.int(d[..p].parse().unwrap(), d[p + 2..].parse().unwrap()) }
        else { m.intset(crate::parse_list(d)) };
        vars.push(v);
    }
    let mut entry = vec![];
    for p in parts {
        if p.is_empty() { continue; }
        let t: Vec<&str> = p.split_whitespace().collect();
        match t[0] {
            "new" => { if let Some(c) = parse_cons_opt(t[1], &vars) { m.new(c); } }
            "lin" => {
                let cs = crate::parse_list(t[2]);
                let xs: Vec<VarId> = if t[3] == "-" { vec![] } else { t[3].split(',').map(|x| vars[var_ix(x)]).collect() };
                let k: i32 = t[4].parse().unwrap();
                match t[1] { "eq" => m.lin_eq(&cs, &xs, k), "le" => m.lin_le(&cs, &xs, k), "ne" => m.lin_ne(&cs, &xs, k), _ => panic!("bad lin op") }
            }
            "api" => {
                let (a, b) = (vars[var_ix(t[2])], vars[var_ix(t[3])]);
                let r = match t[1] { "add" => m.add(a, b), "sub" => m.sub(a, b), "mul" => m.mul(a, b), "mod" => m.modulo(a, b), _ => panic!("bad api fn") };
                vars.push(r);
            }
            "enum" | "enumall" | "first" | "min" | "max" => entry = t.iter().map(|s| s.to_string()).collect(),
            // production configuration: root LP step and optimisation fast path ON (used by C16's two-process family)
            "prod" => { selen::verif_hooks::set_root_lp_disabled(false); selen::verif_hooks::set_fast_path_disabled(false); }
            k => panic!("bad post {}", k),
        }
    }
    Built { m, user: vars, entry, nall: vec![] }
}

/// canonical domain text: maximal runs `a..b` (b > a) and single values, comma separated; `-` if empty
pub fn fmt_dom(e: &[i32]) -> String {
    if e.is_empty() { return "-".to_string(); }
    let mut segs = vec![]; let mut i = 0;
    while i < e.len() {
        let mut j = i;
        while j + 1 < e.len() && e[j + 1] == e[j] + 1 { j += 1; }
        if j > i { segs.push(format!("{}..{}", e[i], e[j])); } else { segs.push(e[i].to_string()); }
        i = j + 1;
    }
    segs.join(",")
}

fn fmt_doms(vars: &Vars) -> String {
    let mut out = vec![];
    for (_, v) in vars.iter_with_indices() {
        match v {
            Var::VarI(ss) => { let mut e: Vec<i32> = ss.iter().collect(); e.sort(); out.push(fmt_dom(&e)); }
            Var::VarF(fi) => out.push(format!("F[{:016x},{:016x}]", fi.min.to_bits(), fi.max.to_bits())),
        }
    }
    out.join("|")
}

fn err_name(e: &selen::core::SolverError) -> String {
    let s = format!("{:?}", e);
    s.split(|c: char| !c.is_alphanumeric()).next().unwrap_or("?").to_string()
}

fn dump_props(props: &Propagators) -> Vec<String> {
    props.get_prop_ids_iter().map(|id| normalise(&format!("{:?}", props.get_state(id)))).collect()
}

// ---- normalisation of the Debug text of a propagator into the pspec syntax of plevel.rs ----
struct P<'a> { s: &'a [u8], i: usize }
impl<'a> P<'a> {
    fn ws(&mut self) { while self.i < self.s.len() && (self.s[self.i] == b' ' || self.s[self.i] == b',') { self.i += 1; } }
    fn eat(&mut self, t: &str) -> bool {
        self.ws();
        if self.s[self.i..].starts_with(t.as_bytes()) { self.i += t.len(); true } else { false }
    }
    fn ident(&mut self) -> String {
        self.ws();
        let st = self.i;
        while self.i < self.s.len() && (self.s[self.i].is_ascii_alphanumeric() || self.s[self.i] == b'_' || self.s[self.i] == b':') { self.i += 1; }
        String::from_utf8_lossy(&self.s[st..self.i]).to_string()
    }
    fn int(&mut self) -> Option<i64> {
        self.ws();
        let st = self.i;
        if self.i < self.s.len() && self.s[self.i] == b'-' { self.i += 1; }
        while self.i < self.s.len() && self.s[self.i].is_ascii_digit() { self.i += 1; }
        std::str::from_utf8(&self.s[st..self.i]).ok()?.parse().ok()
    }
    fn field(&mut self, name: &str) -> Option<()> { if self.eat(name) && self.eat(":") { Some(()) } else { None } }
    fn vali(&mut self) -> Option<i64> { if !self.eat("ValI(") { return None; } let v = self.int()?; if self.eat(")") { Some(v) } else { None } }
    fn view(&mut self) -> Option<String> {
        let id = self.ident();
        if !self.eat("(") { return None; }
        let r = match id.as_str() {
            "VarId" => format!("x{}", self.int()?),
            "ValI" => format!("c:{}", self.int()?),
            "Next" => format!("next({})", self.view()?),
            "Prev" => format!("prev({})", self.view()?),
            "Opposite" => format!("opp({})", self.view()?),
            "Plus" => { self.field("x")?; let w = self.view()?; self.field("offset")?; format!("plus({},{})", w, self.vali()?) }
            "TimesPos" => { self.field("x")?; let w = self.view()?; self.field("scale")?; format!("times({},{})", w, self.vali()?) }
            _ => return None,
        };
        if self.eat(")") { Some(r) } else { None }
    }
    fn int_list(&mut self) -> Option<Vec<i64>> {
        if !self.eat("[") { return None; }
        let mut v = vec![];
        loop { if self.eat("]") { return Some(v); } v.push(self.int()?); }
    }
    fn var_list(&mut self) -> Option<Vec<String>> {
        if !self.eat("[") { return None; }
        let mut v = vec![];
        loop { if self.eat("]") { return Some(v); } v.push(self.view()?); }
    }
}
fn join_or_dash(v: Vec<String>) -> String { if v.is_empty() { "-".to_string() } else { v.join(",") } }

fn try_normalise(s: &str) -> Option<String> {
    let mut p = P { s: s.as_bytes(), i: 0 };
    let name = p.ident();
    if !p.eat("{") { return None; }
    let out = match name.as_str() {
        "Add" | "Mul" | "Modulo" => {
            p.field("x")?; let x = p.view()?; p.field("y")?; let y = p.view()?; p.field("s")?; let r = p.view()?;
            format!("{} {} {} {}", match name.as_str() { "Add" => "add", "Mul" => "mul", _ => "mod" }, x, y, r)
        }
        "LessThan" => {
            // LessThan { x, y } (strict comparison propagator) is `x.next() <= y` for the integer vocabulary of this
            // sub-command: print it in that form, which is how the model describes x < y
            p.field("x")?; let x = p.view()?; p.field("y")?; let y = p.view()?;
            format!("leq next({}) {}", x, y)
        }
        "LessThanOrEquals" | "Eq" | "NotEquals" => {
            p.field("x")?; let x = p.view()?; p.field("y")?; let y = p.view()?;
            format!("{} {} {}", match name.as_str() { "LessThanOrEquals" => "leq", "Eq" => "eq", _ => "neq" }, x, y)
        }
        "IntLinEq" | "IntLinLe" | "IntLinNe" => {
            p.field("coefficients")?; let cs = p.int_list()?; p.field("variables")?; let xs = p.var_list()?; p.field("constant")?; let k = p.int()?;
            format!("{} {} {} {}", match name.as_str() { "IntLinEq" => "lineq", "IntLinLe" => "linle", _ => "linne" },
                    join_or_dash(cs.iter().map(|c| c.to_string()).collect()), join_or_dash(xs), k)
        }
        // the reified lowering of Or / Not (reify_constraint_kind); same spelling as mroutes.rs
        "IntEqReif" | "IntNeReif" | "IntLtReif" | "IntLeReif" | "IntGtReif" | "IntGeReif" => {
            p.field("x")?; let x = p.view()?; p.field("y")?; let y = p.view()?; p.field("b")?; let b = p.view()?;
            format!("{} {} {} {}", match name.as_str() { "IntEqReif" => "eqr", "IntNeReif" => "ner", "IntLtReif" => "ltr", "IntLeReif" => "ler", "IntGtReif" => "gtr", _ => "ger" }, x, y, b)
        }
        "IntLinEqReif" | "IntLinLeReif" | "IntLinNeReif" => {
            p.field("coefficients")?; let cs = p.int_list()?; p.field("variables")?; let xs = p.var_list()?; p.field("constant")?; let k = p.int()?;
            p.field("reif_var")?; let b = p.view()?;
            format!("{} {} {} {} {}", match name.as_str() { "IntLinEqReif" => "lineqr", "IntLinLeReif" => "linler", _ => "linner" },
                    join_or_dash(cs.iter().map(|c| c.to_string()).collect()), join_or_dash(xs), k, b)
        }
        "BoolAnd" | "BoolOr" => {
            p.field("operands")?; let xs = p.var_list()?; p.field("result")?; let r = p.view()?;
            format!("{} {} {}", if name == "BoolAnd" { "band" } else { "bor" }, join_or_dash(xs), r)
        }
        "BoolNot" => { p.field("operand")?; let o = p.view()?; p.field("result")?; let r = p.view()?; format!("bnot {} {}", o, r) }
        _ => return None,
    };
    if p.eat("}") { p.ws(); if p.i == p.s.len() { return Some(out); } }
    None
}
pub fn normalise(s: &str) -> String { try_normalise(s).unwrap_or_else(|| format!("?{}", s.replace(';', ":"))) }

pub fn run_lower(line: &str) -> String {
    let b = build(line);
    match b.m.verif_lower() {
        Err(e) => format!("err {}", err_name(&e)),
        Ok((vars, props, _lp)) => {
            let ps = dump_props(&props);
            format!("ok {} ; {}", fmt_doms(&vars), if ps.is_empty() { "-".to_string() } else { ps.join(" ; ") })
        }
    }
}

fn proj(sol: &selen::core::solution::Solution, ids: &[VarId]) -> Vec<i32> {
    ids.iter().map(|&v| match sol[v] { Val::ValI(i) => i, Val::ValF(_) => i32::MIN }).collect()
}
fn fmt_tuple(t: &[i32]) -> String { t.iter().map(|x| x.to_string()).collect::<Vec<_>>().join(",") }
fn fmt_set(mut sols: Vec<Vec<i32>>) -> String {
    let n = sols.len();
    sols.sort(); sols.dedup();
    let dup = if sols.len() != n { " dup" } else { "" };
    format!("sols {}{}", if sols.is_empty() { "-".to_string() } else { sols.iter().map(|t| fmt_tuple(t)).collect::<Vec<_>>().join(" ") }, dup)
}

fn solve_built(b: Built, entry: &[String]) -> String {
    let e0 = entry.first().map(|s| s.as_str()).unwrap_or("enum");
    match e0 {
        "enum" => { let user = b.user.clone(); fmt_set(b.m.enumerate().map(|s| proj(&s, &user)).collect()) }
        "enumall" => {
            // every variable, auxiliaries included: the count comes from lowering a second copy
            { let all = b.nall.clone(); fmt_set(b.m.enumerate().map(|s| proj(&s, &all)).collect()) }
        }
        "first" => match b.m.solve() {
            Ok(s) => format!("one {}", fmt_tuple(&proj(&s, &b.user))),
            Err(e) => format!("err {}", err_name(&e)),
        },
        "min" | "max" => {
            let obj = b.user[var_ix(&entry[1])];
            let r = if e0 == "min" { b.m.minimize(obj) } else { b.m.maximize(obj) };
            match r {
                Ok(s) => format!("one {}", fmt_tuple(&proj(&s, &b.user))),
                Err(e) => format!("err {}", err_name(&e)),
            }
        }
        k => panic!("bad entry {}", k),
    }
}

pub fn run_msolve(line: &str) -> String {
    let mut b = build(line);
    let entry = b.entry.clone();
    if entry.first().map(|s| s.as_str()) == Some("enumall") {
        let n = match build(line).m.verif_lower() { Ok((vars, _, _)) => vars.iter_with_indices().count(), Err(_) => 0 };
        // VarId has no public constructor: take the handles of a scratch store (VarId = index)
        let mut scratch = Vars::new();
        b.nall = (0..n).map(|_| scratch.new_var_with_bounds(Val::ValI(0), Val::ValI(0))).collect();
    }
    solve_built(b, &entry)
}

/// mspell: `<decls> ; <posts> ;; <posts> ;; P: <pspecs>` — enumerate's solution set (projected on the
/// declared variables) of every spelling, joined by ` / `.  An alternative starting with `P:` is a
/// props-level model run through plevel::run_solve on the same domains (bool written as 0..1).
pub fn run_mspell(line: &str) -> String {
    let (decls, rest) = line.split_once(';').expect("mspell syntax");
    let nuser = decls.split('|').filter(|d| !d.trim().is_empty()).count();
    let mut outs = vec![];
    for alt in rest.split(";;") {
        let alt = alt.trim();
        if let Some(pl) = alt.strip_prefix("P:") {
            let doms = decls.split('|').map(|d| if d.trim() == "b" { "0..1" } else { d.trim() }).collect::<Vec<_>>().join("|");
            let r = crate::plevel::run_solve(&format!("{} ; {} ; enum", doms, pl.trim()));
            // project on the first nuser variables and canonicalise as a set
            let body = r.strip_prefix("sols ").unwrap_or("-");
            let sols: Vec<Vec<i32>> = if body.trim() == "-" { vec![] } else {
                body.split(' ').map(|t| t.split(',').take(nuser).map(|x| x.parse().unwrap()).collect()).collect() };
            outs.push(fmt_set(sols));
        } else {
            let b = build(&format!("{} ; {}", decls, alt));
            outs.push(solve_built(b, &["enum".to_string()]));
        }
    }
    outs.join(" / ")
}
