// sub-command `lp`:  c <q..> ; A <q..> | <q..> | ... ; b <q..> ; l <q..> ; u <q..>
//   q ::= p | p/d   (d a power of two, so every datum is exact in f64)
//   `A` and `b` alone (no numbers) mean "no rows".
// Builds selen::lpsolver::LpProblem, runs
//   cold : lpsolver::solve(&p)                                  (primal simplex, default LpConfig)
//   warm : lpsolver::solve_warmstart(&p, &cold, &LpConfig::default())   (dual simplex from the cold basis,
//          same problem), only when the cold call returned Ok
//   wadd : the documented use of the warm start ("adding constraints to a previously solved problem"):
//          cold-solve the problem WITHOUT its last row, then solve_warmstart the full problem from
//          that solution; only when there is at least one row
// and prints one canonical line
//   cold <res> ; warm <res> ; wadd <res>
//   res ::= <Status> obj=<f64 bits hex>(<decimal>) x=<bits hex,...>     (Ok: status is the LpStatus variant)
//         | Err:<LpError variant>
//         | PANIC:<message>
//         | skipped
// f64s are printed by bit pattern (the decimal in parentheses is informational only).
use selen::lpsolver::{solve, solve_warmstart, LpConfig, LpError, LpProblem, LpSolution, LpStatus};
use std::panic::{catch_unwind, AssertUnwindSafe};

fn parse_q(tok: &str) -> f64 {
    match tok.split_once('/') {
        None => tok.parse::<i64>().expect("int") as f64,
        Some((p, d)) => {
            let p = p.parse::<i64>().expect("num") as f64;
            let d = d.parse::<i64>().expect("den");
            assert!(d > 0 && (d & (d - 1)) == 0, "denominator must be a power of two");
            p / (d as f64)
        }
    }
}

fn parse_vec(s: &str) -> Vec<f64> {
    s.split_whitespace().map(parse_q).collect()
}

pub fn parse_problem(line: &str) -> LpProblem {
    let mut c = vec![];
    let mut a: Vec<Vec<f64>> = vec![];
    let mut b = vec![];
    let mut l = vec![];
    let mut u = vec![];
    for sec in line.split(';') {
        let sec = sec.trim();
        if sec.is_empty() {
            continue;
        }
        let (tag, rest) = match sec.split_once(' ') {
            Some((t, r)) => (t, r.trim()),
            None => (sec, ""),
        };
        match tag {
            "c" => c = parse_vec(rest),
            "A" => {
                if !rest.is_empty() {
                    a = rest.split('|').map(|r| parse_vec(r)).collect();
                }
            }
            "b" => b = parse_vec(rest),
            "l" => l = parse_vec(rest),
            "u" => u = parse_vec(rest),
            _ => panic!("bad section {}", tag),
        }
    }
    LpProblem::new(c.len(), a.len(), c, a, b, l, u)
}

fn err_name(e: &LpError) -> &'static str {
    match e {
        LpError::ObjectiveDimensionMismatch { .. } => "ObjectiveDimensionMismatch",
        LpError::ConstraintCountMismatch { .. } => "ConstraintCountMismatch",
        LpError::ConstraintRowDimensionMismatch { .. } => "ConstraintRowDimensionMismatch",
        LpError::RhsDimensionMismatch { .. } => "RhsDimensionMismatch",
        LpError::LowerBoundsDimensionMismatch { .. } => "LowerBoundsDimensionMismatch",
        LpError::UpperBoundsDimensionMismatch { .. } => "UpperBoundsDimensionMismatch",
        LpError::InvalidVariableBounds { .. } => "InvalidVariableBounds",
        LpError::ObjectiveNotFinite => "ObjectiveNotFinite",
        LpError::ConstraintMatrixNotFinite => "ConstraintMatrixNotFinite",
        LpError::RhsNotFinite => "RhsNotFinite",
        LpError::NumericalInstability => "NumericalInstability",
        LpError::SingularBasis => "SingularBasis",
        LpError::TimeoutExceeded { .. } => "TimeoutExceeded",
        LpError::MemoryExceeded { .. } => "MemoryExceeded",
    }
}

fn status_name(s: LpStatus) -> &'static str {
    match s {
        LpStatus::Optimal => "Optimal",
        LpStatus::Infeasible => "Infeasible",
        LpStatus::Unbounded => "Unbounded",
        LpStatus::IterationLimit => "IterationLimit",
        LpStatus::NumericalError => "NumericalError",
    }
}

fn fmt_sol(s: &LpSolution) -> String {
    let xs: Vec<String> = s.x.iter().map(|v| format!("{:016x}", v.to_bits())).collect();
    format!(
        "{} obj={:016x}({:e}) x={}",
        status_name(s.status),
        s.objective.to_bits(),
        s.objective,
        if xs.is_empty() { "-".to_string() } else { xs.join(",") }
    )
}

type Guarded = Result<Result<LpSolution, LpError>, String>;

fn fmt_res(r: &Guarded) -> String {
    match r {
        Err(msg) => format!("PANIC:{}", msg),
        Ok(Err(e)) => format!("Err:{}", err_name(e)),
        Ok(Ok(s)) => fmt_sol(s),
    }
}

// a panic inside selen is reported with its message (blanks and ';' replaced so that the line stays tokenisable)
fn guarded<F: FnOnce() -> Result<LpSolution, LpError>>(f: F) -> Guarded {
    catch_unwind(AssertUnwindSafe(f)).map_err(|e| {
        let msg = if let Some(s) = e.downcast_ref::<&str>() {
            s.to_string()
        } else if let Some(s) = e.downcast_ref::<String>() {
            s.clone()
        } else {
            "?".to_string()
        };
        msg.chars()
            .map(|c| if c.is_whitespace() || c == ';' { '_' } else { c })
            .take(100)
            .collect()
    })
}

pub fn run_case(line: &str) -> String {
    let p = parse_problem(line);
    let cfg = LpConfig::default();
    let cold = guarded(|| solve(&p));
    let warm = match &cold {
        Ok(Ok(prev)) => fmt_res(&guarded(|| solve_warmstart(&p, prev, &cfg))),
        _ => "skipped".to_string(),
    };
    // wadd / wadd2 / wadd3: cold-solve the problem WITHOUT its last 1 / 2 / 3 rows, then warm-start the full problem from
    // that solution (several appended rows need several dual pivots: seeded change C09c only shows from the second pivot on)
    let wadd_k = |k: usize| -> String { if p.n_constraints >= k {
        let m1 = p.n_constraints - k;
        let p0 = LpProblem::new(
            p.n_vars,
            m1,
            p.c.clone(),
            p.a[..m1].to_vec(),
            p.b[..m1].to_vec(),
            p.lower_bounds.clone(),
            p.upper_bounds.clone(),
        );
        match guarded(|| solve(&p0)) {
            Ok(Ok(prev)) => fmt_res(&guarded(|| solve_warmstart(&p, &prev, &cfg))),
            _ => "skipped".to_string(),
        }
    } else {
        "skipped".to_string()
    } };
    format!("cold {} ; warm {} ; wadd {} ; wadd2 {} ; wadd3 {}", fmt_res(&cold), warm, wadd_k(1), wadd_k(2), wadd_k(3))
}
